"""The 65c816 opcode matrix (oracle for C01), written from the ISA, independently of the assembler's table.
Written twice -- a flat table per mnemonic and the aaabbbcc group rule for the eight accumulator-group
mnemonics -- and cross-checked at import (selfcheck()).

Forms: imp (implied / accumulator), imm, dp, abs, long, dp_x, abs_x, long_x, dp_y, abs_y, sr, ind_dp, ind_abs,
ind_dp_y, lng_dp, lng_abs, lng_dp_y, ind_dp_x, ind_abs_x, ind_sr_y, rel8.
"""

FORMS = ["imp", "imm", "dp", "abs", "long", "dp_x", "abs_x", "long_x", "dp_y", "abs_y", "sr", "ind_dp", "ind_abs", "ind_dp_y",
         "lng_dp", "lng_abs", "lng_dp_y", "ind_dp_x", "ind_abs_x", "ind_sr_y", "rel8"]

GROUP1_BASE = {"ora": 0x00, "and": 0x20, "eor": 0x40, "adc": 0x60, "sta": 0x80, "lda": 0xA0, "cmp": 0xC0, "sbc": 0xE0}
GROUP1_OFFSET = {"ind_dp_x": 0x01, "sr": 0x03, "dp": 0x05, "lng_dp": 0x07, "imm": 0x09, "abs": 0x0D, "long": 0x0F, "ind_dp_y": 0x11,
                 "ind_dp": 0x12, "ind_sr_y": 0x13, "dp_x": 0x15, "lng_dp_y": 0x17, "abs_y": 0x19, "abs_x": 0x1D, "long_x": 0x1F}

ISA = {
    "ora": {"ind_dp_x": 0x01, "sr": 0x03, "dp": 0x05, "lng_dp": 0x07, "imm": 0x09, "abs": 0x0D, "long": 0x0F, "ind_dp_y": 0x11, "ind_dp": 0x12,
            "ind_sr_y": 0x13, "dp_x": 0x15, "lng_dp_y": 0x17, "abs_y": 0x19, "abs_x": 0x1D, "long_x": 0x1F},
    "and": {"ind_dp_x": 0x21, "sr": 0x23, "dp": 0x25, "lng_dp": 0x27, "imm": 0x29, "abs": 0x2D, "long": 0x2F, "ind_dp_y": 0x31, "ind_dp": 0x32,
            "ind_sr_y": 0x33, "dp_x": 0x35, "lng_dp_y": 0x37, "abs_y": 0x39, "abs_x": 0x3D, "long_x": 0x3F},
    "eor": {"ind_dp_x": 0x41, "sr": 0x43, "dp": 0x45, "lng_dp": 0x47, "imm": 0x49, "abs": 0x4D, "long": 0x4F, "ind_dp_y": 0x51, "ind_dp": 0x52,
            "ind_sr_y": 0x53, "dp_x": 0x55, "lng_dp_y": 0x57, "abs_y": 0x59, "abs_x": 0x5D, "long_x": 0x5F},
    "adc": {"ind_dp_x": 0x61, "sr": 0x63, "dp": 0x65, "lng_dp": 0x67, "imm": 0x69, "abs": 0x6D, "long": 0x6F, "ind_dp_y": 0x71, "ind_dp": 0x72,
            "ind_sr_y": 0x73, "dp_x": 0x75, "lng_dp_y": 0x77, "abs_y": 0x79, "abs_x": 0x7D, "long_x": 0x7F},
    "sta": {"ind_dp_x": 0x81, "sr": 0x83, "dp": 0x85, "lng_dp": 0x87, "abs": 0x8D, "long": 0x8F, "ind_dp_y": 0x91, "ind_dp": 0x92,
            "ind_sr_y": 0x93, "dp_x": 0x95, "lng_dp_y": 0x97, "abs_y": 0x99, "abs_x": 0x9D, "long_x": 0x9F},
    "lda": {"ind_dp_x": 0xA1, "sr": 0xA3, "dp": 0xA5, "lng_dp": 0xA7, "imm": 0xA9, "abs": 0xAD, "long": 0xAF, "ind_dp_y": 0xB1, "ind_dp": 0xB2,
            "ind_sr_y": 0xB3, "dp_x": 0xB5, "lng_dp_y": 0xB7, "abs_y": 0xB9, "abs_x": 0xBD, "long_x": 0xBF},
    "cmp": {"ind_dp_x": 0xC1, "sr": 0xC3, "dp": 0xC5, "lng_dp": 0xC7, "imm": 0xC9, "abs": 0xCD, "long": 0xCF, "ind_dp_y": 0xD1, "ind_dp": 0xD2,
            "ind_sr_y": 0xD3, "dp_x": 0xD5, "lng_dp_y": 0xD7, "abs_y": 0xD9, "abs_x": 0xDD, "long_x": 0xDF},
    "sbc": {"ind_dp_x": 0xE1, "sr": 0xE3, "dp": 0xE5, "lng_dp": 0xE7, "imm": 0xE9, "abs": 0xED, "long": 0xEF, "ind_dp_y": 0xF1, "ind_dp": 0xF2,
            "ind_sr_y": 0xF3, "dp_x": 0xF5, "lng_dp_y": 0xF7, "abs_y": 0xF9, "abs_x": 0xFD, "long_x": 0xFF},
    "asl": {"imp": 0x0A, "dp": 0x06, "abs": 0x0E, "dp_x": 0x16, "abs_x": 0x1E},
    "rol": {"imp": 0x2A, "dp": 0x26, "abs": 0x2E, "dp_x": 0x36, "abs_x": 0x3E},
    "lsr": {"imp": 0x4A, "dp": 0x46, "abs": 0x4E, "dp_x": 0x56, "abs_x": 0x5E},
    "ror": {"imp": 0x6A, "dp": 0x66, "abs": 0x6E, "dp_x": 0x76, "abs_x": 0x7E},
    "inc": {"imp": 0x1A, "dp": 0xE6, "abs": 0xEE, "dp_x": 0xF6, "abs_x": 0xFE},
    "dec": {"imp": 0x3A, "dp": 0xC6, "abs": 0xCE, "dp_x": 0xD6, "abs_x": 0xDE},
    "bit": {"imm": 0x89, "dp": 0x24, "abs": 0x2C, "dp_x": 0x34, "abs_x": 0x3C},
    "cpx": {"imm": 0xE0, "dp": 0xE4, "abs": 0xEC},
    "cpy": {"imm": 0xC0, "dp": 0xC4, "abs": 0xCC},
    "ldx": {"imm": 0xA2, "dp": 0xA6, "abs": 0xAE, "dp_y": 0xB6, "abs_y": 0xBE},
    "ldy": {"imm": 0xA0, "dp": 0xA4, "abs": 0xAC, "dp_x": 0xB4, "abs_x": 0xBC},
    "stx": {"dp": 0x86, "abs": 0x8E, "dp_y": 0x96},
    "sty": {"dp": 0x84, "abs": 0x8C, "dp_x": 0x94},
    "stz": {"dp": 0x64, "abs": 0x9C, "dp_x": 0x74, "abs_x": 0x9E},
    "trb": {"dp": 0x14, "abs": 0x1C},
    "tsb": {"dp": 0x04, "abs": 0x0C},
    "jmp": {"abs": 0x4C, "long": 0x5C, "ind_abs": 0x6C, "ind_abs_x": 0x7C, "lng_abs": 0xDC},
    "jsr": {"abs": 0x20, "long": 0x22, "ind_abs_x": 0xFC},
    "pea": {"abs": 0xF4},
    "pei": {"ind_dp": 0xD4},
    "rep": {"imm": 0xC2},
    "sep": {"imm": 0xE2},
    "cop": {"imm": 0x02},
    "bcc": {"rel8": 0x90}, "bcs": {"rel8": 0xB0}, "beq": {"rel8": 0xF0}, "bmi": {"rel8": 0x30}, "bne": {"rel8": 0xD0},
    "bpl": {"rel8": 0x10}, "bra": {"rel8": 0x80}, "bvc": {"rel8": 0x50}, "bvs": {"rel8": 0x70},
    "brk": {"imp": 0x00}, "clc": {"imp": 0x18}, "cld": {"imp": 0xD8}, "cli": {"imp": 0x58}, "clv": {"imp": 0xB8},
    "dex": {"imp": 0xCA}, "dey": {"imp": 0x88}, "inx": {"imp": 0xE8}, "iny": {"imp": 0xC8}, "nop": {"imp": 0xEA},
    "pha": {"imp": 0x48}, "phb": {"imp": 0x8B}, "phd": {"imp": 0x0B}, "phk": {"imp": 0x4B}, "php": {"imp": 0x08},
    "phx": {"imp": 0xDA}, "phy": {"imp": 0x5A}, "pla": {"imp": 0x68}, "plb": {"imp": 0xAB}, "pld": {"imp": 0x2B},
    "plp": {"imp": 0x28}, "plx": {"imp": 0xFA}, "ply": {"imp": 0x7A}, "rti": {"imp": 0x40}, "rtl": {"imp": 0x6B},
    "rts": {"imp": 0x60}, "sec": {"imp": 0x38}, "sed": {"imp": 0xF8}, "sei": {"imp": 0x78}, "stp": {"imp": 0xDB},
    "tax": {"imp": 0xAA}, "tay": {"imp": 0xA8}, "tcd": {"imp": 0x5B}, "tcs": {"imp": 0x1B}, "tdc": {"imp": 0x7B},
    "tsc": {"imp": 0x3B}, "tsx": {"imp": 0xBA}, "txa": {"imp": 0x8A}, "txs": {"imp": 0x9A}, "txy": {"imp": 0x9B},
    "tya": {"imp": 0x98}, "tyx": {"imp": 0xBB}, "wai": {"imp": 0xCB}, "wdm": {"imp": 0x42}, "xba": {"imp": 0xEB}, "xce": {"imp": 0xFB},
}

# immediates whose width is fixed at 8 bits by the ISA (no 16-bit form regardless of M/X)
IMM8_ONLY = ("rep", "sep", "cop")

BRANCHES = ("bcc", "bcs", "beq", "bmi", "bne", "bpl", "bra", "bvc", "bvs")


def form_of(mode, index, size):
    """ISA form denoted by the assembler's (addressing-mode name, index register, operand width), None if the
    syntax/width combination denotes no 65c816 addressing form."""
    if mode == "none":
        return "imp" if index is None else None
    if mode == "immediate":
        if index is not None:
            return None
        return "imm" if size in ("b", "w") else None
    if mode == "direct":
        if index is not None:
            return None
        return {"b": "dp", "w": "abs", "l": "long"}[size]
    if mode == "direct_indexed":
        if index == "x":
            return {"b": "dp_x", "w": "abs_x", "l": "long_x"}[size]
        if index == "y":
            return {"b": "dp_y", "w": "abs_y", "l": None}[size]
        if index == "s":
            return "sr" if size == "b" else None
        return None
    if mode == "indirect":
        if index is not None:
            return None
        return {"b": "ind_dp", "w": "ind_abs", "l": None}[size]
    if mode == "indirect_indexed":
        return "ind_dp_y" if index == "y" and size == "b" else None
    if mode == "indirect_long":
        if index is not None:
            return None
        return {"b": "lng_dp", "w": "lng_abs", "l": None}[size]
    if mode == "indirect_indexed_long":
        return "lng_dp_y" if index == "y" and size == "b" else None
    if mode == "dp_or_sr_indirect_indexed":
        if index == "x":
            return {"b": "ind_dp_x", "w": "ind_abs_x", "l": None}[size]
        return None
    if mode == "stack_indexed_indirect_indexed":
        return "ind_sr_y" if index == "y" and size == "b" else None
    return None


def opcode(mnemonic, form, size):
    """Opcode byte of mnemonic in the form, or None when the 65c816 defines no such instruction."""
    if form is None:
        return None
    forms = ISA.get(mnemonic)
    if forms is None:
        return None
    if form == "imm" and size == "w" and mnemonic in IMM8_ONLY:
        return None
    return forms.get(form)


def selfcheck():
    """The flat table against the group rule and basic sanity: distinct opcodes, 8-bit range."""
    for m, base in GROUP1_BASE.items():
        for form, off in GROUP1_OFFSET.items():
            if m == "sta" and form == "imm":
                assert "imm" not in ISA["sta"]
                continue
            assert ISA[m][form] == base + off, (m, form)
        assert set(ISA[m]) == set(GROUP1_OFFSET) - ({"imm"} if m == "sta" else set()), m
    seen = {}
    for m, forms in ISA.items():
        for f, op in forms.items():
            assert f in FORMS and 0 <= op <= 0xFF, (m, f)
            assert op not in seen, (m, f, seen.get(op))
            seen[op] = (m, f)
    return len(seen)
