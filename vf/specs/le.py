"""Little-endian two's-complement truncation (oracle for C01/C07/C20/C11), from the property statements."""


def byte_of(v, i):
    """i-th byte (little-endian) of the infinite two's-complement representation of v."""
    return (v // (256 ** i)) % 256


def is_le(r, v, k):
    """r is exactly the k-byte little-endian truncation of v"""
    if len(r) != k:
        return False
    ok = True
    for i in range(k):
        ok = ok and r[i] == byte_of(v, i)
    return ok


def is_be(r, v, k):
    if len(r) != k:
        return False
    ok = True
    for i in range(k):
        ok = ok and r[k - 1 - i] == byte_of(v, i)
    return ok


def be_bytes(v, k):
    """k-byte big-endian encoding of v mod 256**k"""
    return bytes([byte_of(v, k - 1 - i) for i in range(k)])


def le_bytes(v, k):
    return bytes([byte_of(v, i) for i in range(k)])
