"""Independent oracle for the SNES bus laws, written from the property statement (C04/C20), not from the code.

A ROM range covers banks first..last; every bank exposes a window of `bank_size` bytes (32 KiB windows start at
0x8000 inside the bank, 64 KiB windows at 0x0000).  File offset of a ROM address inside the window:
    (bank - first bank of its range) * bank size + position inside the bank window
"""


def window_start(bank_size):
    return 0x10000 - bank_size


def bank_of(addr):
    return addr // 0x10000


def low16(addr):
    return addr % 0x10000


def in_window(bank_size, addr):
    return low16(addr) >= window_start(bank_size)


def rom_offset(first_bank, bank_size, addr):
    return (bank_of(addr) - first_bank) * bank_size + (low16(addr) - window_start(bank_size))


def rom_address(first_bank, bank_size, offset):
    """Inverse of rom_offset: the in-window address of the range starting at first_bank whose offset is `offset`."""
    return (first_bank + offset // bank_size) * 0x10000 + window_start(bank_size) + offset % bank_size


def lorom_offset(addr):
    """Textbook LoROM: banks 0x00.. (mirror 0x80..), 32 KiB windows at 0x8000."""
    return (bank_of(addr) % 0x80) * 0x8000 + (low16(addr) - 0x8000)


def hirom_offset(addr):
    """Textbook HiROM: banks 0xC0-0xFF (mirror 0x40-0x7D), 64 KiB banks."""
    return (bank_of(addr) % 0x40) * 0x10000 + low16(addr)
