"""Assumed contracts on dependencies, used in place of the dependency when another function is verified
(each use is listed in the evidence as 'assumed contract on dependency').

eval_expression_model: eval_expression is a function of (expression, environment): within one environment repeated
evaluations return the same integer, or raise SymbolNotDefined when the expression mentions an undefined name.
The expression object carries the outcome as ghost fields.  (C06 is where eval_expression itself is verified.)
"""
from a816.exceptions import SymbolNotDefined


def eval_expression_model(expression, resolver):
    if not expression.ghost_defined:
        raise SymbolNotDefined("ghost_symbol")
    return expression.ghost_value


# ------------------------------------------------------------------------------------------------ drivers (C14, C12)
import struct

from a816.parse.nodes import NodeError
from vf.contracts.rt import fresh_int, ghost, ghost_get, make_file


def assemble_string_model(self, input_program, filename, emitter):
    """Assumed contract of Program.assemble_string_with_emitter towards its callers: it either returns None (every
    statement assembled and written), returns an error message (scan / parse error), or raises (NodeError, RuntimeError,
    or any other exception of the pipeline).  Which one is chosen by the ghost value 'callee_outcome'."""
    ghost("callee_args", (input_program, filename, emitter))
    o = ghost_get("callee_outcome")
    if o == 0:
        return None
    if o == 1:
        return "t.s:0:0 : Invalid Input"
    if o == 2:
        raise NodeError("undefined is not defined in the current scope.", None)
    if o == 3:
        raise RuntimeError("no physical address")
    if o == 4:
        raise KeyError("x")
    if o == 5:
        raise struct.error("out of range")
    raise ValueError("other")


def assemble_with_emitter_model(self, asm_file, emitter):
    """Assumed contract of Program.assemble_with_emitter towards assemble / assemble_as_patch: returns a status (ghost
    'status') or raises OSError when the source file is missing."""
    ghost("emitter_seen", emitter)
    ghost("asm_file_seen", asm_file)
    o = ghost_get("callee_outcome")
    if o == 7:
        raise FileNotFoundError(asm_file)
    return ghost_get("status")


def open_model(path, mode="r", encoding=None):
    """open(): files of the ghost file system 'fs' (dict path -> content); a missing file raises FileNotFoundError;
    opening for writing registers the new file object under 'opened'."""
    fs = ghost_get("fs")
    ghost("open_mode:" + str(path), mode)
    if "w" in mode:
        f = make_file(b"", mode)
        ghost("opened:" + str(path), f)
        return f
    if path not in fs:
        raise FileNotFoundError(path)
    return make_file(fs[path], mode)


def parser_parse_model(self, program, filename=""):
    t = ghost_get("trace")
    t.append("parse")
    return ghost_get("parse_error"), ["nodes"]


def resolve_labels_model(self, program_nodes):
    t = ghost_get("trace")
    t.append("resolve")
    if ghost_get("resolve_outcome") != 0:
        raise RuntimeError("resolve failed")


def emit_model(self, program, writer):
    t = ghost_get("trace")
    t.append("emit")
    if ghost_get("emit_outcome") != 0:
        raise RuntimeError("emit failed")


def assemble_as_patch_model(self, asm_file, ips_file, mapping=None, copier_header=False):
    """Callee contract for cli_main: records what it was called with and the resolver state at that moment."""
    ghost("entry", "patch")
    ghost("call", (asm_file, ips_file, mapping, copier_header))
    ghost("root_symbols_at_call", dict(self.resolver.scopes[0].symbols))
    ghost("rom_type_at_call", self.resolver.rom_type)
    return ghost_get("status")


def assemble_model(self, asm_file, sfc_file, mapping=None):
    ghost("entry", "sfc")
    ghost("call", (asm_file, sfc_file, mapping, None))
    ghost("root_symbols_at_call", dict(self.resolver.scopes[0].symbols))
    ghost("rom_type_at_call", self.resolver.rom_type)
    return ghost_get("status")


def pairs_of_hex_model(value):
    """Assumed contract of Table.transform_byte_matches_to_int (it uses the zip(*[iter(s)] * 2) idiom, outside the interpreter's
    subset): the list of the integers written by each consecutive pair of hex digits; an odd number of digits is an error.
    Cross-checked against the real function by the bounded stand-in."""
    if len(value) % 2 != 0:
        raise ValueError("zip() argument 2 is shorter than argument 1")
    out = []
    i = 0
    while i < len(value):
        out.append(int(value[i:i + 2], 16))
        i = i + 2
    return out


def file_reading_constructor_model(self, a=None, b=None, c=None):
    """BinaryNode / IncludeIpsNode / Table constructors in the expansion contracts: they read a file and fill in the new object;
    nothing else is touched (their contents are the subject of C07 / C13 / C18).  May fail (missing file, malformed patch)."""
    if fresh_int("file_ok") == 0:
        raise OSError("file cannot be read")
    return None


def bus_map_frame_model(self, identifier, bank_range, addr_range, mask, writeable=False, mirror_bank_range=None):
    """Bus.map in the expansion contracts: changes the bus only (C04 proves what it changes it to)."""
    if fresh_int("map_ok") == 0:
        raise RuntimeError("bus is not editable")
    return None


def scanner_scan_model(self, filename, program):
    """assumed outcome of the scanner for parse_as_ast_reports_contract: some token list (irrelevant: the parser's outcome is assumed too)"""
    return []


def parser_parse_raises_model(self):
    """assumed outcome of Parser.parse for parse_as_ast_reports_contract: a syntax error carrying the ghost token (a token with a position,
    as parser_error_location_contract establishes for every parser function)"""
    from a816.parse.errors import ParserSyntaxError
    raise ParserSyntaxError("syntax error", ghost_get("error_token"))


def table_init_model(self, path=None):
    """script.Table(path) for table_node_contract: a table object is built (its content from the file is the subject of the to_bytes / parse_table_line
    contracts); no other object is touched."""
    self.lookup = {}
    self.inverted_lookup = {}
    self.max_bytes_length = 0
    self.max_text_length = 0
