"""Assumed contracts on dependencies, used in place of the dependency when another function is verified
(each use is listed in the evidence as 'assumed contract on dependency').

eval_expression_model: eval_expression is a function of (expression, environment): within one environment repeated
evaluations return the same integer, or raise SymbolNotDefined when the expression mentions an undefined name.
The expression object carries the outcome as ghost fields.  (C06 is where eval_expression itself is verified.)
"""
from a816.exceptions import SymbolNotDefined


def eval_expression_model(expression, resolver):
    if not expression.ghost_defined:
        raise SymbolNotDefined("ghost_symbol")
    return expression.ghost_value
