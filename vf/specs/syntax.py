"""Operand syntax -> 65c816 addressing form, per operand width, as the property statement (C01) lists the shapes.
Independent of the assembler's own addressing-mode names: the contract compares isa65816.form_of(mode the parser chose, index,
width) with this table, so a shape parsed as the wrong mode -- or a malformed shape parsed as any mode that denotes an
instruction -- fails an obligation.  None: the syntax denotes no 65c816 addressing form at that width (must be rejected)."""

NOTHING = {"b": None, "w": None, "l": None}

SHAPES = {
    # shape: (forms per width, token pattern after the mnemonic [and size]); e = operand expression, f = a second term
    "implied": {"b": "imp", "w": "imp", "l": "imp"},
    "#e": {"b": "imm", "w": "imm", "l": None},
    "e": {"b": "dp", "w": "abs", "l": "long"},
    "e,x": {"b": "dp_x", "w": "abs_x", "l": "long_x"},
    "e,y": {"b": "dp_y", "w": "abs_y", "l": None},
    "e,s": {"b": "sr", "w": None, "l": None},
    "(e)": {"b": "ind_dp", "w": "ind_abs", "l": None},
    "(e),y": {"b": "ind_dp_y", "w": None, "l": None},
    "(e),x": NOTHING,
    "(e),s": NOTHING,
    "[e]": {"b": "lng_dp", "w": "lng_abs", "l": None},
    "[e],y": {"b": "lng_dp_y", "w": None, "l": None},
    "[e],x": NOTHING,
    "(e,x)": {"b": "ind_dp_x", "w": "ind_abs_x", "l": None},
    "(e,s),y": {"b": "ind_sr_y", "w": None, "l": None},
    "(e,y)": NOTHING,
    "(e,s)": NOTHING,
    "(e,x),y": NOTHING,
    "(e,y),y": NOTHING,
    "(e,x),x": NOTHING,
    "(e,s),x": NOTHING,
    "#e,x": NOTHING,
    "#e,y": NOTHING,
    # a parenthesised sub-expression followed by an operator is an expression, not an indirection
    "(e)+f": {"b": "dp", "w": "abs", "l": "long"},
    "(e)+f,x": {"b": "dp_x", "w": "abs_x", "l": "long_x"},
    "e+f": {"b": "dp", "w": "abs", "l": "long"},
    "(e+f),y": {"b": "ind_dp_y", "w": None, "l": None},
    "[e+f]": {"b": "lng_dp", "w": "lng_abs", "l": None},
    "#-e": {"b": "imm", "w": "imm", "l": None},
    # no operand at all after a mnemonic the scanner did not classify as operand-less (`lda` alone; `inx.b`: a width suffix sizes an operand, an
    # implied instruction has none), followed by the end of the input, a closing brace or the next statement
    "<nothing>": NOTHING,
    "<nothing> }": NOTHING,
    "<nothing> nop": NOTHING,
}


def form(shape, width):
    return SHAPES[shape][width]


def denotes_nothing(shape):
    f = SHAPES[shape]
    return f["b"] is None and f["w"] is None and f["l"] is None
