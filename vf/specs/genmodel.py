"""Contract shared by every code generator of a816/parse/codegen.py and by _code_gen (used modularly at call sites).

    requires  resolver.last_used_scope == len(resolver.scopes) - 1        (the scope list and the 'next scope' cursor agree)
    requires  (_code_gen only) the statement list expanded is a sub-tree of the caller's own AST node -- or the caller is one of the
              two generators whose recursion is explicit in the source (macro application, code-block lookup)
    ensures   on return: resolver.current_scope is the scope current at entry (every scope opened has been left again),
              the cursor agrees with the list again, scopes were only appended; the result is a list of nodes
    raises    anything (the assembly is aborted; the resolver is not used afterwards)
Established for each generator and for _code_gen by vf/contracts/c_expansion.py; because every generator satisfies the SAME
contract, _code_gen's dispatch loop can use it for the arbitrary element, and the generators can use it for the recursive call.
"""
from a816.exceptions import SymbolNotDefined
from a816.parse.nodes import NodeError
from vf.contracts.rt import fresh_int, fresh_list, ghost, ghost_get, grow_list, require


def is_one_of(x, candidates):
    for c in candidates:
        if x is c:
            return True
    return False


def _effects(resolver, file_info):
    added = grow_list(resolver.scopes, "scope_opened_by_the_callee")
    ghost("callee_scopes", ghost_get("callee_scopes") + added)
    resolver.last_used_scope = len(resolver.scopes) - 1
    outcome = fresh_int("outcome")
    if outcome <= 0:
        # the callee fails: with any of the exception classes an expansion can fail with (a caller that catches one of them around the
        # expansion would swallow an error of the statements it expands -- checked by the harnesses through the ghost flag)
        ghost("callee_raised", True)
        if outcome == 0:
            raise NodeError("the callee fails", file_info)
        if outcome == -1:
            raise KeyError("undefined macro inside the callee")
        if outcome == -2:
            raise SymbolNotDefined("undefined symbol inside the callee")
        if outcome == -3:
            # the interpreter's own limit on nested expansions (a macro applying itself without end): it ENDS the assembly, nobody continues after it
            raise RecursionError("maximum recursion depth exceeded inside the callee")
        raise RuntimeError("the callee fails")
    return fresh_list("code", 0)


def generator_model(node, resolver, macro_definitions, file_info):
    require("resolver_scopes_consistent", resolver.last_used_scope == len(resolver.scopes) - 1)
    return _effects(resolver, file_info)


def code_gen_model(ast_nodes, resolver, macro_definitions):
    require("resolver_scopes_consistent", resolver.last_used_scope == len(resolver.scopes) - 1)
    require("expands_only_sub_trees_of_its_own_node", ghost_get("explicit_recursion") or is_one_of(ast_nodes, ghost_get("sub_trees")))
    # ghost record of the expansion (read by per-iteration / selection contracts of the callers)
    ghost("last_expansion_tree", ast_nodes)
    ghost("last_expansion_scope", resolver.current_scope)
    ghost("last_expansion_bindings", dict(resolver.current_scope.symbols))  # the names bound WHILE the sub-tree is expanded
    ghost("n_expansions", ghost_get("n_expansions") + 1)
    return _effects(resolver, None)


# the two nodes that replay scopes BY POSITION in the later passes: their constructors are counted (ghost) so that the harnesses can state
# "every scope a generator opens itself is announced by exactly one ScopeNode and closed by exactly one PopScopeNode"
def scope_node_init_model(self, resolver):
    self.resolver = resolver
    self.parent_scope = resolver.current_scope
    ghost("scope_nodes", ghost_get("scope_nodes") + 1)


def pop_scope_node_init_model(self, resolver):
    self.resolver = resolver
    ghost("pop_nodes", ghost_get("pop_nodes") + 1)
