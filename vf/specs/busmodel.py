"""Functional contracts (spec functions) of the address classes, used in place of the callee at call sites
once the callee has been proved to refine them (modular verification).  Written from the C04 statement."""
from a816.cpu.mapping import Address
from vf.contracts.rt import require
from vf.specs import busmath


def address_add_spec(self, other):
    """Address.__add__: advance by `other` bytes.  ROM: the address of the same range whose file offset is `other`
    larger (wrapping to the next bank's window start); RAM: plain addition.  The result is looked up on the same bus
    (KeyError when its bank is unmapped)."""
    if not isinstance(other, int):
        raise ValueError("Address can only be added with ints.")
    m = self.mapping
    v = self.logical_value
    require("mapping_wf", (m.mask == 0x8000 or m.mask == 0x10000) and v >= 0 and v < 0x1000000)
    require("address_wf", self.bus.get_mapping_for_bank(busmath.bank_of(v)) is m)
    if m.writable is False:
        require("forward", other >= 0)
        # below the bank window the code folds the address into the window (pinned 'from code' in C04)
        v_eff = v if busmath.in_window(m.mask, v) else v + busmath.window_start(m.mask)
        target = busmath.rom_address(m.bank_range[0], m.mask, busmath.rom_offset(m.bank_range[0], m.mask, v_eff) + other)
    else:
        target = v + other
    return Address(self.bus, target)
