"""Independent IPS reader / patcher, written from the format definition (not from the assembler):
   "PATCH", then records, then "EOF".  Record: 3-byte big-endian offset, 2-byte big-endian size, `size` data bytes;
   size 0 = run-length record: 2-byte big-endian run length, 1 value byte.  A reader stops at the first "EOF" found
   where a record offset is expected."""


class IpsFormatError(Exception):
    pass


def parse(data):
    """-> list of (offset, bytes) in file order (run-length records expanded).  Raises IpsFormatError when not well formed."""
    if data[:5] != b"PATCH":
        raise IpsFormatError("missing PATCH header")
    pos = 5
    records = []
    while True:
        if len(data) - pos < 3:
            raise IpsFormatError("truncated: no EOF marker")
        head = data[pos:pos + 3]
        if head == b"EOF":
            pos += 3
            break
        off = (head[0] << 16) | (head[1] << 8) | head[2]
        pos += 3
        if len(data) - pos < 2:
            raise IpsFormatError("truncated record size")
        size = (data[pos] << 8) | data[pos + 1]
        pos += 2
        if size == 0:
            if len(data) - pos < 3:
                raise IpsFormatError("truncated run-length record")
            run = (data[pos] << 8) | data[pos + 1]
            val = data[pos + 2]
            pos += 3
            records.append((off, bytes([val]) * run))
        else:
            if len(data) - pos < size:
                raise IpsFormatError("truncated record data")
            records.append((off, bytes(data[pos:pos + size])))
            pos += size
    return records, pos


def apply(records, image=None):
    """Apply records in order to a sparse image (dict offset -> byte)."""
    img = dict(image or {})
    for off, payload in records:
        for i, b in enumerate(payload):
            img[off + i] = b
    return img


def serialise(records):
    """Inverse used to build test patches: plain records only unless an entry is ('rle', offset, run, value)."""
    out = bytearray(b"PATCH")
    for r in records:
        if r[0] == "rle":
            _, off, run, val = r
            out += bytes([(off >> 16) & 0xFF, (off >> 8) & 0xFF, off & 0xFF, 0, 0, (run >> 8) & 0xFF, run & 0xFF, val])
        else:
            off, payload = r
            out += bytes([(off >> 16) & 0xFF, (off >> 8) & 0xFF, off & 0xFF, (len(payload) >> 8) & 0xFF, len(payload) & 0xFF]) + bytes(payload)
    out += b"EOF"
    return bytes(out)
