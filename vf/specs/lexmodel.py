"""Contracts of the scanner's state function and sub-lexers used modularly (the caller is verified against these, each
function's body is verified to satisfy its own): the function stays inside the input, never moves the position backwards
past where it was called, and either returns or raises ScannerException.  Token/line bookkeeping is left arbitrary here."""
from a816.parse.errors import ScannerException
from vf.contracts.rt import assume, fresh_int, require

IDENT_START = "_ABCEDFGHIJKLMNOPQRSTUVWXYZabcedfghijklmnopqrstuvwxyz"


def _havoc_bookkeeping(s):
    s.start = fresh_int("start_after")
    assume(0 <= s.start and s.start <= len(s.input))
    s.line_offset = fresh_int("line_offset_after")
    s.current_line = fresh_int("current_line_after")


def state_function_model(s):
    """lex_initial towards Scanner.scan: strict progress or an error (lex_initial_progress_contract)."""
    p = fresh_int("pos_after")
    assume(p > s.pos and p <= len(s.input))
    k = fresh_int("raises")
    if k == 1:
        raise ScannerException("error", s.get_position())
    s.pos = p
    _havoc_bookkeeping(s)


def sublexer_model(s):
    """Any sub-lexer: monotone progress inside the input, or an error (sublexer_contract)."""
    require("scanner_well_formed", 0 <= s.pos and s.pos <= len(s.input) and 0 <= s.start)
    p = fresh_int("pos_after")
    assume(p >= s.pos and p <= len(s.input))
    k = fresh_int("raises")
    if k == 1:
        raise ScannerException("error", s.get_position())
    s.pos = p
    _havoc_bookkeeping(s)


def lex_number_model(s):
    """lex_number is entered right after its first digit was accepted (it steps back over it): needs pos >= 1."""
    require("first_digit_consumed", 1 <= s.pos and s.pos <= len(s.input) and 0 <= s.start and s.input[s.pos - 1] in "0123456789")
    p = fresh_int("pos_after")
    assume(p >= s.pos and p <= len(s.input))
    s.pos = p
    _havoc_bookkeeping(s)


def lex_identifier_model(s):
    """lex_identifier: consumes the identifier characters at the position: strict progress when the first one is an identifier character."""
    require("scanner_well_formed", 0 <= s.pos and s.pos <= len(s.input) and 0 <= s.start)
    p = fresh_int("pos_after")
    assume(p >= s.pos and p <= len(s.input))
    if s.pos < len(s.input) and s.input[s.pos] in IDENT_START:
        assume(p > s.pos)
    s.pos = p
    _havoc_bookkeeping(s)


# ------------------------------------------------------------------------------------------------ positions (C17)
from a816.parse.tokens import Position, Token, TokenType


def get_position_checked(self):
    """Scanner.get_position with the C17 side condition made explicit: the position is taken while the token start is still on
    the line being scanned (no line end consumed since), so line = current_line and column = start - line_offset >= 0."""
    require("position_taken_on_the_tokens_line", self.line_offset <= self.start)
    return Position(self.current_line, self.start - self.line_offset, self.file)


def get_token_checked(self, token_type):
    """Scanner.get_token: same side condition for every token kind that can head a statement or carry an error location
    (COMMENT tokens are dropped by the parser and deliberately excluded: both comment forms consume the line end first)."""
    if token_type != TokenType.COMMENT:
        require("token_position_on_its_line", self.line_offset <= self.start)
    return Token(token_type, self.input[self.start:self.pos], Position(self.current_line, self.start - self.line_offset, self.file))


def _havoc_lines(s):
    """What every sub-lexer guarantees about the line bookkeeping: it consumes no line end (line_offset / current_line are
    unchanged) and leaves the token start between its old value and the position."""
    st = fresh_int("start_after")
    assume(s.start <= st and st <= s.pos)
    s.start = st


def sublexer_model_lines(s):
    require("scanner_well_formed", 0 <= s.line_offset and s.line_offset <= s.start and s.start <= s.pos and s.pos <= len(s.input))
    p = fresh_int("pos_after")
    assume(p >= s.pos and p <= len(s.input))
    k = fresh_int("raises")
    if k == 1:
        raise ScannerException("error", Position(0, 0, s.file))
    s.pos = p
    _havoc_lines(s)


def lex_number_model_lines(s):
    require("first_digit_consumed", 0 <= s.line_offset and s.line_offset <= s.start and s.start < s.pos and s.pos <= len(s.input)
            and s.input[s.pos - 1] in "0123456789")
    p = fresh_int("pos_after")
    assume(p >= s.pos and p <= len(s.input))
    s.pos = p
    _havoc_lines(s)


def lex_identifier_model_lines(s):
    require("scanner_well_formed", 0 <= s.line_offset and s.line_offset <= s.start and s.start <= s.pos and s.pos <= len(s.input))
    p = fresh_int("pos_after")
    assume(p >= s.pos and p <= len(s.input))
    s.pos = p
    _havoc_lines(s)
