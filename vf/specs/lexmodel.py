"""Contracts of the scanner's state function and sub-lexers used modularly (the caller is verified against these, each
function's body is verified to satisfy its own): the function stays inside the input, never moves the position backwards
past where it was called, and either returns or raises ScannerException.  Token/line bookkeeping is left arbitrary here."""
from a816.parse.errors import ScannerException
from vf.contracts.rt import assume, fresh_int, require

IDENT_START = "_ABCEDFGHIJKLMNOPQRSTUVWXYZabcedfghijklmnopqrstuvwxyz"


def _havoc_bookkeeping(s):
    s.start = fresh_int("start_after")
    assume(0 <= s.start and s.start <= len(s.input))
    s.line_offset = fresh_int("line_offset_after")
    s.current_line = fresh_int("current_line_after")


def state_function_model(s):
    """lex_initial towards Scanner.scan: strict progress or an error (lex_initial_progress_contract)."""
    p = fresh_int("pos_after")
    assume(p > s.pos and p <= len(s.input))
    k = fresh_int("raises")
    if k == 1:
        raise ScannerException("error", s.get_position())
    s.pos = p
    _havoc_bookkeeping(s)


def sublexer_model(s):
    """Any sub-lexer: monotone progress inside the input, or an error (sublexer_contract)."""
    require("scanner_well_formed", 0 <= s.pos and s.pos <= len(s.input) and 0 <= s.start)
    p = fresh_int("pos_after")
    assume(p >= s.pos and p <= len(s.input))
    k = fresh_int("raises")
    if k == 1:
        raise ScannerException("error", s.get_position())
    s.pos = p
    _havoc_bookkeeping(s)


def lex_number_model(s):
    """lex_number is entered right after its first digit was accepted (it steps back over it): needs pos >= 1."""
    require("first_digit_consumed", 1 <= s.pos and s.pos <= len(s.input) and 0 <= s.start)
    p = fresh_int("pos_after")
    assume(p >= s.pos and p <= len(s.input))
    s.pos = p
    _havoc_bookkeeping(s)


def lex_identifier_model(s):
    """lex_identifier: consumes the identifier characters at the position: strict progress when the first one is an identifier character."""
    require("scanner_well_formed", 0 <= s.pos and s.pos <= len(s.input) and 0 <= s.start)
    p = fresh_int("pos_after")
    assume(p >= s.pos and p <= len(s.input))
    if s.pos < len(s.input) and s.input[s.pos] in IDENT_START:
        assume(p > s.pos)
    s.pos = p
    _havoc_bookkeeping(s)
