"""Contracts of the parser state functions (a816/parse/parser_states.py), used modularly at their call sites.

Every parser function F is verified (vf/contracts/c_parser.py) against
    requires  p.pos >= 0
    requires  the termination measure decreases from the caller's entry to this call:
                  (tokens left at this call, rank(F))  <lex  (tokens left at the caller's entry, rank(caller))
    ensures   on normal return  p.pos >= old(p.pos) + delta(F)          (progress)
    ensures   on normal return  old(p.pos) < len(p.tokens)              (F rejects the end of input; not parse_initial)
    raises    ParserSyntaxError only (p.pos is then anywhere at or after its entry value)
and here the same clauses are the *model* of F for its callers: `require` is a call-site obligation, the rest is assumed.
The measure is well founded (naturals x finite ranks), so the obligations at all call sites and the loop variants together
are the termination proof of the parser for every token list.
"""
from a816.parse.errors import ParserSyntaxError
from vf.contracts.rt import assume, fresh_inst, fresh_int, fresh_list, ghost_get, require


def remaining(p):
    """tokens left: the termination measure (0 at and beyond the end, where Parser.current() synthesises EOF)"""
    n = len(p.tokens)
    if p.pos < n:
        return n - p.pos
    return 0


def _enter(p, rank, delta, eof_raises, first_token_not_end=False):
    require("parser_position_non_negative", p.pos >= 0)
    r = remaining(p)
    require("termination_measure_decreases", r < ghost_get("measure_rem") or (r == ghost_get("measure_rem") and rank < ghost_get("measure_rank")))
    pos0 = p.pos
    located = ghost_get("located_errors")
    if located:
        # second contract of every parser function (c_parser.parser_error_location_contract), on scanner-shaped token lists:
        #   requires  called before the end marker is consumed
        #   ensures   on normal return the end marker is still not consumed
        #   raises    ParserSyntaxError carrying a token OF THE LIST (all of which have a position), never the position-less
        #             end marker Parser.current() makes up beyond the end
        require("called_before_the_end_marker_is_consumed", p.pos < len(p.tokens))
        if first_token_not_end:
            # functions entered on a token their caller has already classified (a keyword, an opcode, an identifier ...): never the end marker
            require("called_on_a_token_that_is_not_the_end_marker", p.pos < len(p.tokens) - 1)
    adv = fresh_int("advance")
    assume(adv >= 0)
    p.pos = pos0 + adv
    if fresh_int("outcome") == 0:
        if located:
            k = fresh_int("error_token_index")
            assume(0 <= k and k < len(p.tokens))
            raise ParserSyntaxError("rejected by the callee", p.tokens[k])
        raise ParserSyntaxError("rejected by the callee", p.current())
    assume(adv >= delta)
    if eof_raises:
        assume(pos0 < len(p.tokens))
    if located:
        assume(p.pos < len(p.tokens))


def _node():
    return fresh_inst("a816.parse.ast.nodes.AstNode", ("kind", "file_info"))


# rank: a callee invoked at the SAME position as its caller's entry must have a smaller rank
def _parse_expression_model(p):
    _enter(p, 0, 1, True)
    return fresh_list("expr_nodes", 1, "a816.parse.ast.nodes.ExprNode", ("token",))


def parse_expression_model(p):
    _enter(p, 1, 1, True)
    return _node()


def parse_expression_list_inner_model(p):
    _enter(p, 2, 0, False)
    return fresh_list("expressions", 0)


def parse_expression_list_model(p):
    _enter(p, 3, 2, True)
    return fresh_list("expressions", 0)


def parse_opcode_model(p):
    _enter(p, 3, 1, False, True)
    return _node()


def parse_macro_application_model(p):
    _enter(p, 4, 3, True)
    return _node()


def parse_symbol_affectation_model(p):
    _enter(p, 2, 3, True, True)
    return _node()


def parse_code_position_keyword_model(p):
    _enter(p, 2, 1, True)
    return _node()


def parse_code_relocation_keyword_model(p):
    _enter(p, 2, 1, True)
    return _node()


def parse_include_ips_model(p):
    _enter(p, 2, 3, True)
    return _node()


def parse_if_model(p):
    _enter(p, 2, 3, True)
    return _node()


def parse_for_model(p):
    _enter(p, 2, 7, True)
    return _node()


def parse_scope_model(p):
    _enter(p, 2, 3, True)
    return _node()


def parse_macro_model(p):
    _enter(p, 2, 5, True)
    return _node()


def parse_keyword_model(p):
    _enter(p, 5, 1, True, True)
    return _node()


def parse_decl_model(p):
    _enter(p, 6, 1, True)
    if fresh_int("is_comment") == 0:
        return None
    return _node()


def parse_block_model(p):
    _enter(p, 7, 1, True)
    return fresh_list("statements", 0)


def parse_initial_model(p):
    _enter(p, 8, 0, False)
    return fresh_list("statements", 0)
