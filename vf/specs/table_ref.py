"""Reference semantics of table-encoded text (oracle for C18), written from the statement: at each position an escape
'[0xNN]' emits the raw byte NN; otherwise the LONGEST table entry matching at that position emits its code; a character
without a table entry is skipped."""

HEX = "0123456789abcdefABCDEF"


def hexval(c):
    if c in "0123456789":
        return ord(c) - 48
    if c in "abcdef":
        return ord(c) - 87
    return ord(c) - 55


def escape_at(text, p):
    """(length, byte) of an escape starting at p, or None"""
    n = len(text)
    if p + 5 > n or text[p] != "[" or text[p + 1] != "0" or text[p + 2] != "x":
        return None
    k = 0
    v = 0
    while p + 3 + k < n and text[p + 3 + k] in HEX:
        v = v * 16 + hexval(text[p + 3 + k])
        k = k + 1
    if k == 0 or p + 3 + k >= n or text[p + 3 + k] != "]":
        return None
    return (4 + k, v)


def encode(entries, text):
    """entries: dict text -> bytes.  -> list of emitted byte values"""
    out = []
    p = 0
    n = len(text)
    longest = 0
    for k in entries:
        if len(k) > longest:
            longest = len(k)
    while p < n:
        esc = escape_at(text, p)
        if esc is not None:
            out.append(esc[1])
            p = p + esc[0]
            continue
        m = longest if longest < n - p else n - p
        found = False
        while m > 0 and not found:
            cand = text[p:p + m]
            if cand in entries:
                for b in entries[cand]:
                    out.append(b)
                p = p + m
                found = True
            else:
                m = m - 1
        if not found:
            p = p + 1
    return out
