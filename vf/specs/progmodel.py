"""Protocol models for Program.emit / Program.resolve_labels (C03, C02): what the program loops may assume of a node
(each real node class is separately proved to respect the frame, see node_frame_contract), and a recording writer."""
from a816.parse.nodes import NodeProtocol
from vf.contracts.rt import assume
from vf.specs import busmodel


class GenericNode(NodeProtocol):
    """Any node that respects the node protocol's frame E: it emits some bytes (possibly none) and does not touch the
    resolver's position state (pc, reloc_address, bus, rom_type).  Its predicted size is the size of what it emits (clause S)."""

    def __init__(self, data):
        self.data = data

    def emit(self, current_addr):
        # the quantifier of C03/C04: code that stays inside the mapped range it is assembled in (running off the end of a
        # range into an unmapped bank is rejected by Address.__add__; running into a DIFFERENT range is outside the statement)
        n = len(self.data)
        if n > 0:
            nxt = busmodel.address_add_spec(current_addr, n)
            assume(nxt.mapping is current_addr.mapping)
        return self.data

    def pc_after(self, current_pc):
        return current_pc + len(self.data)


class RecordingWriter:
    def __init__(self):
        self.log = []

    def begin(self):
        pass

    def write_block_header(self, block, block_address):
        pass

    def write_block(self, block, block_address):
        self.log.append((block_address, block))

    def end(self):
        pass


class TwoPhaseNode(NodeProtocol):
    """Protocol model of a node whose size depends on the environment of the pass (an instruction whose operand width is
    inferred from a symbol's value): `size1` bytes are predicted while labels are resolved, `data` is emitted later.
    Realised by the real OpcodeNode without a size suffix when the symbol's value differs between the passes, e.g.
        x := 0x10 / { lda x / x: }      (pass 1 sees the outer x = 0x10 -> 2 bytes, emission sees the label -> 3 bytes)."""

    def __init__(self, size1, data):
        self.size1 = size1
        self.data = data

    def pc_after(self, current_pc):
        return current_pc + self.size1

    def emit(self, current_addr):
        return self.data


class MarkerNode(NodeProtocol):
    """Emits one byte and remembers the run address it was emitted for (ghost)."""

    def __init__(self):
        self.seen = None

    def pc_after(self, current_pc):
        return current_pc + 1

    def emit(self, current_addr):
        self.seen = current_addr.logical_value
        return b"\xea"


class AbstractScope:
    """Any chain of enclosing scopes, summarised by its answer for the probed name (used as `parent` in the inductive step of
    Scope.value_for: a scope answers from its own tables, else exactly what its parent answers)."""

    def __init__(self, defined, value):
        self.defined = defined
        self.value = value
        self.symbols = {}
        self.code_symbols = {}
        self.table = None
        self.parent = None

    def value_for(self, symbol):
        from a816.exceptions import SymbolNotDefined
        if not self.defined:
            raise SymbolNotDefined(symbol)
        return self.value

    def get_table(self):
        return self.table
