"""Reference semantics of expressions (oracle for C06), written from the statement:
unary - and ~ bind tightest, then *, then + -, then << >>, then &, then |, left to right within a level, parentheses
override; unbounded integers; ~v is the complement of v within the smallest of 8, 16 or 32 bits that holds v.

Expression trees are nested tuples:  ("id", name) | ("num", text) | ("un", op, t) | ("bin", op, l, r) | ("par", t)
"""

LEVEL = {"*": 1, "+": 2, "-": 2, "<<": 3, ">>": 3, "&": 4, "|": 5}  # smaller binds tighter; unary = 0


def complement(v):
    m = v if v >= 0 else -v
    if m < 256:
        k = 256
    elif m < 65536:
        k = 65536
    elif m < 4294967296:
        k = 4294967296
    else:
        raise RuntimeError("not only works up 32 bits integers.")
    return (-v - 1) % k


def literal(text):
    if text.startswith("0x") or text.startswith("0X"):
        return int(text[2:], 16)
    if text.startswith("0b"):
        return int(text[2:], 2)
    return int(text, 10)


def eval_tree(t, env):
    kind = t[0]
    if kind == "id":
        return env[t[1]]
    if kind == "num":
        return literal(t[1])
    if kind == "par":
        return eval_tree(t[1], env)
    if kind == "un":
        v = eval_tree(t[2], env)
        if t[1] == "-":
            return -v
        return complement(v)
    a = eval_tree(t[2], env)
    b = eval_tree(t[3], env)
    op = t[1]
    if op == "+":
        return a + b
    if op == "-":
        return a - b
    if op == "*":
        return a * b
    if op == "&":
        return a & b
    if op == "|":
        return a | b
    if op == "<<":
        return a << b
    return a >> b


def tokens_of(t):
    """Infix token texts of a tree, parenthesised exactly where the tree has ("par", ...) nodes."""
    kind = t[0]
    if kind == "id" or kind == "num":
        return [t[1]]
    if kind == "par":
        return ["("] + tokens_of(t[1]) + [")"]
    if kind == "un":
        return [t[1]] + tokens_of(t[2])
    return tokens_of(t[2]) + [t[1]] + tokens_of(t[3])
