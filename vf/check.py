#!/usr/bin/env python3
"""check.py <PROPERTY> [--tier quick|thorough]      decide one property on /repo's current working tree
   check.py --replay <replay file>                  re-run a recorded counterexample on the real code

Exit 0: held on everything explored (known findings printed as KNOWN-FINDING lines)
Exit 1: at least one `VIOLATION property=<id> replay=<path>` line
Exit 2: undecided and no stand-in could decide        Exit 3: checker error (never a verdict about the code)
"""
from __future__ import annotations

import argparse
import importlib
import json
import os
import sys
import time
import traceback

HERE = os.path.dirname(os.path.abspath(__file__))
VERIF_ROOT = os.path.dirname(HERE)
if VERIF_ROOT not in sys.path:
    sys.path.insert(0, VERIF_ROOT)

from vf import framework as fw  # noqa: E402


def replay_file(path):
    data = json.load(open(path))
    kind = data.get("kind")
    if kind == "harness":
        r = fw.native_run_harness([{"harness": data["harness"], "params": data["params"], "overrides": data.get("overrides")}])[0]
        print(json.dumps(r))
        fails = r["outcome"] in ("violation", "exception", "timeout")
    elif kind == "native":
        r = fw.native_call(data["script"], {"replay": data["payload"]})
        print(json.dumps(r)[:2000])
        fails = bool(r.get("failed"))
    else:
        print(f"replay file of kind {kind!r} carries no runnable input (obligation {data.get('obligation')}); solver output:")
        print(data.get("solver", ""))
        return 1
    if fails:
        print(f"VIOLATION property={data['property']} replay={path}")
        return 1
    print("replay no longer fails on this tree")
    return 0


def main():
    ap = argparse.ArgumentParser()
    ap.add_argument("prop", nargs="?")
    ap.add_argument("--tier", default=os.environ.get("VERIF_TIER", "quick"))
    ap.add_argument("--replay")
    ap.add_argument("--no-bounded", action="store_true")
    ap.add_argument("--no-mutants", action="store_true")
    ap.add_argument("--only", help="substring filter on harness names (debugging; evidence is not written)")
    args = ap.parse_args()
    if args.replay:
        sys.exit(replay_file(args.replay))
    tier = "thorough" if args.tier == "thorough" else "quick"
    seed = int(os.environ.get("VERIF_SEED", "0") or 0)
    prop = args.prop
    os.environ["VERIF_TIER"] = tier
    try:
        code = run(prop, tier, seed, args)
    except Exception:  # noqa: BLE001
        traceback.print_exc()
        print(f"CHECKER-ERROR property={prop}")
        code = 3
    sys.exit(code)


def run(prop, tier, seed, args):
    from vf.pyvc.harness import Engine

    modname = f"vf.props.{prop}"
    mod = importlib.import_module(modname)
    rep = fw.Report(prop, tier, seed)
    import shutil
    shutil.rmtree(os.path.join(VERIF_ROOT, "replays", prop) if os.path.realpath(fw.REPO_ROOT) == "/repo" else os.path.join("/tmp", "verif-scratch-replays", prop),
                  ignore_errors=True)  # replay files belong to one run
    findings, fixed = fw.load_known(prop)
    E = Engine(fw.REPO_ROOT)
    if hasattr(mod, "setup_engine"):
        mod.setup_engine(E)
    cases = mod.cases(E)
    if args.only:
        keep = [i for i, c in enumerate(cases) if args.only in c.harness or args.only in c.label]
    else:
        keep = list(range(len(cases)))
    timeout_ms = 10000 if tier == "quick" else 60000
    t_proof = time.time()
    os.environ.setdefault("VF_CROSS_EVERY", "1" if len(cases) <= 150 else "25")  # thorough tier: share of proved obligations re-decided by other solvers
    all_results = fw.run_cases(modname, len(cases), None, timeout_ms)
    results = [all_results[i] for i in keep]
    proof_s = time.time() - t_proof

    obligations = discharged = 0
    solver_ms = 0.0
    per_ob = []
    cross = {"cvc5-1.0.3": {}, "z3-4.8.12": {}}
    reached = {}
    functions = set()
    inlined = set()
    used_contracts = set()
    used_overrides = set()
    assumed = set()
    undecided = []
    pending_replays = []
    samples = []
    for r in results:
        if r.get("crash"):
            rep.errors.append(f"engine crash in case {r['case']}: {r['crash']}")
            continue
        functions.update(r["target"])
        inlined.update(r["inlined"])
        used_contracts.update(r["used_contracts"])
        used_overrides.update(r["used_overrides"])
        assumed.update(r["assumed"])
        hname = r["harness"]
        reached.setdefault(hname, set())
        if r["unsupported"]:
            if r["unsupported"].startswith("vacuous"):
                rep.errors.append(f"{hname}[{r['case']}]: {r['unsupported']}")
            else:
                undecided.append((f"{hname}[{r['case']}]", "unsupported: " + r["unsupported"]))
            continue
        for ob in r["obligations"]:
            reached[hname].add(ob["name"])
            if r["expect"] == "refuted":
                if ob["verdict"] != "refuted":
                    rep.errors.append(f"sentinel {ob['ident']} was not refuted ({ob['verdict']}): engine unsound or harness vacuous")
                continue
            obligations += 1
            solver_ms += ob["ms"]
            per_ob.append({"name": ob["ident"], "verdict": ob["verdict"], "backend": ob["backend"], "ms": ob["ms"]})
            if ob.get("cross"):
                per_ob[-1]["cross_check"] = ob["cross"]
                for be, verdict in ob["cross"].items():
                    cross[be][verdict] = cross[be].get(verdict, 0) + 1
                    if verdict == "sat":
                        # another solver finds the negated goal satisfiable where z3 5.1 said unsat: the proof is not trusted
                        rep.errors.append(f"solver disagreement on {ob['ident']}: z3-5.1 unsat, {be} sat")
            if ob["verdict"] == "proved":
                discharged += 1
                if "smt2_goal" in ob and len(samples) < 4:
                    samples.append({"obligation": ob["ident"], "goal": ob["smt2_goal"], "verdict": "proved", "backend": ob["backend"]})
            elif ob["verdict"] == "refuted":
                pending_replays.append((r, ob))
            else:
                undecided.append((ob["ident"], f"solver: {ob['verdict']} {ob['note']}"))

    # ---------------- frame condition of the functions under contract (every property): a function the contracts reason about one call at a time
    # must not keep state across calls -- no write to module-level / class-level objects, no cache decorator, no shared default object,
    # no state on the process-wide emitter objects.  (C19 checks this for the whole repository; here: the functions this property relies on.)
    if not hasattr(mod, "extra_obligations") and not args.only:
        from vf.pyvc import frame as _frame
        under = _frame.call_closure(E.index, set(getattr(mod, "FUNCTIONS", [])) | set(functions) | {q for q in inlined if not q.startswith("vf.")})
        classes = {q.rsplit(".", 1)[0] for q in under}
        fsites = [st for st in _frame.analyse(E.index) if f"{st.module}.{st.func}" in under or f"{st.module}.{st.func.split('.')[0]}" in classes]
        obligations += len(fsites)
        for st in fsites:
            if st.region in ("module", "unknown"):
                rep.violation(f"frame#{st.module}.{st.func}:{st.lineno}", {"kind": "obligation-only", "obligation": st.ident(), "solver": "frame checker: a function under contract keeps state across calls",
                                                                     "detail": st.as_dict()}, no_input=True)
            else:
                discharged += 1
        per_ob.append({"name": "frame#site(functions under contract) x %d" % len(fsites), "verdict": "discharged by vf/pyvc/frame.py", "backend": "frame-checker", "ms": 0})

    # ---------------- obligations discharged by a purpose-built checker (frame checker), not by the SMT solver
    extra = None
    if hasattr(mod, "extra_obligations") and not args.only:
        extra = mod.extra_obligations(E)
        obligations += extra["obligations"]
        discharged += extra["discharged"]
        for v in extra["violations"]:
            fd = fw.match_finding(findings, v["ident"])
            if fd is not None:
                continue
            rep.violation(v["ident"], {"kind": "obligation-only", "obligation": v["ident"], "solver": "frame checker: region is not local / instance / parameter",
                                       "detail": v["detail"]}, no_input=True)
        for v in extra.get("undecided", []):
            undecided.append((v["ident"], "frame checker: suspicious site, not decisive: " + str(v["detail"].get("call", ""))[:160]))
        per_ob.append({"name": "frame#site(*) x %d" % extra["obligations"], "verdict": "discharged by vf/pyvc/frame.py" if not extra["violations"] else "some refuted",
                       "backend": "frame-checker", "ms": 0})
        rep.extra["frame_checker"] = extra["details"]

    # ---------------- vacuity guard: every check() written in a harness must have been reached in some case
    for hname in sorted(reached):
        textual = set(E.harness_checks(hname))
        optional = set(getattr(mod, "OPTIONAL_CHECKS", {}).get(hname.split(".")[-1], []))
        hres = [r for r in results if r["harness"] == hname]
        if any(r["unsupported"] for r in hres):
            continue
        missing = textual - reached[hname] - optional
        if missing and not args.only and not pending_replays and not undecided:
            rep.errors.append(f"vacuity: checks never reached in {hname}: {sorted(missing)}")
    min_ob = getattr(mod, "MIN_OBLIGATIONS", 1)
    if obligations < min_ob and not args.only and not undecided:
        rep.errors.append(f"vacuity: only {obligations} obligations generated, at least {min_ob} expected")

    # ---------------- refuted obligations: known finding? else replay on the real code
    known_hit = {}
    nonreplayable = []
    if pending_replays:
        items = []
        for r, ob in pending_replays:
            if not r.get("replayable", True):
                ob.pop("params", None)
            if "params" in ob:
                items.append({"harness": r["harness"], "params": ob["params"], "overrides": r.get("overrides") or getattr(mod, "NATIVE_OVERRIDES", {})})
        native = fw.native_run_harness(items) if items else []
        it = iter(native)
        for r, ob in pending_replays:
            nat = next(it) if "params" in ob else {"outcome": "not-materialised", "detail": ob.get("materialize_error", "")}
            fd = fw.match_finding(findings, ob["ident"])
            # a counter-model is reproduced when the real code fails the contract natively: a violated check for a check
            # obligation; an escaping exception / a hang for an "unexpected exception" obligation
            if ob["kind"] == "exc":
                # (a VIOLATED CHECK of the same harness on the same input also counts: the symbolic run left the engine's picture of the changed code
                # through an exception, the real code fails the contract on that very input -- `observed` names the check)
                reproduced = nat["outcome"] in ("exception", "timeout", "violation")
            else:
                reproduced = nat["outcome"] in ("violation", "timeout") or (nat["outcome"] == "exception" and not nat["detail"].startswith("TypeError: "))
            data = {"kind": "harness", "obligation": ob["ident"], "harness": r["harness"], "case": r["case"], "params": ob.get("params"),
                    "overrides": r.get("overrides") or getattr(mod, "NATIVE_OVERRIDES", {}),
                    "model": ob.get("model"), "observed": nat, "solver": f"{ob['backend']}: sat (counter-model above); note={ob['note']}"}
            if fd is not None and fw_region_ok(fd, ob):
                known_hit.setdefault(fd["what"], []).append(ob["ident"])
                continue
            api = None
            if hasattr(mod, "api_replay"):
                try:
                    api = mod.api_replay(r, ob)
                except Exception:  # noqa: BLE001
                    api = None
            if api:
                data["program"] = api
            if reproduced:
                rep.violation(ob["ident"], data)
            elif not r.get("replayable", True):
                # obligation over a mid-loop / abstract state: there is no function input to replay; the counter-model is
                # the solver's reason.  Reported with no-failing-input-found unless the bounded stand-in finds an input below.
                data["kind"] = "obligation-only"
                nonreplayable.append((ob["ident"], data))
            else:
                undecided.append((ob["ident"], f"refuted by the solver but the counter-model does not fail on the real code ({nat['outcome']} {nat['detail']})"))
                data["kind"] = "obligation-only"
                rep.extra.setdefault("unreproduced", []).append(rep.write_replay(ob["ident"], data))

    # ---------------- bounded stand-in (labelled bounded, never counted as proved)
    bounded = None
    if hasattr(mod, "bounded") and not args.no_bounded and not args.only:
        tb = time.time()
        try:
            bounded = mod.bounded(tier, seed)
        except Exception as e:  # noqa: BLE001
            # the stand-in itself crashed (typically: the code under test raised where the stand-in's own bookkeeping did not expect it).  That is a
            # checker error, not a verdict -- but the verdicts of the proof part above are kept and reported.
            rep.errors.append(f"bounded stand-in crashed: {str(e)[-400:]}")
            bounded = {"evaluations": 0, "distinct_nontrivial": 0, "rule": "the stand-in crashed on this tree (see errors)", "failures": []}
        bounded["seconds"] = round(time.time() - tb, 2)
        for f in bounded.pop("failures", []):
            fd = fw.match_finding(findings, f["ident"])
            if fd is not None:
                known_hit.setdefault(fd["what"], []).append(f["ident"])
                continue
            rep.violation(f["ident"], {"kind": "native", "obligation": f["ident"], "script": f["script"], "payload": f["payload"],
                                       "observed": f.get("observed"), "expected": f.get("expected")})
    for ident, data in nonreplayable:
        rep.violation(ident, data, no_input=not any(p is not None for _, p in rep.violations if _ .startswith("bounded/")))
    for fd in findings:
        if fd["what"] in known_hit:
            rep.say(f"KNOWN-FINDING: property={prop} {fd['what']}")
        else:
            rep.say(f"NOTE: listed finding no longer observed: {fd['what']}")

    # ---------------- undecided obligations: the bounded stand-in decides (DESIGN 3.8)
    for ident, reason in undecided:
        rep.say(f"UNDECIDED-BY-PROOF property={prop} obligation={ident} reason={reason[:300]}")

    # ---------------- in-memory mutants (engine/contract self-test)
    mutants_info = None
    if hasattr(mod, "mutants") and not args.no_mutants and not args.only and not rep.errors:
        mus = mod.mutants()
        if tier == "quick":
            mus = mus[: getattr(mod, "QUICK_MUTANTS", 6)]
        killed = []
        survived = []
        inapplicable = []
        for mu in mus:
            fw._ENGINE.clear()
            idxs = [i for i, c in enumerate(cases) if (mu.only_harness is None or mu.only_harness in c.harness) and (mu.only_label is None or mu.only_label in c.label)][: mu.max_cases]
            res = fw.run_cases(modname, len(cases), mu.name, 5000, False, only=idxs)
            hit = [ob["ident"] for r in res for ob in r["obligations"] if ob["verdict"] == "refuted" and r["expect"] != "refuted"]
            if not hit and res and all((r.get("unsupported") or "").startswith("engine-internal: ValueError: mutation site") for r in res):
                inapplicable.append(mu.name)
                continue
            (killed if hit else survived).append({"mutant": mu.name, "refuted": hit[:3]})
        mutants_info = {"killed": len(killed), "total": len(mus) - len(inapplicable), "kill_matrix": killed, "survived": survived,
                        "site_not_found_on_this_tree": inapplicable}
        for s in survived:
            rep.say(f"WARNING: in-memory mutant not refuted: {s['mutant']}")

    # ---------------- evidence
    all_proved = obligations > 0 and discharged == obligations and not undecided
    level = getattr(mod, "LEVEL", "proof")
    if not all_proved and level == "proof":
        level = "other"
    trusted = list(getattr(mod, "TRUSTED", [])) + [
        "pyvc (ast symbolic executor, builtin models, lifter) written for this task",
        "z3 5.1.0 (python3-vt) / cvc5 1.0.3",
        "python semantics assumed: unbounded ints, floor // and %, left-to-right evaluation, attribute = field (no __getattr__/descriptors/monkey-patching), single thread",
    ]
    from vf.pyvc.extract import DROPPED

    coverage = {
        "obligations": obligations,
        "discharged": discharged,
        "checker_cmd": f"python3-vt vf/check.py {prop} --tier {tier}",
        "trusted_base": trusted,
        "functions_under_contract": sorted(set(getattr(mod, "FUNCTIONS", [])) | functions),
        "inlined_without_own_contract": sorted(q for q in inlined if not q.startswith("vf.")),
        "contracts_used_modularly": sorted(used_contracts),
        "assumed_contracts_on_dependencies": sorted(used_overrides - {q for q in used_overrides if q.startswith("vf.contracts.rt")}),
        "backends": sorted({o["backend"] for o in per_ob if o["backend"]}),
        "solver_ms": round(solver_ms, 1),
        "independent_recheck": ({"rule": "thorough tier: every proved obligation (properties with <= 150 cases) or a deterministic 1-in-25 sample of them is re-decided from its SMT-LIB dump by two other solver builds; "
                                          "`sat` from either is a checker error, `unknown`/`timeout` are only counted", "results": cross} if any(cross.values()) else
                                "thorough tier only"),
        "symbolic_execution_and_solving_wall_s": round(proof_s, 2),
        "per_obligation": per_ob if len(per_ob) <= 400 else per_ob[:400] + [{"name": f"... {len(per_ob) - 400} more", "verdict": "see counts"}],
        "undecided": [{"obligation": i, "reason": r} for i, r in undecided],
        "dropped_by_extraction": DROPPED,
        "samples": samples + (bounded.get("samples", [])[:4] if bounded else []),
        "explanation": getattr(mod, "EXPLANATION", ""),
        "repo_tree_digest": fw.tree_digest(),
        "known_findings_hit": known_hit,
        "fixed_entries": fixed,
    }
    if bounded:
        coverage["bounded"] = {k: v for k, v in bounded.items() if k != "samples"}
        coverage["evaluations"] = bounded.get("evaluations", 0)
        coverage["distinct_nontrivial"] = bounded.get("distinct_nontrivial", 0)
        coverage["rule"] = bounded.get("rule", "")
    if mutants_info:
        coverage["mutants"] = mutants_info
    if rep.extra:
        coverage.update(rep.extra)
    assumptions = list(getattr(mod, "ASSUMPTIONS", [])) + sorted(assumed)
    for fd in findings:
        if fd["what"] in known_hit:
            assumptions.append(f"known finding carved out of {fd['obligation']}: {fd['what']}")
    if not args.only:
        fw.write_evidence(rep, mod, level, coverage, assumptions)

    for e in rep.errors:
        print(f"CHECKER-ERROR property={prop} {e}")
    print(f"{prop} [{tier}]: obligations={obligations} discharged={discharged} undecided={len(undecided)} violations={len(rep.violations)} "
          f"bounded={'%d cases' % bounded.get('evaluations', 0) if bounded else 'none'} wall={time.time() - rep.t0:.1f}s")
    if rep.violations:
        return 1
    if rep.errors:
        return 3
    if undecided and not bounded:
        return 2
    return 0


def fw_region_ok(fd, ob):
    """A finding may restrict itself to a region of the obligation's inputs (python expression over the model)."""
    region = fd.get("region")
    if not region:
        return True
    try:
        return bool(eval(region, {"__builtins__": {}}, dict(ob.get("model") or {})))  # noqa: S307 - our own file
    except Exception:  # noqa: BLE001
        return False


if __name__ == "__main__":
    main()
