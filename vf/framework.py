"""Check driver shared by all properties: run contract harnesses symbolically (parallel), discharge, replay
refutations natively on the real code, run bounded stand-ins, honour known findings, write evidence."""
from __future__ import annotations

import fnmatch
import hashlib
import importlib
import json
import multiprocessing
import os
import subprocess
import sys
import time
import traceback

VERIF_ROOT = os.path.dirname(os.path.dirname(os.path.abspath(__file__)))
REPO_ROOT = os.environ.get("VERIF_REPO", "/repo")
NATIVE_PY = os.environ.get("VERIF_NATIVE_PY", "/venv/bin/python")
NPROC = int(os.environ.get("VERIF_NPROC", "16"))


class Case:
    def __init__(self, harness, label, shape, target=(), group=None, timeout_ms=None, expect=None, no_loop_specs=False, overrides=None, replay=True,
                 contracts=None, loop_specs=None, drop_overrides=(), no_contracts=False):
        self.harness = harness
        self.label = label
        self.shape = shape
        self.target = list(target)
        self.group = group or harness.split(".")[-1]
        self.timeout_ms = timeout_ms
        self.no_loop_specs = no_loop_specs
        self.replay = replay  # False: the harness only makes sense symbolically (mid-loop states): no native replay of counter-models
        self.overrides = dict(overrides or {})  # assumed contracts on dependencies for this case only
        self.expect = expect  # None (must be proved) | "refuted" (sentinel that must fail)
        self.contracts = dict(contracts or {})  # modular contracts (real function -> spec function) for this case only
        self.loop_specs = dict(loop_specs or {})  # loop contracts for this case only
        self.no_contracts = no_contracts  # the engine-wide modular contracts are NOT used by this case (callees are executed)
        self.drop_overrides = tuple(drop_overrides)  # engine-wide assumed contracts NOT used by this case (the real dependency is executed)


class Mutant:
    """In-memory mutant of the extracted AST of a real function (engine self-test: must be refuted)."""

    def __init__(self, name, qualname, transform, only_harness=None, max_cases=None, only_label=None):
        self.only_label = only_label  # substring of the case label (in addition to only_harness)
        self.name = name
        self.qualname = qualname
        self.transform = transform
        self.only_harness = only_harness
        self.max_cases = max_cases


# ------------------------------------------------------------------------------------------------ workers
_ENGINE = {}


def _engine(mutant_key, modname):
    from vf.pyvc.harness import Engine

    key = (mutant_key, modname)
    if key not in _ENGINE:
        _ENGINE.clear()
        E = Engine(REPO_ROOT)
        mod = importlib.import_module(modname)
        if mutant_key is not None:
            mu = [m for m in mod.mutants() if m.name == mutant_key][0]
            node, module, cls = E.index.functions[mu.qualname]
            new = mu.transform(node)
            E.index.functions[mu.qualname] = (new, module, cls)
            if cls is not None:
                E.index.classes[cls].methods[node.name] = new
            else:
                E.index.modules[module].functions[node.name] = new
        if hasattr(mod, "setup_engine"):
            mod.setup_engine(E)
        _ENGINE[key] = (E, mod, mod.cases(E))
    return _ENGINE[key]


def _run_case(arg):
    modname, idx, mutant_key, timeout_ms, want_replay = arg
    from vf.pyvc import solve
    from vf.pyvc.harness import materialize, run_harness

    try:
        E, mod, cases = _engine(mutant_key, modname)
        case = cases[idx]
        t0 = time.time()
        saved_specs = E.I.loop_specs
        saved_ovr = dict(E.I.overrides)
        saved_contracts = dict(E.I.contracts)
        if case.no_loop_specs:
            E.I.loop_specs = {}
        if case.loop_specs:
            E.I.loop_specs = dict(E.I.loop_specs)
            E.I.loop_specs.update(case.loop_specs)
        if case.no_contracts:
            E.I.contracts = {}
        E.I.contracts.update(case.contracts)
        for k in case.drop_overrides:
            E.I.overrides.pop(k, None)
        for k, v in case.overrides.items():
            if k.endswith(".open"):
                continue  # open() goes through the engine's open hook
            E.I.overrides[k] = v
        try:
            res = run_harness(E, case.harness, case.label, case.shape, verify_target=case.target)
        finally:
            E.I.loop_specs = saved_specs
            E.I.overrides = saved_ovr
            E.I.contracts = saved_contracts
        out = {
            "harness": case.harness, "case": case.label, "group": case.group, "unsupported": res.unsupported, "paths": res.paths,
            "seconds": 0.0, "inlined": sorted(res.inlined), "used_contracts": sorted(res.used_contracts),
            "used_overrides": sorted(res.used_overrides), "assumed": list(res.assumed), "obligations": [], "expect": case.expect,
            "target": case.target, "cover": res.cover, "overrides": case.overrides, "replayable": case.replay,
        }
        for ob in res.obligations:
            solve.discharge(ob, case.timeout_ms or timeout_ms)
            d = {"name": ob.name, "ident": ob.ident(), "verdict": ob.verdict, "backend": ob.backend, "ms": round(ob.ms, 2), "note": ob.note,
                 "kind": ob.kind}
            if ob.verdict == "refuted" and want_replay and not case.replay:
                d["model"] = {k: solve.model_value(ob.model, v) for k, v in ob.symbols.items() if not str(v.sort()).startswith("Array")}
            elif ob.verdict == "refuted" and want_replay:
                try:
                    params, st0 = res.inputs
                    d["model"] = {k: solve.model_value(ob.model, v) for k, v in ob.symbols.items() if not str(v.sort()).startswith("Array")}
                    seen = {}
                    d["params"] = {k: materialize(E, res.builder, st0, v, ob.model, seen) for k, v in params.items()}
                except Exception as e:  # noqa: BLE001
                    d["materialize_error"] = f"{type(e).__name__}: {e}"
            if ob.verdict == "proved" and len(out["obligations"]) < 2:
                d["smt2_goal"] = str(ob.goal)[:400]
            if ob.verdict == "proved" and mutant_key is None and os.environ.get("VERIF_TIER") == "thorough" and not isinstance(ob.goal, bool):
                # independent re-check of a deterministic sample through the SMT-LIB dump: cvc5 1.0.3 and z3 4.8.12 command-line solvers
                import zlib
                every = int(os.environ.get("VF_CROSS_EVERY", "25"))
                if zlib.crc32(ob.ident().encode()) % every == 0:
                    d["cross"] = solve.cross_check_smt2(ob, timeout_s=20)
            out["obligations"].append(d)
        out["seconds"] = round(time.time() - t0, 3)
        return out
    except Exception as e:  # noqa: BLE001
        try:
            hname, label, tgt = cases[idx].harness, cases[idx].label, cases[idx].target
        except Exception:  # noqa: BLE001
            hname, label, tgt = "?", str(idx), []
        # an internal error of the interpreter on this input is 'unsupported' (undecided), never a verdict about the code
        return {"harness": hname, "case": label, "group": "?", "obligations": [],
                "unsupported": f"engine-internal: {type(e).__name__}: {e} @ {traceback.format_exc().strip().splitlines()[-3].strip()[:120]}", "paths": 0, "seconds": 0, "inlined": [], "used_contracts": [], "used_overrides": [], "assumed": [],
                "expect": None, "target": tgt, "cover": None, "overrides": {}, "replayable": True}


def run_cases(modname, ncases, mutant_key=None, timeout_ms=10000, want_replay=True, nproc=NPROC, only=None):
    args = [(modname, i, mutant_key, timeout_ms, want_replay) for i in (range(ncases) if only is None else only)]
    ncases = len(args)
    if nproc <= 1 or ncases <= 1:
        return [_run_case(a) for a in args]
    ctx = multiprocessing.get_context("fork")
    with ctx.Pool(min(nproc, ncases)) as pool:
        return pool.map(_run_case, args, chunksize=max(1, ncases // (nproc * 4)))


# ------------------------------------------------------------------------------------------------ native side
def native_env():
    env = dict(os.environ)
    env["PYTHONPATH"] = f"{VERIF_ROOT}:{REPO_ROOT}"
    env["VERIF_REPO"] = REPO_ROOT
    env["PYTHONDONTWRITEBYTECODE"] = "1"
    return env


def native_run_harness(items, timeout=1800):
    """items: [{harness, params}] -> results from the real code under /venv/bin/python"""
    p = subprocess.run([NATIVE_PY, os.path.join(VERIF_ROOT, "vf/native/build.py")], input=json.dumps({"items": items}),
                       capture_output=True, text=True, env=native_env(), timeout=timeout, cwd=VERIF_ROOT)
    if p.returncode != 0:
        raise RuntimeError(f"native harness runner failed: {p.stderr[-2000:]}")
    return json.loads(p.stdout.rsplit("@@VF-RESULT@@", 1)[-1])


def native_call(script, payload, timeout=600):
    """Run vf/native/<script> under the repository's interpreter with a JSON payload -> JSON result."""
    p = subprocess.run([NATIVE_PY, os.path.join(VERIF_ROOT, "vf/native", script)], input=json.dumps(payload), capture_output=True,
                       text=True, env=native_env(), timeout=timeout, cwd=VERIF_ROOT)
    if p.returncode != 0:
        raise RuntimeError(f"native {script} failed (exit {p.returncode}): {p.stderr[-3000:]}")
    return json.loads(p.stdout.rsplit("@@VF-RESULT@@", 1)[-1])


# ------------------------------------------------------------------------------------------------ known findings
def load_known(prop):
    path = os.path.join(VERIF_ROOT, "known_findings.txt")
    findings, fixed = [], []
    if os.path.exists(path):
        for line in open(path, encoding="utf-8"):
            line = line.strip()
            if not line or line.startswith("#"):
                continue
            if line.startswith("fixed:"):
                if f"property={prop} " in line:
                    fixed.append(line)
            elif line.startswith("{"):
                d = json.loads(line)
                if d.get("property") == prop:
                    findings.append(d)
    return findings, fixed


def tree_digest():
    h = hashlib.sha256()
    for root in ("a816", "script"):
        for dp, dn, fn in sorted(os.walk(os.path.join(REPO_ROOT, root))):
            dn.sort()
            for f in sorted(fn):
                if f.endswith(".py"):
                    p = os.path.join(dp, f)
                    h.update(p.encode())
                    h.update(open(p, "rb").read())
    return h.hexdigest()[:16]


# ------------------------------------------------------------------------------------------------ reporting
class Report:
    def __init__(self, prop, tier, seed):
        self.prop = prop
        self.tier = tier
        self.seed = seed
        self.t0 = time.time()
        self.violations = []  # (obligation ident, replay path, tail)
        self.known_lines = []
        self.undecided = []
        self.errors = []
        self.case_results = []
        self.bounded = None
        self.mutants = None
        self.extra = {}
        self.lines = []

    def say(self, line):
        print(line, flush=True)
        self.lines.append(line)

    def write_replay(self, name, data):
        d = os.path.join(VERIF_ROOT, "replays", self.prop)
        if os.path.realpath(REPO_ROOT) != "/repo":
            d = os.path.join("/tmp", "verif-scratch-replays", self.prop)
        os.makedirs(d, exist_ok=True)
        safe = "".join(c if c.isalnum() or c in "-_." else "_" for c in name)[:80]
        h = hashlib.sha1(json.dumps(data, sort_keys=True, default=str).encode()).hexdigest()[:8]
        path = os.path.join(d, f"{safe}-{h}.json")
        data = dict(data)
        data["property"] = self.prop
        data["tree_digest"] = tree_digest()
        with open(path, "w", encoding="utf-8") as f:
            json.dump(data, f, indent=1, default=str)
        return os.path.relpath(path, VERIF_ROOT) if path.startswith(VERIF_ROOT) else path

    MAX_LINES = 12

    def violation(self, ident, replay_data, no_input=False):
        if len(self.violations) >= self.MAX_LINES:
            self.violations.append((ident, None))
            return
        path = self.write_replay(ident, replay_data)
        tail = " no-failing-input-found" if no_input else ""
        self.violations.append((ident, path))
        self.say(f"VIOLATION property={self.prop} replay={path}{tail}")


def write_evidence(rep: Report, mod, level, coverage, assumptions):
    ev = {
        "property_id": rep.prop,
        "tier": rep.tier,
        "seed": rep.seed,
        "level": level,
        "coverage": coverage,
        "assumptions": assumptions,
        "wall_s": round(time.time() - rep.t0, 2),
        "violations": len(rep.violations),
    }
    d = os.path.join(VERIF_ROOT, "evidence")
    if os.path.realpath(REPO_ROOT) != "/repo":
        # a run against a scratch copy (seeded change under test) never touches the evidence of the real tree
        d = os.path.join("/tmp", "verif-scratch-evidence")
    os.makedirs(d, exist_ok=True)
    with open(os.path.join(d, f"{rep.prop}.json"), "w", encoding="utf-8") as f:
        json.dump(ev, f, indent=1, default=str)
    return ev


def match_finding(findings, ident):
    for fd in findings:
        if fnmatch.fnmatch(ident, fd.get("obligation", "")):
            return fd
    return None
