"""Loop contracts: inductive invariant + variant, keyed by (function qualified name, loop ordinal).

   entry : obligation  inv(state)                                   (loop_inv_entry)
   step  : havoc the loop-modified state, assume inv and the guard, run the REAL body once,
           obligations inv(state') (loop_inv_preserved) and 0 <= variant' < variant (loop_variant)
   exit  : continue after the loop from the havoc'd state with  inv and not guard
Objects the body modifies must be declared (modifies); anything else changing is reported as unsupported, so a
frame that is too small is never silently assumed.
"""
from __future__ import annotations

import ast

import z3

from .values import ExcVal, HDict, HInst, HList, Ref, Unsupported, is_sym, is_symint, to_z3int


def assigned_names(stmts):
    names = []
    for st in stmts:
        for n in ast.walk(st):
            if isinstance(n, ast.Name) and isinstance(n.ctx, ast.Store) and n.id not in names:
                names.append(n.id)
    return names


class LoopSpec:
    def __init__(self, name, inv, variant=None, havoc=None, modifies=None, ghost=None, params=None, step=None, item=None, ghost_update=None):
        self.name = name
        self.inv = inv  # qualname of the invariant function (spec module); called with the named locals
        self.variant = variant  # qualname of variant function or None (for-range loops have a built-in variant)
        self.havoc = havoc  # callable(I, st, g) -> None : replaces loop-modified non-integer state by fresh symbols
        self.modifies = modifies  # callable(I, st) -> set of oids the body may change
        self.ghost = ghost  # callable(I, st) -> dict of entry-time values (old state)
        self.params = params
        self.item = item  # callable(I, st) -> the arbitrary element of a `for x in <list>` loop (list iteration cut)
        self.ghost_update = ghost_update  # callable(I, st) -> None: updates the ghost dict g after the body
        self.step = step  # qualname: per-iteration postcondition evaluated after the body (may use g[...] set by havoc)

    # -------------------------------------------------------------- helpers
    def _call_spec(self, I, qual, st):
        if callable(qual):
            return [("val", qual(I, st), st)]
        fn, mod, cls = I.index.functions[qual]
        args = []
        for p in fn.args.args:
            if p.arg not in st.env:
                raise Unsupported(f"loop spec {qual}: no local named {p.arg}")
            args.append(st.env[p.arg])
        return I.call_function(fn, mod, cls, args, {}, st, qual)

    def _eval_bool(self, I, qual, st):
        """-> list of (truth term, state).  `qual` is the qualified name of a spec function, or a Python callable (I, st) -> z3 Bool
        (for invariants that need a quantifier over the positions of a symbolic string)"""
        if callable(qual):
            return [(qual(I, st), st)]
        out = []
        for k, v, s in self._call_spec(I, qual, st):
            if k == "exc":
                raise Unsupported(f"loop spec {qual} raised {I.class_of(v, s)}")
            out.append((I.truth_term(v, s), s))
        return out

    def _snapshot(self, I, st):
        return {oid: (o, dict(o.fields) if isinstance(o, HInst) else list(o.items) if isinstance(o, HList) else dict(o.items) if isinstance(o, HDict) else None)
                for oid, o in st.heap.items()}

    def _frame_check(self, I, before, st, allowed, fresh_from):
        for oid, o in st.heap.items():
            if oid >= fresh_from or oid in allowed:
                continue
            old = before.get(oid)
            cur = dict(o.fields) if isinstance(o, HInst) else list(o.items) if isinstance(o, HList) else dict(o.items) if isinstance(o, HDict) else None
            if old is None:
                base = I.base_heap.get(oid)
                if base is None:
                    continue
                oldv = dict(base.fields) if isinstance(base, HInst) else list(base.items) if isinstance(base, HList) else dict(base.items) if isinstance(base, HDict) else None
            else:
                oldv = old[1]
            if cur is not None and oldv is not None and not _same(cur, oldv):
                raise Unsupported(f"loop {self.name}: body modifies an object outside the declared frame (oid {oid}, {type(o).__name__})")

    # -------------------------------------------------------------- the cut
    def cut(self, I, stmt, st):
        out = []
        is_for = isinstance(stmt, ast.For)
        rng = None
        if is_for:
            it = stmt.iter
            if self.item is not None:
                return self.cut_list(I, stmt, st)
            if not (isinstance(it, ast.Call) and isinstance(it.func, ast.Name) and it.func.id == "range" and isinstance(stmt.target, ast.Name)):
                raise Unsupported("loop contract on a for loop that is not `for x in range(...)`", stmt)
            res = I.eval_seq(it.args, st)
            if len(res) != 1 or res[0][0] != "val":
                raise Unsupported("range bounds fork", stmt)
            vals = res[0][1]
            st = res[0][2]
            lo, hi = (0, vals[0]) if len(vals) == 1 else (vals[0], vals[1])
            rng = (to_z3int(lo), to_z3int(hi))
        if self.ghost is not None:
            g = self.ghost(I, st)
            st.env["g"] = I.alloc(st, HDict(g))
        # entry
        if is_for:
            st.env[stmt.target.id] = rng[0]
        for t, s in self._eval_bool(I, self.inv, st.fork()):
            st.side.append((f"loop_inv_entry:{self.name}", list(s.pc), t))
        # havoc
        names = assigned_names(stmt.body) + ([stmt.target.id] if is_for else [])
        for n in names:
            cur = st.env.get(n)
            if n in st.env and (isinstance(cur, int) and not isinstance(cur, bool) or is_symint(cur)):
                st.env[n] = I.fresh_int(n)
            elif n in st.env and cur is not None and not (self.havoc and n in getattr(self.havoc, "handles", ())):
                if self.havoc is None:
                    raise Unsupported(f"loop {self.name}: local {n} is modified and is not an integer; a havoc rule is needed")
        alts = [st]
        if self.havoc is not None:
            r = self.havoc(I, st)
            if isinstance(r, list):
                alts = r  # the havoc rule forks (e.g. a local that is either a character or None)
        if is_for:
            k = st.env[stmt.target.id]
            st.pc.append(k >= rng[0])
            st.pc.append(k <= z3.If(rng[1] > rng[0], rng[1], rng[0]))
        # assume inv
        states = []
        for st_alt in alts:
            for t, s in self._eval_bool(I, self.inv, st_alt):
                for b, s2 in I.split(t, s):
                    if b:
                        states.append(s2)
        for s in states:
            # the variant is measured at the loop head, BEFORE the guard (guards with effects, e.g. `while self.accept(...)`)
            var_head = None
            if self.variant is not None:
                var_head = self._call_spec(I, self.variant, s.fork())[0][1]
            # guard
            if is_for:
                guard_res = [("val", s.env[stmt.target.id] < rng[1], s)]
            else:
                guard_res = I.eval(stmt.test, s)
            for k0, c, s1 in guard_res:
                if k0 == "exc":
                    out.append((k0, c, s1))
                    continue
                for b, s2 in I.branch(c, s1):
                    if not b:
                        out += I.exec_block(stmt.orelse, s2) if stmt.orelse else [("next", None, s2)]
                        continue
                    # one arbitrary iteration of the real body
                    before = self._snapshot(I, s2)
                    fresh_from = next(I._oid)
                    allowed = self.modifies(I, s2) if self.modifies else set()
                    var_before = var_head
                    kcur = s2.env[stmt.target.id] if is_for else None
                    for k3, v3, s3 in I.exec_block(stmt.body, s2):
                        if k3 in ("next", "continue"):
                            self._frame_check(I, before, s3, allowed, fresh_from)
                            if self.step is not None:
                                # per-iteration postcondition: evaluated with the loop variable still at this iteration's value
                                if is_for:
                                    s3.env[stmt.target.id] = kcur
                                for t, s4 in self._eval_bool(I, self.step, s3.fork()):
                                    s3.side.append((f"loop_step:{self.name}", list(s4.pc), t))
                            if is_for:
                                s3.env[stmt.target.id] = kcur + 1
                            for t, s4 in self._eval_bool(I, self.inv, s3.fork()):
                                s3.side.append((f"loop_inv_preserved:{self.name}", list(s4.pc), t))
                            if self.variant is not None:
                                va = self._call_spec(I, self.variant, s3.fork())
                                for k5, v5, s5 in va:
                                    s3.side.append((f"loop_variant:{self.name}", list(s5.pc), z3.And(to_z3int(v5) >= 0, to_z3int(v5) < to_z3int(var_before))))
                            # the path ends here (inductive step discharged); keep its obligations alive
                            out.append(("exc", ExcVal("<loopend>"), s3))
                        elif k3 == "break":
                            out.append(("next", None, s3))
                        else:
                            out.append((k3, v3, s3))
        return out


def _cut_list(self, I, stmt, st):
    """`for x in <list of unknown length>`: entry obligation, then ONE arbitrary iteration from an arbitrary state satisfying
    the invariant with an arbitrary element (item callback), plus the exit path (invariant holds, any number of iterations done)."""
    out = []
    res = I.eval(stmt.iter, st)
    if len(res) != 1 or res[0][0] != "val":
        raise Unsupported("list loop: iterable forks", stmt)
    st = res[0][2]
    if self.ghost is not None:
        st.env["g"] = I.alloc(st, HDict(self.ghost(I, st)))
    for t, s in self._eval_bool(I, self.inv, st.fork()):
        st.side.append((f"loop_inv_entry:{self.name}", list(s.pc), t))
    names = assigned_names(stmt.body)
    for n in names:
        cur = st.env.get(n)
        if n in st.env and (isinstance(cur, int) and not isinstance(cur, bool) or is_symint(cur)):
            st.env[n] = I.fresh_int(n)
    if self.havoc is not None:
        self.havoc(I, st)
    states = []
    for t, s in self._eval_bool(I, self.inv, st):
        for b, s2 in I.split(t, s):
            if b:
                states.append(s2)
    for s in states:
        # exit path: the loop is over (any number of iterations), the invariant holds
        s_exit = s.fork()
        out += I.exec_block(stmt.orelse, s_exit) if stmt.orelse else [("next", None, s_exit)]
        # one arbitrary iteration (the item callback may return alternatives: a list of element values, one path each)
        items = self.item(I, s)
        alts = [(items, s)] if not isinstance(items, list) else [(it, s.fork()) for it in items]
        for item_value, s2 in alts:
            out += self._one_list_iteration(I, stmt, s2, item_value)
    return out


def _one_list_iteration(self, I, stmt, s2, item_value):
    out = []
    if True:
        I.assign_target(stmt.target, item_value, s2)
        before = self._snapshot(I, s2)
        fresh_from = next(I._oid)
        allowed = self.modifies(I, s2) if self.modifies else set()
        for k3, v3, s3 in I.exec_block(stmt.body, s2):
            if k3 in ("next", "continue"):
                self._frame_check(I, before, s3, allowed, fresh_from)
                if self.step is not None:
                    for t, s4 in self._eval_bool(I, self.step, s3.fork()):
                        s3.side.append((f"loop_step:{self.name}", list(s4.pc), t))
                if self.ghost_update is not None:
                    self.ghost_update(I, s3)
                for t, s4 in self._eval_bool(I, self.inv, s3.fork()):
                    s3.side.append((f"loop_inv_preserved:{self.name}", list(s4.pc), t))
                out.append(("exc", ExcVal("<loopend>"), s3))
            elif k3 == "break":
                out.append(("next", None, s3))
            else:
                out.append((k3, v3, s3))
    return out


LoopSpec.cut_list = _cut_list
LoopSpec._one_list_iteration = _one_list_iteration


def _same(a, b):
    if type(a) is not type(b):
        return False
    if isinstance(a, dict):
        if a.keys() != b.keys():
            return False
        return all(_same_val(a[k], b[k]) for k in a)
    if isinstance(a, list):
        return len(a) == len(b) and all(_same_val(x, y) for x, y in zip(a, b))
    return _same_val(a, b)


def _same_val(x, y):
    if x is y:
        return True
    if is_sym(x) or is_sym(y):
        return is_sym(x) and is_sym(y) and x.eq(y)
    if isinstance(x, tuple) and isinstance(y, tuple):
        return len(x) == len(y) and all(_same_val(a, b) for a, b in zip(x, y))
    try:
        return x == y
    except Exception:  # noqa: BLE001
        return False
