"""Models of Python operators and of the builtins / stdlib functions the repository uses.
The set is closed: anything not listed raises Unsupported (never a verdict).

Integer semantics told to the solver (python ints are unbounded -> z3 Int is exact):
  //, %  with a positive constant divisor: z3 div/mod (Euclidean == floor for a positive divisor); symbolic divisor: fork on sign
  >> c, << c: div / mul by 2^c
  x & C: exact decomposition over the bit runs of the constant C (negative C via x & C == x - (x & ~C))
  x | y == x + y - (x & y);  x & y with both symbolic: 0 when bit-disjointness is proved from the path condition,
           else an uninterpreted function (sound, incomplete)
  ~x == -x - 1
"""
from __future__ import annotations

import ast
import z3

from .values import (
    BoundMethod, BuiltinVal, ClassVal, Closure, EnumVal, ExcVal, FuncVal, HAbstract, HDict, HInst, HList, HSet, HSymList, HSymMap, HexStr, SymEnum,
    LoweredSeq, ModuleVal, Opaque, Ref, Rope, SuperVal, SymBytes, SymSeq, Unsupported, is_intlike, is_sym, is_symbool, is_symint,
    to_z3bool, to_z3int,
)

BITAND = z3.Function("bitand", z3.IntSort(), z3.IntSort(), z3.IntSort())
POW2 = z3.Function("pow2", z3.IntSort(), z3.IntSort())
HEXLEN = z3.Function("hexdigits", z3.IntSort(), z3.IntSort())
BITLEN = z3.Function("bit_length", z3.IntSort(), z3.IntSort())
PARSE_INT = z3.Function("parse_int", z3.IntSort(), z3.IntSort(), z3.IntSort())


def V(v, st):
    return [("val", v, st)]


def E(I, cls, st, *args):
    return [("exc", I.mkexc(cls, *args), st)]


# ---------------------------------------------------------------------------------------------- bit operations
def and_const(x, c):
    """x & c for a z3 Int x and a Python int c (either sign), exact."""
    if c < 0:
        return x - and_const(x, ~c)
    tot = z3.IntVal(0)
    i = 0
    while c >> i:
        if (c >> i) & 1:
            j = i
            while (c >> j) & 1:
                j += 1
            part = (x / (1 << i)) % (1 << (j - i)) if i else x % (1 << j)
            tot = tot + part * (1 << i)
            i = j
        else:
            i += 1
    return z3.simplify(tot)


def bitand(I, a, b, st):
    if not is_sym(a) and not is_sym(b):
        return a & b
    if not is_sym(b):
        return and_const(to_z3int(a), int(b))
    if not is_sym(a):
        return and_const(to_z3int(b), int(a))
    a, b = to_z3int(a), to_z3int(b)
    # disjointness: a multiple of 2^k, 0 <= b < 2^k (either order)
    for k in (8, 15, 16, 24):
        m = 1 << k
        if I.entails(st.pc, z3.And(a % m == 0, b >= 0, b < m)) or I.entails(st.pc, z3.And(b % m == 0, a >= 0, a < m)):
            return z3.IntVal(0)
    st.assumed.append("bitand(x,y) of two symbolic ints left uninterpreted")
    return BITAND(a, b)


def pyfloordiv(I, a, b, st, node):
    """a // b and a % b -> list of ('val', (q, r), st) | exc paths"""
    if not is_sym(a) and not is_sym(b):
        if b == 0:
            return E(I, "ZeroDivisionError", st)
        return V((a // b, a % b), st)
    a, b = to_z3int(a), to_z3int(b)
    out = []
    for z, s in I.split(b == 0, st):
        if z:
            out += E(I, "ZeroDivisionError", s)
            continue
        for pos, s2 in I.split(b > 0, s):
            if pos:
                out += V((a / b, a % b), s2)
            else:
                # floor division by a negative divisor: floor(a/b) = floor((-a)/(-b))
                out += V(((-a) / (-b), -((-a) % (-b))), s2)
    return out


def do_binop(I, op, a, b, st, node=None):
    # object protocol first
    if isinstance(a, Ref):
        o = I.hget(st, a)
        if isinstance(o, HInst):
            dunder = {"Add": "__add__", "Sub": "__sub__", "BitOr": "__or__"}.get(op)
            found = I.index.find_method(o.cls, dunder) if dunder else None
            if found:
                fn, mod, cls = found
                return I.call_function(fn, mod, cls, [a, b], {}, st, f"{cls}.{dunder}")
            raise Unsupported(f"operator {op} on instance of {o.cls}", node)
        if isinstance(o, HList) and op == "Add" and isinstance(b, Ref) and isinstance(I.hget(st, b), HList):
            return V(I.alloc(st, HList(o.items + I.hget(st, b).items)), st)
        if op == "Add" and isinstance(o, (HList, HSymList)) and isinstance(b, Ref) and isinstance(I.hget(st, b), (HList, HSymList)):
            return V(I.alloc(st, symlist_concat(I, o, I.hget(st, b), st)), st)
        if isinstance(o, HList) and op == "Mult" and isinstance(b, int):
            return V(I.alloc(st, HList(o.items * b)), st)
        if isinstance(o, HDict) and op == "BitOr" and isinstance(b, Ref):
            d = dict(o.items)
            d.update(I.hget(st, b).items)
            return V(I.alloc(st, HDict(d)), st)
        raise Unsupported(f"operator {op} on {o.kind}", node)
    # sequences
    if op == "Add":
        if isinstance(a, str) and isinstance(b, str):
            return V(a + b, st)
        if isinstance(a, (str, Opaque)) and isinstance(b, (str, Opaque)):
            return V(Opaque("str"), st)
        if isinstance(a, (bytes, SymBytes)) and isinstance(b, (bytes, SymBytes)):
            return V(bytes_concat(a, b), st)
        if isinstance(a, (bytes, SymBytes, SymSeq, Rope)) and isinstance(b, (bytes, SymBytes, SymSeq, Rope)):
            return V(rope_norm(Rope([a, b])), st)
        if isinstance(a, tuple) and isinstance(b, tuple):
            return V(a + b, st)
    if op == "Mult":
        if isinstance(a, (bytes, SymBytes)) and seq_len(a) == 1 and is_symint(b):
            # one byte repeated a symbolic number of times: constant array
            x = to_z3int(seq_at(a, 0))
            return V(SymSeq(z3.K(z3.IntSort(), x), 0, z3.simplify(z3.If(b > 0, b, 0))), st)
        if isinstance(a, (str, bytes, tuple)) and isinstance(b, int) and not is_sym(b):
            return V(a * b, st)
        if isinstance(b, (str, bytes, tuple)) and isinstance(a, int) and not is_sym(a):
            return V(a * b, st)
        if isinstance(a, str) and is_sym(b):
            return V(Opaque("str"), st)
    if op == "Mod" and isinstance(a, str):
        return V(Opaque("str"), st)
    if not (is_intlike(a) or is_symbool(a)) or not (is_intlike(b) or is_symbool(b)):
        if op == "Div" and isinstance(a, float) or isinstance(b, float):
            raise Unsupported("float arithmetic", node)
        return E(I, "TypeError", st, f"unsupported operand types for {op}")
    sym = is_sym(a) or is_sym(b)
    if not sym:
        try:
            r = {
                "Add": lambda: a + b, "Sub": lambda: a - b, "Mult": lambda: a * b,
                "FloorDiv": lambda: a // b, "Mod": lambda: a % b,
                "BitAnd": lambda: a & b, "BitOr": lambda: a | b, "BitXor": lambda: a ^ b,
                "LShift": lambda: a << b, "RShift": lambda: a >> b, "Pow": lambda: a ** b,
                "Div": lambda: TrueDiv(a, b),
            }[op]()
        except ZeroDivisionError:
            return E(I, "ZeroDivisionError", st)
        except ValueError:
            return E(I, "ValueError", st, "negative shift count")
        except KeyError:
            raise Unsupported(f"operator {op}", node)
        return V(r, st)
    za, zb = to_z3int(a), to_z3int(b)
    if op == "Add":
        return V(za + zb, st)
    if op == "Sub":
        return V(za - zb, st)
    if op == "Mult":
        return V(za * zb, st)
    if op in ("FloorDiv", "Mod"):
        out = []
        for k, qr, s in pyfloordiv(I, a, b, st, node):
            out.append((k, (qr[0] if op == "FloorDiv" else qr[1]) if k == "val" else qr, s))
        return out
    if op == "Div":
        return V(TrueDiv(a, b), st)
    if op == "BitAnd":
        return V(bitand(I, a, b, st), st)
    if op == "BitOr":
        return V(za + zb - to_z3int(bitand(I, a, b, st)), st)
    if op == "BitXor":
        return V(za + zb - 2 * to_z3int(bitand(I, a, b, st)), st)
    if op in ("LShift", "RShift"):
        if not is_sym(b):
            if b < 0:
                return E(I, "ValueError", st, "negative shift count")
            return V(za * (1 << b) if op == "LShift" else za / (1 << b), st)
        out = []
        for neg, s in I.split(zb < 0, st):
            if neg:
                out += E(I, "ValueError", s, "negative shift count")
            else:
                s.pc.append(POW2(zb) >= 1)
                p = POW2(zb)
                out += V(za * p if op == "LShift" else za / p, s)
        return out
    raise Unsupported(f"operator {op}", node)


class TrueDiv:
    """x / c kept exact (rational); only int(x / c) is supported."""

    def __init__(self, num, den):
        self.num = num
        self.den = den


def bytes_concat(a, b):
    ai = list(a) if isinstance(a, bytes) else list(a.items)
    bi = list(b) if isinstance(b, bytes) else list(b.items)
    r = ai + bi
    if all(isinstance(x, int) for x in r):
        return bytes(r)
    return SymBytes(r)


def rope_norm(r):
    """A rope of a single chunk is that chunk; an empty rope is b''."""
    if not r.chunks:
        return b""
    if len(r.chunks) == 1:
        c = r.chunks[0]
        if isinstance(c, SymBytes) and all(isinstance(x, int) for x in c.items):
            return bytes(c.items)
        return c
    return r


def as_chunks(v):
    if isinstance(v, Rope):
        return list(v.chunks)
    return list(Rope([v]).chunks)


def rope_at(chunks, i):
    """element i of the concatenation (i a z3 Int, assumed in range)"""
    r = z3.IntVal(0)
    offs = []
    acc = 0
    for c in chunks:
        offs.append(acc)
        acc = acc + to_z3int(seq_len(c)) if not isinstance(acc, int) or is_sym(seq_len(c)) else acc + seq_len(c)
    for c, o in reversed(list(zip(chunks, offs))):
        r = z3.If(i >= o, to_z3int(seq_at(c, i - o)), r)
    return r


def rope_equal(I, a, b, st, node=None):
    ca, cb = as_chunks(a), as_chunks(b)
    if len(ca) == len(cb) and all(type(x) is type(y) and (not isinstance(x, SymBytes) or len(x.items) == len(y.items)) for x, y in zip(ca, cb)):
        r = True
        for x, y in zip(ca, cb):
            r = I.conj(r, equal(I, x, y, st, node))
        return r
    la = sum_len(ca)
    lb = sum_len(cb)
    i = z3.Int("i!rope")
    return z3.And(to_z3int(la) == to_z3int(lb), z3.ForAll([i], z3.Implies(z3.And(i >= 0, i < to_z3int(la)), rope_at(ca, i) == rope_at(cb, i))))


def sum_len(chunks):
    t = 0
    for c in chunks:
        n = seq_len(c)
        t = (to_z3int(t) + to_z3int(n)) if (is_sym(t) or is_sym(n)) else t + n
    return z3.simplify(t) if is_sym(t) else t


def seq_len(v):
    if isinstance(v, Rope):
        return sum_len(v.chunks)
    if isinstance(v, (bytes, str)):
        return len(v)
    if isinstance(v, SymBytes):
        return len(v.items)
    return v.length


def seq_at(v, i):
    """element i of a byte sequence (i is int or z3 Int, assumed in range)"""
    if isinstance(v, SymSeq):
        return v.at(i)
    items = list(v) if isinstance(v, bytes) else list(v.items)
    if isinstance(i, int):
        return items[i]
    r = z3.IntVal(0)
    for k in range(len(items) - 1, -1, -1):
        r = z3.If(i == k, to_z3int(items[k]), r)
    return r


def seq_concat(I, a, b, st):
    """Concatenation with a symbolic-length part: a fresh array defined pointwise by a quantified axiom."""
    la, lb = seq_len(a), seq_len(b)
    if isinstance(lb, int) and lb == 0:
        return a
    if isinstance(la, int) and la == 0:
        return b
    arr = I.fresh_arr("cat")
    i = z3.Int("i!q")
    st.pc.append(z3.ForAll([i], z3.Implies(z3.And(i >= 0, i < la), z3.Select(arr, i) == to_z3int(seq_at(a, i)))))
    st.pc.append(z3.ForAll([i], z3.Implies(z3.And(i >= 0, i < lb), z3.Select(arr, la + i) == to_z3int(seq_at(b, i)))))
    return SymSeq(arr, 0, z3.simplify(to_z3int(la) + to_z3int(lb)))


def symlist_concat(I, a, b, st):
    """a ++ b where at least one side has symbolic length"""
    if isinstance(a, HList) and isinstance(b, HSymList):
        return HSymList(b.length, b.mk, tuple(a.items) + b.prefix, b.tail, b.what)
    if isinstance(a, HSymList) and isinstance(b, HList):
        return HSymList(a.length, a.mk, a.prefix, a.tail + tuple(b.items), a.what)
    # both symbolic: only the length is tracked; reading an element is outside the subset
    def mk(I2, st2, idx):
        raise Unsupported("element of a concatenation of two lists of symbolic length")
    return HSymList(to_z3int(a.length) + len(a.tail) + len(b.prefix) + to_z3int(b.length), mk, a.prefix, b.tail, a.what)


def symlist_getitem(I, o, i, st, node=None):
    """o[i] for a list of symbolic length: IndexError outside, prefix / generated element / tail inside"""
    zi = to_z3int(i)
    n = o.total()
    out = []
    for b, s in I.split(z3.And(zi >= -n, zi < n), st):
        if not b:
            out += E(I, "IndexError", s)
            continue
        for neg, s2 in I.split(zi < 0, s):
            idx = z3.simplify(zi + n) if neg else zi
            np_ = len(o.prefix)
            # prefix
            rest = [s2]
            for k in range(np_):
                nxt = []
                for s3 in rest:
                    for hit, s4 in I.split(idx == k, s3):
                        if hit:
                            out.append(("val", o.prefix[k], s4))
                        else:
                            nxt.append(s4)
                rest = nxt
            for s3 in rest:
                for inmid, s4 in I.split(idx < np_ + to_z3int(o.length), s3):
                    if inmid:
                        j = z3.simplify(idx - np_)
                        out.append(("val", o.mk(I, s4, j), s4))
                        continue
                    rest2 = [s4]
                    for k in range(len(o.tail)):
                        nxt = []
                        for s5 in rest2:
                            for hit, s6 in I.split(idx == np_ + to_z3int(o.length) + k, s5):
                                if hit:
                                    out.append(("val", o.tail[k], s6))
                                else:
                                    nxt.append(s6)
                        rest2 = nxt
    return out


def do_augop(I, op, cur, v, st, node=None):
    if isinstance(cur, Ref):
        o = I.hget(st, cur)
        if isinstance(o, (HList, HSymList)) and op == "Add" and isinstance(v, Ref) and isinstance(I.hget(st, v), HSymList) or isinstance(o, HSymList) and op == "Add":
            other = I.hget(st, v) if isinstance(v, Ref) else HList(I.iterate(v, st, node))
            st.heap[cur.oid] = symlist_concat(I, o, other, st)  # in place: the list object keeps its identity
            return V(cur, st)
        if isinstance(o, HList) and op == "Add":
            items = I.iterate(v, st, node)
            I.hmut(st, cur).items.extend(items)
            return V(cur, st)
        if isinstance(o, HDict) and op == "BitOr":
            if isinstance(v, Ref):
                I.hmut(st, cur).items.update(I.hget(st, v).items)
                return V(cur, st)
    return do_binop(I, op, cur, v, st, node)


# ---------------------------------------------------------------------------------------------- comparison
def do_compare(I, op, a, b, st, node=None):
    if op in ("Is", "IsNot"):
        r = identical(I, a, b, st)
        return V(r if op == "Is" else I.neg(r), st)
    if op in ("In", "NotIn"):
        out = []
        for k, r, s in contains(I, b, a, st, node):
            out.append((k, (r if op == "In" else I.neg(r)) if k == "val" else r, s))
        return out
    if op in ("Eq", "NotEq"):
        if isinstance(a, Ref):
            o = I.hget(st, a)
            if isinstance(o, HInst):
                found = I.index.find_method(o.cls, "__eq__")
                if found:
                    fn, mod, cls = found
                    out = []
                    for k, r, s in I.call_function(fn, mod, cls, [a, b], {}, st, f"{cls}.__eq__"):
                        if k == "val" and op == "NotEq":
                            t = I.truth_term(r, s)
                            r = I.neg(t)
                        out.append((k, r, s))
                    return out
        r = equal(I, a, b, st, node)
        return V(r if op == "Eq" else I.neg(r), st)
    if is_intlike(a) or is_symbool(a):
        if not (is_intlike(b) or is_symbool(b)):
            return E(I, "TypeError", st, "ordering comparison of int with non-int")
        if not is_sym(a) and not is_sym(b):
            return V({"Lt": a < b, "LtE": a <= b, "Gt": a > b, "GtE": a >= b}[op], st)
        za, zb = to_z3int(a), to_z3int(b)
        return V({"Lt": za < zb, "LtE": za <= zb, "Gt": za > zb, "GtE": za >= zb}[op], st)
    if isinstance(a, (str, bytes, tuple)) and type(a) is type(b):
        return V({"Lt": a < b, "LtE": a <= b, "Gt": a > b, "GtE": a >= b}[op], st)
    raise Unsupported(f"comparison {op} of {a!r} and {b!r}", node)


def identical(I, a, b, st):
    if a is None or b is None:
        return a is None and b is None
    if isinstance(a, bool) and isinstance(b, bool):
        return a == b
    if is_symbool(a) and isinstance(b, bool):
        return a if b else z3.Not(a)
    if is_symbool(b) and isinstance(a, bool):
        return b if a else z3.Not(b)
    if isinstance(a, bool) or isinstance(b, bool):
        # `x is True/False` for a non-bool x (ints included: 0 is not False)
        return False
    if isinstance(a, Ref) and isinstance(b, Ref):
        return a.oid == b.oid
    if isinstance(a, SymEnum) or isinstance(b, SymEnum):
        return symenum_equal(a, b)
    if isinstance(a, (EnumVal, ClassVal, FuncVal)) and type(a) is type(b):
        return a == b
    if isinstance(a, Ref) or isinstance(b, Ref):
        return False
    if is_intlike(a) and is_intlike(b):
        raise Unsupported("identity test on integers")
    return a is b


def symenum_equal(a, b):
    """enum members are singletons without a user __eq__: == and `is` coincide"""
    if isinstance(b, SymEnum) and not isinstance(a, SymEnum):
        a, b = b, a
    if isinstance(b, SymEnum):
        return (to_z3int(a.code) == to_z3int(b.code)) if a.cls == b.cls else False
    if isinstance(b, EnumVal) and b.cls == a.cls:
        return to_z3int(a.code) == a.members.index(b.name)
    return False


def equal(I, a, b, st, node=None):
    """a == b as bool or z3 Bool (no user __eq__)"""
    if a is None or b is None:
        return a is None and b is None
    if isinstance(a, SymEnum) or isinstance(b, SymEnum):
        return symenum_equal(a, b)
    if (is_intlike(a) or is_symbool(a)) and (is_intlike(b) or is_symbool(b)):
        if not is_sym(a) and not is_sym(b):
            return a == b
        if is_symbool(a) and is_symbool(b):
            return a == b
        return to_z3int(a) == to_z3int(b)
    if isinstance(a, str) and isinstance(b, str):
        return a == b
    if isinstance(a, (SymSeq, LoweredSeq)) and a.kind == "str" and isinstance(b, str):
        a, b = b, a
    if isinstance(a, str) and isinstance(b, LoweredSeq):
        return symstr_equals(b, a)
    if isinstance(a, str) and isinstance(b, SymSeq) and b.kind == "str":
        if is_sym(b.length):
            r = to_z3int(b.length) == len(a)
            for k, c in enumerate(a):
                r = z3.And(r, b.at(k) == ord(c))
            return r
        return str_equal(b, a)
    if isinstance(a, SymChar) or isinstance(b, SymChar):
        if isinstance(b, SymChar):
            a, b = b, a
        if isinstance(b, SymChar):
            return a.code == b.code
        if isinstance(b, str):
            return (a.code == ord(b)) if len(b) == 1 else False
        return False
    if isinstance(a, Rope) or isinstance(b, Rope):
        if isinstance(a, (bytes, SymBytes, SymSeq, Rope)) and isinstance(b, (bytes, SymBytes, SymSeq, Rope)):
            return rope_equal(I, a, b, st, node)
        return False
    if isinstance(a, (bytes, SymBytes, SymSeq)) and isinstance(b, (bytes, SymBytes, SymSeq)):
        la, lb = seq_len(a), seq_len(b)
        if isinstance(la, int) and isinstance(lb, int):
            if la != lb:
                return False
            r = True
            for i in range(la):
                r = I.conj(r, equal(I, seq_at(a, i), seq_at(b, i), st))
            return r
        # one side of symbolic length against a concrete-length side
        if isinstance(lb, int):
            a, b, la, lb = b, a, lb, la
        if isinstance(la, int):
            r = to_z3int(lb) == la
            for i in range(la):
                r = z3.And(r, to_z3int(seq_at(a, i)) == seq_at(b, i))
            return r
        if isinstance(a, SymSeq) and isinstance(b, SymSeq) and a.arr.eq(b.arr) and z3.simplify(to_z3int(a.off) == to_z3int(b.off)).eq(z3.BoolVal(True)):
            return to_z3int(la) == to_z3int(lb)
        i = z3.Int("i!eq")
        return z3.And(to_z3int(la) == to_z3int(lb),
                      z3.ForAll([i], z3.Implies(z3.And(i >= 0, i < to_z3int(la)), to_z3int(seq_at(a, i)) == to_z3int(seq_at(b, i)))))
    if isinstance(a, tuple) and isinstance(b, tuple):
        if len(a) != len(b):
            return False
        r = True
        for x, y in zip(a, b):
            r = I.conj(r, equal(I, x, y, st, node))
        return r
    if isinstance(a, Ref) and isinstance(b, Ref):
        if a.oid == b.oid:
            return True
        oa, ob = I.hget(st, a), I.hget(st, b)
        if isinstance(oa, HList) and isinstance(ob, HList):
            return equal(I, tuple(oa.items), tuple(ob.items), st, node)
        if isinstance(oa, HDict) and isinstance(ob, HDict):
            if set(oa.items) != set(ob.items):
                return False
            r = True
            for k in oa.items:
                r = I.conj(r, equal(I, oa.items[k], ob.items[k], st, node))
            return r
        if isinstance(oa, HInst) and isinstance(ob, HInst):
            return False  # default identity equality
        return False
    if isinstance(a, (EnumVal, ClassVal, FuncVal)) or isinstance(b, (EnumVal, ClassVal, FuncVal)):
        return a == b
    if isinstance(a, frozenset) and isinstance(b, frozenset):
        return a == b
    if type(a) is not type(b):
        if is_sym(a) or is_sym(b):
            return False if not (is_intlike(a) or is_symbool(a)) or not (is_intlike(b) or is_symbool(b)) else None
        return False
    raise Unsupported(f"equality of {a!r} and {b!r}", node)


def contains(I, container, item, st, node=None):
    if isinstance(container, str):
        if isinstance(item, SymChar):
            return V(z3.Or(*[item.code == ord(c) for c in container]) if container else False, st)
        if isinstance(item, str):
            return V(item in container, st)
        if item is None:
            return E(I, "TypeError", st, "'in <string>' requires string as left operand")
        raise Unsupported("symbolic substring test", node)
    if isinstance(container, (tuple, frozenset)):
        items = list(container)
    elif isinstance(container, Ref):
        o = I.hget(st, container)
        if isinstance(o, HList):
            items = o.items
        elif isinstance(o, HDict):
            items = list(o.items.keys())
        elif isinstance(o, HSymMap):
            code = z3.Select(o.arr, to_z3int(item))
            st.pc.append(z3.Or(code == HSymMap.ABSENT, *[code == c for c in o.values]))  # shape: finite codomain
            return V(code != HSymMap.ABSENT, st)
        else:
            raise Unsupported("membership in object", node)
    elif isinstance(container, (bytes, SymBytes)):
        items = list(container) if isinstance(container, bytes) else list(container.items)
    else:
        raise Unsupported(f"membership in {container!r}", node)
    if isinstance(item, (SymSeq, LoweredSeq)) and item.kind == "str":
        r = False
        for x in items:
            if isinstance(x, str):
                e = symstr_equals(item, x)
                r = I.disj(r, e)
        return V(r, st)
    r = False
    for x in items:
        if isinstance(x, Ref) or isinstance(item, Ref):
            # list membership uses ==, which may be user defined; keep to identity / structural for refs
            e = identical(I, x, item, st) if isinstance(x, Ref) and isinstance(item, Ref) else False
        else:
            e = equal(I, x, item, st, node)
        r = I.disj(r, e)
        if r is True:
            break
    return V(r, st)


# ---------------------------------------------------------------------------------------------- subscripts
def group_lookup(I, d: dict, key, st):
    """Lookup of a symbolic int key in a dict with concrete keys -> forks grouped by value identity."""
    groups = {}
    order = []
    for k, v in d.items():
        if not isinstance(k, int):
            continue
        ident = v.oid if isinstance(v, Ref) else ("v", repr(v))
        if ident not in groups:
            groups[ident] = (v, [])
            order.append(ident)
        groups[ident][1].append(k)
    out = []
    anyc = False
    for ident in order:
        v, ks = groups[ident]
        cond = keys_cond(key, ks)
        anyc = z3.Or(anyc, cond) if anyc is not False else cond
        for b, s in I.split(cond, st.fork()):
            if b:
                out.append(("val", v, s))
    miss = z3.Not(anyc) if anyc is not False else True
    for b, s in I.split(miss, st.fork()):
        if b:
            out.append(("exc", I.mkexc("KeyError", key), s))
    return out


def str_equal(seq, text):
    """symbolic string (concrete length) == concrete text"""
    if seq.length != len(text):
        return False
    r = True
    for k, c in enumerate(text):
        e = seq.at(k) == ord(c)
        r = e if r is True else z3.And(r, e)
    return r


def symstr_equals(seq, text):
    """(possibly symbolic-length) symbolic string == concrete text"""
    n = seq.length
    if not is_sym(n):
        if n != len(text):
            return False
        r = True
    else:
        r = to_z3int(n) == len(text)
    for k, c in enumerate(text):
        e = seq.at(k) == ord(c)
        r = e if r is True else z3.And(r, e)
    return r


def ensure_concrete_key(i, node=None):
    """dict operations that compare keys natively: a key the engine only knows symbolically must not silently miss"""
    if is_sym(i) or isinstance(i, (SymSeq, LoweredSeq, SymChar, SymBytes, Rope, Opaque, SymEnum, HexStr)):
        raise Unsupported(f"dictionary operation with a symbolic key ({type(i).__name__})", node)


def keys_cond(key, ks):
    ks = sorted(ks)
    runs = []
    for k in ks:
        if runs and runs[-1][1] == k - 1:
            runs[-1][1] = k
        else:
            runs.append([k, k])
    parts = [key == a if a == b else z3.And(key >= a, key <= b) for a, b in runs]
    return z3.Or(*parts) if len(parts) > 1 else parts[0]


def do_getitem(I, c, i, st, node=None):
    if isinstance(c, Ref):
        o = I.hget(st, c)
        if isinstance(o, HDict):
            if isinstance(i, SymChar):
                out = []
                conds = []
                for k, v in o.items.items():
                    if isinstance(k, str) and len(k) == 1:
                        cond = i.code == ord(k)
                        conds.append(cond)
                        for b, s2 in I.split(cond, st.fork()):
                            if b:
                                out.append(("val", v, s2))
                for b, s2 in I.split(z3.Not(z3.Or(*conds)) if conds else True, st.fork()):
                    if b:
                        out.append(("exc", I.mkexc("KeyError", "symbolic character"), s2))
                return out
            if isinstance(i, (SymSeq, LoweredSeq)):
                # symbolic string / bytes key (also of symbolic length, also lower-cased): one path per matching concrete key, KeyError otherwise
                out = []
                conds = []
                for k, v in o.items.items():
                    if isinstance(k, (str, bytes)) and (is_sym(i.length) or len(k) == i.length):
                        cond = equal(I, i, k if isinstance(k, bytes) else k.encode("latin-1"), st, node) if i.kind == "bytes" else symstr_equals(i, k)
                        if cond is False:
                            continue
                        conds.append(cond)
                        for b, s2 in I.split(cond, st.fork()):
                            if b:
                                out.append(("val", v, s2))
                miss = z3.Not(z3.Or(*conds)) if conds else True
                for b, s2 in I.split(miss, st.fork()):
                    if b:
                        out.append(("exc", I.mkexc("KeyError", "symbolic key"), s2))
                return out
            if is_sym(i):
                return group_lookup(I, o.items, to_z3int(i), st)
            if isinstance(i, (SymBytes, Rope, Opaque, SymEnum, HexStr)):
                raise Unsupported(f"dictionary lookup with a key the engine cannot compare ({type(i).__name__})", node)
            try:
                hash(i)
            except TypeError:
                raise Unsupported("unhashable key", node)
            if i in o.items:
                return V(o.items[i], st)
            return E(I, "KeyError", st, i)
        if isinstance(o, HList):
            return index_seq(I, o.items, i, st, node)
        if isinstance(o, HSymList):
            return symlist_getitem(I, o, i, st, node)
        if isinstance(o, HSymMap):
            out = []
            code = z3.Select(o.arr, to_z3int(i))
            st.pc.append(z3.Or(code == HSymMap.ABSENT, *[code == c for c in o.values]))  # shape: finite codomain
            for cval, v in o.values.items():
                for b, s in I.split(code == cval, st.fork()):
                    if b:
                        out.append(("val", v, s))
            for b, s in I.split(code == HSymMap.ABSENT, st.fork()):
                if b:
                    out.append(("exc", I.mkexc("KeyError", i), s))
            return out
        if isinstance(o, HInst):
            found = I.index.find_method(o.cls, "__getitem__")
            if found:
                fn, mod, cls = found
                return I.call_function(fn, mod, cls, [c, i], {}, st, f"{cls}.__getitem__")
        raise Unsupported("subscript on object", node)
    if isinstance(c, (tuple,)):
        return index_seq(I, list(c), i, st, node)
    if isinstance(c, str):
        if is_sym(i):
            raise Unsupported("symbolic index into concrete str", node)
        if -len(c) <= i < len(c):
            return V(c[i], st)
        return E(I, "IndexError", st)
    if isinstance(c, bytes):
        return index_seq(I, list(c), i, st, node)
    if isinstance(c, SymBytes):
        return index_seq(I, list(c.items), i, st, node)
    if isinstance(c, SymSeq):
        out = []
        zi = to_z3int(i)
        ok = z3.And(zi >= -to_z3int(c.length), zi < c.length)
        for b, s in I.split(ok, st):
            if not b:
                out += E(I, "IndexError", s)
                continue
            for neg, s2 in I.split(zi < 0, s):
                idx = zi + c.length if neg else zi
                v = c.at(idx)
                if c.kind == "bytes":
                    s2.pc.append(z3.And(v >= 0, v <= 255))
                out += V(v if c.kind == "bytes" else SymChar(v), s2)
        return out
    if isinstance(c, Opaque):
        return V(Opaque("item"), st)
    if isinstance(c, ClassVal) and I.lifter is not None and I.lifter.is_enum(c.qualname) and isinstance(i, str):
        try:
            return V(I.lifter.enum_member(c.qualname, i), st)
        except KeyError:
            return E(I, "KeyError", st, i)
    raise Unsupported(f"subscript of {c!r}", node)


class SymChar:
    """A one-character string whose code point is a z3 Int."""

    def __init__(self, code):
        self.code = code


def index_seq(I, items, i, st, node=None):
    n = len(items)
    if not is_sym(i):
        if not isinstance(i, int):
            return E(I, "TypeError", st, "indices must be integers")
        if -n <= i < n:
            return V(items[i], st)
        return E(I, "IndexError", st)
    zi = to_z3int(i)
    out = []
    for k in range(n):
        for b, s in I.split(z3.Or(zi == k, zi == k - n), st.fork()):
            if b:
                out.append(("val", items[k], s))
    for b, s in I.split(z3.Or(zi >= n, zi < -n), st.fork()):
        if b:
            out += E(I, "IndexError", s)
    return out


def do_setitem(I, c, i, v, st, node=None):
    if isinstance(c, Ref):
        o = I.hget(st, c)
        if isinstance(o, HAbstract):
            return [("next", None, st)]
        if isinstance(o, HDict):
            if isinstance(i, (SymSeq, LoweredSeq, SymChar)):
                st.heap[c.oid] = HAbstract("dict")  # contents unknown from here on; every later read is Unsupported
                return [("next", None, st)]
            ensure_concrete_key(i, node)
            I.hmut(st, c).items[i] = v
            return [("next", None, st)]
        if isinstance(o, HList):
            if is_sym(i):
                raise Unsupported("store at a symbolic list index", node)
            if -len(o.items) <= i < len(o.items):
                I.hmut(st, c).items[i] = v
                return [("next", None, st)]
            return E(I, "IndexError", st)
        if isinstance(o, HSymMap):
            code = None
            for cv, val in o.values.items():
                if val is v or val == v:
                    code = cv
            if code is None:
                code = max(o.values, default=0) + 1
            m = I.hmut(st, c)
            m.values = dict(m.values)
            m.values[code] = v
            m.arr = z3.Store(m.arr, to_z3int(i), code)
            return [("next", None, st)]
    raise Unsupported("subscript store", node)


def do_delitem(I, c, i, st, node=None):
    if isinstance(c, Ref):
        o = I.hget(st, c)
        if isinstance(o, HDict) and not is_sym(i):
            ensure_concrete_key(i, node)
            if i in o.items:
                del I.hmut(st, c).items[i]
                return [("next", None, st)]
            return E(I, "KeyError", st, i)
    raise Unsupported("del subscript", node)


def clamp_index(I, idx, n, default, st):
    """Python slice index normalisation for a sequence of length n (concrete ints only, or simple symbolic)."""
    if idx is None:
        return default
    if not is_sym(idx) and not is_sym(n):
        if idx < 0:
            idx += n
        return max(0, min(n, idx))
    zi, zn = to_z3int(idx), to_z3int(n)
    zi = z3.If(zi < 0, zi + zn, zi)
    return z3.simplify(z3.If(zi < 0, 0, z3.If(zi > zn, zn, zi)))


def do_slice(I, c, lo, hi, step, st, node=None):
    if step is not None:
        raise Unsupported("slice step", node)
    if isinstance(c, Ref):
        o = I.hget(st, c)
        if isinstance(o, HList):
            if is_sym(lo) or is_sym(hi):
                raise Unsupported("symbolic slice of list", node)
            return V(I.alloc(st, HList(o.items[lo:hi])), st)
        raise Unsupported("slice of object", node)
    if isinstance(c, (str, bytes, tuple)) and not is_sym(lo) and not is_sym(hi):
        return V(c[lo:hi], st)
    if isinstance(c, SymBytes) and not is_sym(lo) and not is_sym(hi):
        r = c.items[lo:hi]
        return V(bytes(r) if all(isinstance(x, int) for x in r) else SymBytes(r), st)
    if isinstance(c, (bytes, SymBytes)):
        # symbolic bounds on a concrete-length byte string: go through an array
        arr = I.fresh_arr("b")
        items = list(c) if isinstance(c, bytes) else list(c.items)
        for k, x in enumerate(items):
            st.pc.append(z3.Select(arr, k) == to_z3int(x))
        c = SymSeq(arr, 0, len(items))
    if isinstance(c, SymSeq):
        n = c.length
        a = clamp_index(I, lo, n, 0, st)
        b = clamp_index(I, hi, n, n, st)
        if not is_sym(a) and not is_sym(b) and not is_sym(c.off):
            return V(SymSeq(c.arr, c.off + a, max(0, b - a), c.kind), st)
        za, zb = to_z3int(a), to_z3int(b)
        ln = z3.simplify(z3.If(zb > za, zb - za, 0))
        off = z3.simplify(to_z3int(c.off) + za)
        return V(SymSeq(c.arr, off.as_long() if z3.is_int_value(off) else off, ln.as_long() if z3.is_int_value(ln) else ln, c.kind), st)
    raise Unsupported(f"slice of {c!r}", node)


# ---------------------------------------------------------------------------------------------- struct
STRUCT_FIELDS = {"B": (1, False), "b": (1, True), "H": (2, False), "h": (2, True), "I": (4, False), "L": (4, False), "i": (4, True), "l": (4, True),
                 "q": (8, True), "Q": (8, False)}


def parse_fmt(fmt):
    order = "@"
    if fmt and fmt[0] in "<>=!@":
        order = fmt[0]
        fmt = fmt[1:]
    fields = []
    for ch in fmt:
        if ch not in STRUCT_FIELDS:
            raise Unsupported(f"struct format {fmt!r}")
        fields.append(STRUCT_FIELDS[ch])
    if order in "@=" and any(sz > 1 for sz, _ in fields):
        raise Unsupported(f"native byte order struct format {fmt!r}")
    return ("big" if order in ">!" else "little"), fields


def struct_pack(I, fmt, args, st, node=None):
    if not isinstance(fmt, str):
        raise Unsupported("symbolic struct format", node)
    order, fields = parse_fmt(fmt)
    if len(fields) != len(args):
        return E(I, "struct.error", st, "wrong number of items")
    conds = []
    for (sz, signed), a in zip(fields, args):
        if not (is_intlike(a)):
            return E(I, "struct.error", st, "required argument is not an integer")
        lo = -(1 << (8 * sz - 1)) if signed else 0
        hi = (1 << (8 * sz - 1)) - 1 if signed else (1 << (8 * sz)) - 1
        if is_sym(a):
            conds.append(z3.And(a >= lo, a <= hi))
        elif not (lo <= a <= hi):
            return E(I, "struct.error", st, "argument out of range")
    out = []
    ok = z3.And(*conds) if conds else True
    for b, s in I.split(ok, st):
        if not b:
            out += E(I, "struct.error", s, "argument out of range")
            continue
        res = []
        for (sz, signed), a in zip(fields, args):
            if is_sym(a):
                u = a + (1 << (8 * sz)) if False else a
                if signed:
                    u = z3.If(a < 0, a + (1 << (8 * sz)), a)
                bs = [z3.simplify((u / (1 << (8 * k))) % 256) if k else z3.simplify(u % 256) for k in range(sz)]
            else:
                u = a % (1 << (8 * sz))
                bs = [(u >> (8 * k)) & 0xFF for k in range(sz)]
            if order == "big":
                bs.reverse()
            res += bs
        out += V(bytes(res) if all(isinstance(x, int) for x in res) else SymBytes(res), s)
    return out


def struct_unpack(I, fmt, data, st, node=None):
    order, fields = parse_fmt(fmt)
    total = sum(sz for sz, _ in fields)
    n = seq_len(data)
    out = []
    for b, s in I.split(to_z3int(n) == total if is_sym(n) else n == total, st):
        if not b:
            out += E(I, "struct.error", s, "unpack requires a buffer of the right size")
            continue
        vals = []
        pos = 0
        for sz, signed in fields:
            bs = []
            for k in range(sz):
                x = seq_at(data, pos + k)
                if is_sym(x):
                    s.pc.append(z3.And(x >= 0, x <= 255))
                bs.append(x)
            pos += sz
            if order == "big":
                bs.reverse()
            v = 0
            for k, x in enumerate(bs):
                v = v + x * (1 << (8 * k))
            if signed:
                if is_sym(v):
                    v = z3.If(v >= (1 << (8 * sz - 1)), v - (1 << (8 * sz)), v)
                elif v >= (1 << (8 * sz - 1)):
                    v -= 1 << (8 * sz)
            vals.append(z3.simplify(v) if is_sym(v) else v)
        out += V(tuple(vals), s)
    return out


# ---------------------------------------------------------------------------------------------- builtins
def _class_may_set_attr(I, cls, attr):
    """does any method of the class (or of its bases) assign self.<attr>?"""
    for q in I.index.mro(cls):
        ci = I.index.classes.get(q)
        if ci is None:
            continue
        for fn in ci.methods.values():
            for n in ast.walk(fn):
                if isinstance(n, ast.Attribute) and isinstance(n.ctx, ast.Store) and n.attr == attr and isinstance(n.value, ast.Name) and n.value.id == "self":
                    return True
    return False


def call_builtin(I, f, args, kwargs, st, node=None):
    name = f.name
    recv = f.recv
    hook = I.builtin_hooks.get(name)
    if hook is not None:
        return hook(I, f, args, kwargs, st, node)
    if name == "noop":
        return V(None, st)
    if name == "len":
        return builtin_len(I, args[0], st, node)
    if name == "isinstance":
        return V(builtin_isinstance(I, args[0], args[1], st, node), st)
    if name in ("getattr", "hasattr"):
        obj, attr = args[0], args[1]
        if not isinstance(attr, str):
            raise Unsupported(f"{name} with a non-constant attribute name", node)
        out = []
        for k, v, s in I.getattr(obj, attr, st, node):
            missing = k == "exc" and isinstance(v, ExcVal) and v.cls == "AttributeError"
            if missing and isinstance(obj, Ref) and isinstance(I.hget(s, obj), HInst) and _class_may_set_attr(I, I.hget(s, obj).cls, attr):
                # the instance was built by a harness shape without this field although the class's own code sets it: do not guess
                raise Unsupported(f"{name}: field {attr} not given in the shape of {I.hget(s, obj).cls}", node)
            if name == "hasattr":
                out.append(("val", not missing, s) if (missing or k == "val") else (k, v, s))
            elif missing and len(args) > 2:
                out.append(("val", args[2], s))
            else:
                out.append((k, v, s))
        return out
    if name == "divmod":
        if not (is_intlike(args[0]) and is_intlike(args[1])):
            raise Unsupported("divmod of non-integers", node)
        return pyfloordiv(I, args[0], args[1], st, node)
    if name == "frozenset":
        return V(frozenset(I.iterate(args[0], st, node)) if args else frozenset(), st)
    if name in ("min", "max"):
        vals = list(args)
        if len(vals) == 1:
            vals = I.iterate(vals[0], st, node)
            if not vals:
                return E(I, "ValueError", st, f"{name}() arg is an empty sequence")
        if "key" in kwargs:
            key = kwargs["key"]
            if isinstance(key, BuiltinVal) and key.name == "len":
                keyed = []
                for v in vals:
                    r = builtin_len(I, v, st, node)
                    keyed.append((r[0][1], v))
                if any(is_sym(k) for k, _ in keyed):
                    raise Unsupported("min/max key symbolic", node)
                pick = (min if name == "min" else max)(keyed, key=lambda kv: kv[0])
                return V(pick[1], st)
            raise Unsupported("min/max with key", node)
        if not any(is_sym(v) for v in vals):
            return V((min if name == "min" else max)(vals), st)
        r = to_z3int(vals[0])
        for v in vals[1:]:
            v = to_z3int(v)
            r = z3.If(v < r, v, r) if name == "min" else z3.If(v > r, v, r)
        return V(z3.simplify(r), st)
    if name == "abs":
        v = args[0]
        return V(abs(v) if not is_sym(v) else z3.If(v < 0, -v, v), st)
    if name == "int":
        return builtin_int(I, args, kwargs, st, node)
    if name == "bool":
        t = I.truth_term(args[0], st) if args else False
        return V(t, st)
    if name == "str":
        v = args[0] if args else ""
        if isinstance(v, str):
            return V(v, st)
        if isinstance(v, int) and not isinstance(v, bool):
            return V(str(v), st)
        if isinstance(v, Ref):
            o = I.hget(st, v)
            if isinstance(o, HInst):
                found = I.index.find_method(o.cls, "__str__")
                if found:
                    fn, mod, cls = found
                    return I.call_function(fn, mod, cls, [v], {}, st, f"{cls}.__str__")
        return V(Opaque("str"), st)
    if name == "repr":
        return V(Opaque("str"), st)
    if name == "hex":
        v = args[0]
        if not is_sym(v):
            return V(hex(v), st)
        return V(HexStr(v), st)
    if name == "bytes":
        if not args:
            return V(b"", st)
        v = args[0]
        if isinstance(v, (bytes, SymBytes)):
            return V(v, st)
        items = I.iterate(v, st, node)
        conds = []
        for x in items:
            if is_sym(x):
                conds.append(z3.And(x >= 0, x <= 255))
            elif not (0 <= x <= 255):
                return E(I, "ValueError", st, "bytes must be in range(0, 256)")
        out = []
        for b, s in I.split(z3.And(*conds) if conds else True, st):
            if b:
                out += V(bytes(items) if all(isinstance(x, int) for x in items) else SymBytes(items), s)
            else:
                out += E(I, "ValueError", s, "bytes must be in range(0, 256)")
        return out
    if name in ("list", "tuple", "sorted", "reversed"):
        items = I.iterate(args[0], st, node) if args else []
        if name == "sorted":
            if any(is_sym(x) for x in items):
                raise Unsupported("sorted on symbolic values", node)
            items = sorted(items)
        if name == "reversed":
            items = list(reversed(items))
        return V(tuple(items) if name == "tuple" else I.alloc(st, HList(items)), st)
    if name == "dict":
        d = {}
        if args:
            src = args[0]
            if isinstance(src, Ref) and isinstance(I.hget(st, src), HDict):
                d.update(I.hget(st, src).items)
            else:
                for pair in I.iterate(src, st, node):
                    k, v = I.iterate(pair, st, node)
                    d[I.hashable(k, node)] = v
        d.update(kwargs)
        return V(I.alloc(st, HDict(d)), st)
    if name == "set":
        # a mutable set object (set literals {a, b} stay immutable values): elements are added one by one so that equal ones are merged
        ref = I.alloc(st, HSet([]))
        out = [("val", ref, st)]
        for x in (I.iterate(args[0], st, node) if args else []):
            nxt = []
            for k, v, s in out:
                for k2, _v2, s2 in set_add(I, ref, x, s, node):
                    nxt.append((k2, ref, s2))
            out = nxt
        return out
    if name == "range":
        if any(is_sym(a) for a in args):
            raise Unsupported("range with symbolic bounds (needs a loop invariant)", node)
        return V(range(*args), st)
    if name == "enumerate":
        items = I.iterate(args[0], st, node)
        start = args[1] if len(args) > 1 else kwargs.get("start", 0)
        return V(tuple((start + k, x) for k, x in enumerate(items)), st)
    if name == "zip":
        lists = [I.iterate(a, st, node) for a in args]
        if kwargs.get("strict") and len({len(l) for l in lists}) > 1:
            return E(I, "ValueError", st, "zip() arguments have different lengths")
        return V(tuple(zip(*lists)), st)
    if name in ("map", "filter"):
        fn = args[0]
        items = I.iterate(args[1], st, node)
        res = [("val", [], st)]
        for x in items:
            nxt = []
            for k, acc, s in res:
                if k == "exc":
                    nxt.append((k, acc, s))
                    continue
                for k2, r, s2 in I.call(fn, [x], {}, s, node):
                    if k2 == "exc":
                        nxt.append((k2, r, s2))
                    elif name == "map":
                        nxt.append(("val", acc + [r], s2))
                    else:
                        for b, s3 in I.branch(r, s2):
                            nxt.append(("val", acc + [x] if b else acc, s3))
            res = nxt
        return [(k, tuple(v) if k == "val" else v, s) for k, v, s in res]
    if name == "iter":
        return V(args[0], st)
    if name == "print":
        st.events.append(("print",))
        return V(None, st)
    if name == "super":
        if args:
            raise Unsupported("super with arguments", node)
        return V(SuperVal(st.env.get("self") or st.env.get(list(st.env)[0]), st.frame.cls), st)
    if name == "open":
        if I.open_hook is None:
            raise Unsupported("open() without a file-system model", node)
        return I.open_hook(I, args, kwargs, st, node)
    if name == "type":
        return V(ClassVal(I.class_of(args[0], st)), st)
    if name == "ord":
        if isinstance(args[0], str):
            return V(ord(args[0]), st)
        if isinstance(args[0], SymChar):
            return V(args[0].code, st)
    if name == "any" or name == "all":
        items = I.iterate(args[0], st, node)
        r = name == "all"
        for x in items:
            t = I.truth_term(x, st)
            r = I.conj(r, t) if name == "all" else I.disj(r, t)
        return V(r, st)
    if name == "Path":
        return V(args[0], st)
    # ---------------- module functions
    if name == "struct.pack":
        return struct_pack(I, args[0], args[1:], st, node)
    if name == "struct.unpack":
        return struct_unpack(I, args[0], args[1], st, node)
    if name.startswith("logging.") or name.startswith("opaque.") and isinstance(recv, Opaque) and recv.what in ("logger",):
        st.events.append(("log", name.split(".")[-1], args[0] if args else None))
        return V(Opaque("logger") if name == "logging.getLogger" else None, st)
    if name == "warnings.warn":
        return V(None, st)
    if name.startswith("ctypes.c_uint"):
        bits = int(name[len("ctypes.c_uint"):])
        v = args[0]
        val = v % (1 << bits) if not is_sym(v) else z3.simplify(to_z3int(v) % (1 << bits))
        return V(I.alloc(st, HInst("<ctypes>", {"value": val})), st)
    if name == "re.compile":
        return V(I.alloc(st, HInst("<regex>", {"pattern": args[0]})), st)
    if name == "regex.match":
        return regex_match(I, recv, args[0], st, node)
    if name == "match.group":
        mo = I.hget(st, recv).fields
        key = args[0] if args else 0
        groups = mo["groups"]
        if key not in groups:
            return E(I, "IndexError", st, "no such group")
        return V(groups[key], st)
    if name == "sys.exit":
        return [("exc", ExcVal("SystemExit", (args[0] if args else None,)), st)]
    if name == "ast.literal_eval":
        if isinstance(args[0], str):
            import ast as _ast
            try:
                return V(_ast.literal_eval(args[0]), st)
            except (ValueError, SyntaxError):
                return E(I, "ValueError", st)
        if isinstance(args[0], (SymSeq, LoweredSeq)):
            # text unknown: any literal value (opaque) or a rejection; callers may not look into the value
            return V(Opaque("literal"), st.fork()) + E(I, "ValueError", st.fork()) + E(I, "SyntaxError", st.fork())
        raise Unsupported("literal_eval of a symbolic string", node)
    # ---------------- methods of builtin types
    if "." in name:
        typ, meth = name.split(".", 1)
        return call_method(I, typ, meth, recv, args, kwargs, st, node)
    raise Unsupported(f"builtin {name}", node)


def builtin_len(I, v, st, node=None):
    if isinstance(v, (str, bytes, tuple, frozenset)):
        return V(len(v), st)
    if isinstance(v, SymBytes):
        return V(len(v.items), st)
    if isinstance(v, SymSeq):
        return V(v.length, st)
    if isinstance(v, Rope):
        return V(sum_len(v.chunks), st)
    if isinstance(v, HexStr):
        x = to_z3int(v.v)
        d = HEXLEN(z3.If(x < 0, -x, x))
        ax = [d >= 1]
        for k in range(1, 17):
            ax.append((d <= k) == (z3.If(x < 0, -x, x) < 16 ** k))
        st.pc.extend(ax)
        return V(z3.If(x < 0, d + 3, d + 2), st)
    if isinstance(v, Ref):
        o = I.hget(st, v)
        if isinstance(o, (HList, HDict)):
            return V(len(o.items), st)
        if isinstance(o, HSymList):
            return V(z3.simplify(o.total()), st)
        if isinstance(o, HInst):
            found = I.index.find_method(o.cls, "__len__")
            if found:
                fn, mod, cls = found
                return I.call_function(fn, mod, cls, [v], {}, st, f"{cls}.__len__")
    if isinstance(v, range):
        return V(len(v), st)
    if is_intlike(v) or v is None:
        return E(I, "TypeError", st, "object has no len()")
    raise Unsupported(f"len of {v!r}", node)


def builtin_isinstance(I, v, c, st, node=None):
    if isinstance(c, tuple):
        return any(builtin_isinstance(I, v, x, st, node) for x in c)
    cls = I.class_of(v, st)
    if isinstance(c, BuiltinVal):
        base = c.name
        if base == "int":
            return cls in ("int", "bool")
        return cls == base
    if isinstance(c, ClassVal):
        return I.is_subclass(cls, c.qualname)
    raise Unsupported(f"isinstance against {c!r}", node)


def builtin_int(I, args, kwargs, st, node=None):
    v = args[0] if args else 0
    base = args[1] if len(args) > 1 else kwargs.get("base")
    if isinstance(v, TrueDiv):
        num, den = v.num, v.den
        if is_sym(den) or den <= 0:
            raise Unsupported("int(x / y) with a non-constant or non-positive divisor", node)
        if den & (den - 1) != 0:
            raise Unsupported("int(x / c): c not a power of two (float rounding not modelled)", node)
        if not is_sym(num):
            return V(int(num / den), st)
        # exact when |x| < 2^53 (IEEE-754 double); recorded as a side obligation
        st.side.append(("float-exact: |x| < 2**53 in int(x / c)", list(st.pc), z3.And(num > -(1 << 53), num < (1 << 53))))
        return V(z3.If(num >= 0, num / den, -((-num) / den)), st)
    if isinstance(v, SymSeq) and v.kind == "str" and base == 16 and not is_sym(v.length):
        st.assumed.append("int(s, 16) on a symbolic string assumes s consists of hex digits (guaranteed by the regex group it comes from)")
        return V(hex_value_of(v), st)
    if isinstance(v, str):
        try:
            return V(int(v, base) if base is not None else int(v), st)
        except ValueError:
            return E(I, "ValueError", st, "invalid literal for int()")
    if isinstance(v, bool):
        return V(int(v), st)
    if is_intlike(v):
        return V(v, st)
    if is_symbool(v):
        return V(to_z3int(v), st)
    if isinstance(v, float):
        return V(int(v), st)
    raise Unsupported(f"int({v!r})", node)


_UNICODE_RANGES = {}


def unicode_ranges(pred):
    """code point ranges on which str.<pred>() holds for a one-character string (this interpreter's Unicode database), computed once"""
    if pred not in _UNICODE_RANGES:
        out, start = [], None
        f = getattr(str, pred)
        for cp in range(0x110000):
            ok = f(chr(cp))
            if ok and start is None:
                start = cp
            elif not ok and start is not None:
                out.append((start, cp - 1))
                start = None
        if start is not None:
            out.append((start, 0x10FFFF))
        _UNICODE_RANGES[pred] = out
    return _UNICODE_RANGES[pred]


def char_predicate(pred, code):
    rs = unicode_ranges(pred)
    return z3.Or(*[(code == lo) if lo == hi else z3.And(code >= lo, code <= hi) for lo, hi in rs]) if rs else z3.BoolVal(False)


def set_add(I, ref, x, st, node=None):
    """s.add(x): nothing when an equal element is present (symbolic equality: one path each way), appended otherwise"""
    out = []
    for k, present, s in contains(I, ref, x, st, node):
        if k == "exc":
            out.append((k, present, s))
            continue
        for b, s2 in I.split(I.truth_term(present, s), s):
            if not b:
                I.hmut(s2, ref).items.append(x)
            out.append(("val", None, s2))
    return out


# ---------------------------------------------------------------------------------------------- searching / stripping sequences of symbolic length
def _codes(x, node=None):
    """the element codes of a concrete str / bytes argument"""
    if isinstance(x, str):
        return [ord(ch) for ch in x]
    if isinstance(x, bytes):
        return list(x)
    raise Unsupported("search / strip argument that is not a concrete str / bytes", node)


def symseq_search(I, meth, recv, args, st, node=None):
    """find / rfind / index / rindex / startswith / endswith / strip / lstrip / rstrip on a str / bytes of SYMBOLIC length with CONCRETE arguments,
    stated exactly with quantifiers over the positions (first / last match; maximal stripped ends).  The result is a fresh term constrained by the
    defining property, so nothing is assumed beyond Python's documented semantics of these methods."""
    n = to_z3int(recv.length)
    k = z3.Int(f"k!srch{next(I._fresh)}")

    def at(i):
        return recv.at(i)

    if meth in ("startswith", "endswith"):
        pat = _codes(args[0], node)
        if len(args) > 1:
            raise Unsupported(f"{meth} with start/end on a symbolic sequence", node)
        m = len(pat)
        base = z3.IntVal(0) if meth == "startswith" else n - m
        return V(z3.And(n >= m, *[at(base + j) == pat[j] for j in range(m)]), st)
    if meth in ("find", "rfind", "index", "rindex"):
        pat = _codes(args[0], node)
        m = len(pat)
        if m == 0:
            raise Unsupported("search for an empty pattern in a symbolic sequence", node)
        lo = clamp_index(I, args[1] if len(args) > 1 else None, recv.length, 0, st)
        hi = clamp_index(I, args[2] if len(args) > 2 else None, recv.length, recv.length, st)
        lo, hi = to_z3int(lo), to_z3int(hi)

        def match(i):
            return z3.And(*[at(i + j) == pat[j] for j in range(m)])
        r = I.fresh_int("found")
        last = hi - m  # last start position at which the pattern still fits
        none = z3.And(r == -1, z3.ForAll([k], z3.Implies(z3.And(lo <= k, k <= last), z3.Not(match(k)))))
        if meth in ("find", "index"):
            some = z3.And(lo <= r, r <= last, match(r), z3.ForAll([k], z3.Implies(z3.And(lo <= k, k < r), z3.Not(match(k)))))
        else:
            some = z3.And(lo <= r, r <= last, match(r), z3.ForAll([k], z3.Implies(z3.And(r < k, k <= last), z3.Not(match(k)))))
        st.pc.append(z3.Or(none, some))
        if meth in ("index", "rindex"):
            out = []
            for b, s2 in I.split(r == -1, st):
                out += E(I, "ValueError", s2, "substring not found") if b else V(r, s2)
            return out
        return V(r, st)
    if meth in ("strip", "lstrip", "rstrip"):
        if not args or args[0] is None:
            raise Unsupported(f"{meth}() without an explicit character set on a symbolic sequence", node)
        cs = sorted(set(_codes(args[0], node)))

        def member(c):
            return z3.Or(*[c == v for v in cs]) if cs else z3.BoolVal(False)
        i = I.fresh_int("strip_lo") if meth != "rstrip" else z3.IntVal(0)
        j = I.fresh_int("strip_hi") if meth != "lstrip" else n
        cons = [0 <= i, i <= j, j <= n]
        if meth != "rstrip":
            cons += [z3.ForAll([k], z3.Implies(z3.And(0 <= k, k < i), member(at(k)))), z3.Implies(i < n, z3.Not(member(at(i))))]
        if meth != "lstrip":
            # when everything is in the set the left cut already reached the end (i == j == n) -- Python strips the left end first
            cons += [z3.ForAll([k], z3.Implies(z3.And(j <= k, k < n), member(at(k)))), z3.Implies(j > i, z3.Not(member(at(j - 1))))]
        st.pc.append(z3.And(*cons))
        off = z3.simplify(to_z3int(recv.off) + i)
        ln = z3.simplify(j - i)
        return V(SymSeq(recv.arr, off.as_long() if z3.is_int_value(off) else off, ln.as_long() if z3.is_int_value(ln) else ln, recv.kind), st)
    raise Unsupported(f"{recv.kind}.{meth} on a symbolic sequence", node)


def call_method(I, typ, meth, recv, args, kwargs, st, node=None):
    if typ == "str" and isinstance(recv, SymChar):
        if meth in ("isalpha", "isdigit", "isspace", "isalnum", "isupper", "islower", "isnumeric", "isdecimal", "isidentifier", "isprintable", "isascii"):
            return V(char_predicate(meth, recv.code), st)
        if meth == "lower":
            # ASCII letters only (the code under verification lower-cases mnemonics, suffixes and registers); other characters are left to the bounded sweeps
            st.pc.append(recv.code < 128)
            return V(SymChar(z3.If(z3.And(recv.code >= 65, recv.code <= 90), recv.code + 32, recv.code)), st)
        raise Unsupported(f"str.{meth} on a symbolic character", node)
    if typ == "str" and isinstance(recv, (SymSeq, LoweredSeq)):
        if meth == "lower":
            return V(LoweredSeq(recv) if isinstance(recv, SymSeq) else recv, st)
        if isinstance(recv, SymSeq) and meth in ("find", "rfind", "index", "rindex", "startswith", "endswith", "strip", "lstrip", "rstrip") and not kwargs:
            return symseq_search(I, meth, recv, args, st, node)
        raise Unsupported(f"str.{meth} on a symbolic string", node)
    if typ == "bytes" and isinstance(recv, SymSeq) and meth in ("find", "rfind", "index", "rindex", "startswith", "endswith", "strip", "lstrip", "rstrip") and not kwargs:
        return symseq_search(I, meth, recv, args, st, node)
    if typ == "str" and isinstance(recv, str):
        if meth in ("lower", "upper", "strip", "startswith", "endswith", "replace", "split", "ljust", "rjust", "format",
                    "join", "isdigit", "find", "rstrip", "lstrip", "splitlines", "count", "index", "isalpha", "isspace", "isalnum", "isupper", "islower",
                    "isnumeric", "isdecimal", "isidentifier", "isprintable", "isascii", "title", "capitalize", "swapcase", "casefold", "zfill", "center", "partition", "rpartition",
                    "rfind", "rindex", "rsplit", "expandtabs", "removeprefix", "removesuffix"):
            if any(is_sym(a) or isinstance(a, (Opaque, Ref)) for a in args):
                if meth == "join":
                    items = I.iterate(args[0], st, node)
                    if all(isinstance(x, str) for x in items):
                        return V(recv.join(items), st)
                return V(Opaque("str"), st)
            try:
                r = getattr(recv, meth)(*args, **kwargs)
            except ValueError:
                return E(I, "ValueError", st)
            if isinstance(r, list):
                r = I.alloc(st, HList(r))
            return V(r, st)
        if meth == "encode":
            enc = args[0] if args else kwargs.get("encoding", "utf-8")
            errors = args[1] if len(args) > 1 else kwargs.get("errors", "strict")
            try:
                return V(recv.encode(enc, errors), st)
            except UnicodeEncodeError:
                return E(I, "ValueError", st, "UnicodeEncodeError")
    if typ == "int":
        if meth == "bit_length":
            if not is_sym(recv):
                return V(recv.bit_length(), st)
            x = to_z3int(recv)
            ab = z3.If(x < 0, -x, x)
            bl = BITLEN(ab)
            ax = [bl >= 0]
            for k in (8, 16, 24, 32, 64):
                ax.append((bl <= k) == (ab < (1 << k)))
            st.pc.extend(ax)
            return V(bl, st)
        if meth == "to_bytes":
            length = args[0] if args else kwargs.get("length", 1)
            order = args[1] if len(args) > 1 else kwargs.get("byteorder", "big")
            signed = kwargs.get("signed", False)
            if is_sym(length) or not isinstance(order, str) or signed is not False:
                raise Unsupported("int.to_bytes with symbolic length / signed", node)
            x = to_z3int(recv)
            out = []
            for fits, s2 in I.split(z3.And(x >= 0, x < (1 << (8 * length))), st):
                if not fits:
                    out += E(I, "OverflowError", s2, "int too big to convert")
                    continue
                items = [z3.simplify((x / (1 << (8 * k))) % 256) for k in range(length)]
                if order == "big":
                    items.reverse()
                out += V(SymBytes(items) if is_sym(recv) else bytes(int(str(i)) for i in items), s2)
            return out
    if typ == "set" and isinstance(recv, Ref):
        o = I.hget(st, recv)
        if meth == "add":
            return set_add(I, recv, args[0], st, node)
        if meth in ("discard", "remove"):
            raise Unsupported(f"set.{meth}", node)
        if meth == "clear":
            I.hmut(st, recv).items = []
            return V(None, st)
        if meth == "copy":
            return V(I.alloc(st, HSet(o.items)), st)
        if meth == "update":
            out = [("val", None, st)]
            for x in I.iterate(args[0], st, node):
                nxt = []
                for _k, _v, s in out:
                    nxt += set_add(I, recv, x, s, node)
                out = nxt
            return out
        raise Unsupported(f"method set.{meth}", node)
    if typ == "symlist":
        o = I.hget(st, recv)
        if meth == "append":
            st.heap[recv.oid] = HSymList(o.length, o.mk, o.prefix, o.tail + (args[0],), o.what)
            return V(None, st)
        raise Unsupported(f"list.{meth} on a list of symbolic length", node)
    if typ == "list":
        o = I.hget(st, recv)
        if meth == "append":
            I.hmut(st, recv).items.append(args[0])
            return V(None, st)
        if meth == "extend":
            I.hmut(st, recv).items.extend(I.iterate(args[0], st, node))
            return V(None, st)
        if meth == "pop":
            if not o.items:
                return E(I, "IndexError", st, "pop from empty list")
            idx = args[0] if args else -1
            if is_sym(idx):
                raise Unsupported("pop at symbolic index", node)
            if not -len(o.items) <= idx < len(o.items):
                return E(I, "IndexError", st, "pop index out of range")
            return V(I.hmut(st, recv).items.pop(idx), st)
        if meth == "copy":
            return V(I.alloc(st, HList(o.items)), st)
        if meth == "index":
            for k, x in enumerate(o.items):
                e = equal(I, x, args[0], st, node)
                if e is True:
                    return V(k, st)
                if e is not False:
                    raise Unsupported("list.index on symbolic values", node)
            return E(I, "ValueError", st)
        if meth == "insert":
            I.hmut(st, recv).items.insert(args[0], args[1])
            return V(None, st)
    if typ == "symmap":
        typ = "dict"
    if typ == "dict":
        o = I.hget(st, recv)
        if meth == "get":
            out = []
            for k, v, s in do_getitem(I, recv, args[0], st, node):
                if k == "exc":
                    out.append(("val", args[1] if len(args) > 1 else None, s))
                else:
                    out.append((k, v, s))
            return out
        if meth == "keys":
            return V(tuple(o.items.keys()), st)
        if meth == "values":
            return V(tuple(o.items.values()), st)
        if meth == "items":
            return V(tuple(o.items.items()), st)
        if meth == "update":
            src = args[0] if args else None
            if isinstance(src, Ref) and isinstance(I.hget(st, src), HDict):
                I.hmut(st, recv).items.update(I.hget(st, src).items)
            elif src is not None:
                for pair in I.iterate(src, st, node):
                    k, v = I.iterate(pair, st, node)
                    I.hmut(st, recv).items[I.hashable(k, node)] = v
            I.hmut(st, recv).items.update(kwargs)
            return V(None, st)
        if meth == "pop":
            ensure_concrete_key(args[0], node)
            if args[0] in o.items:
                return V(I.hmut(st, recv).items.pop(args[0]), st)
            if len(args) > 1:
                return V(args[1], st)
            return E(I, "KeyError", st, args[0])
        if meth == "setdefault":
            ensure_concrete_key(args[0], node)
            if args[0] in o.items:
                return V(o.items[args[0]], st)
            I.hmut(st, recv).items[args[0]] = args[1] if len(args) > 1 else None
            return V(args[1] if len(args) > 1 else None, st)
        if meth == "copy":
            return V(I.alloc(st, HDict(o.items)), st)
    if typ == "tuple" and meth == "index":
        return V(recv.index(args[0]), st)
    if typ == "bytes" and meth == "decode" and isinstance(recv, bytes):
        return V(recv.decode(*args), st)
    if typ == "file":
        return file_method(I, meth, recv, args, kwargs, st, node)
    if typ == "opaque":
        if isinstance(recv, Opaque) and recv.what == "logger":
            st.events.append(("log", meth, args[0] if args else None))
            return V(None, st)
        return V(Opaque(f"{recv.what}.{meth}()"), st)
    raise Unsupported(f"method {typ}.{meth}", node)


# ---------------------------------------------------------------------------------------------- model classes
def model_attr(I, ref, o, attr, st, node=None):
    """Attributes of model instances (class names in <...>): files, ctypes values, argparse namespaces."""
    if o.cls in ("<file>",):
        return V(BuiltinVal(f"file.{attr}", ref), st)
    if o.cls == "<regex>":
        return V(BuiltinVal(f"regex.{attr}", ref), st)
    if o.cls == "<match>":
        return V(BuiltinVal(f"match.{attr}", ref), st)
    raise Unsupported(f"attribute {attr} of model object {o.cls}", node)


def context_exit(I, v, st):
    if isinstance(v, Ref):
        o = I.hget(st, v)
        if isinstance(o, HInst) and o.cls == "<file>":
            I.hmut(st, v).fields["closed"] = True


# ---------------------------------------------------------------------------------------------- file objects
def new_file(I, st, mode, data=None, path=None):
    """File model.  Readable: `data` (bytes / SymBytes / SymSeq / str) and a position.  Writable: `written` is the
    ghost log of the pieces written, in order (('seek', n) tuples for seeks)."""
    return I.alloc(st, HInst("<file>", {"mode": mode, "data": data if data is not None else b"", "pos": 0,
                                        "written": I.alloc(st, HList([])), "closed": False, "path": path}))


def file_method(I, meth, recv, args, kwargs, st, node=None):
    o = I.hget(st, recv)
    f = o.fields
    if meth in ("read", "peek"):
        data = f["data"]
        if isinstance(data, str):
            if meth == "read" and not args:
                I.hmut(st, recv).fields["pos"] = len(data)
                return V(data[f["pos"]:], st)
            raise Unsupported("partial read of a text file", node)
        total = seq_len(data)
        pos = f["pos"]
        remaining = z3.simplify(to_z3int(total) - to_z3int(pos)) if (is_sym(total) or is_sym(pos)) else total - pos
        if meth == "read":
            if not args or args[0] is None or (isinstance(args[0], int) and args[0] < 0):
                ln = remaining
            else:
                n = args[0]
                if is_sym(n) or is_sym(remaining):
                    ln = z3.simplify(z3.If(to_z3int(n) <= to_z3int(remaining), to_z3int(n), to_z3int(remaining)))
                else:
                    ln = min(n, remaining)
            out = []
            for k, piece, s in do_slice(I, data, pos, to_z3int(pos) + to_z3int(ln) if is_sym(ln) or is_sym(pos) else pos + ln, None, st, node):
                I.hmut(s, recv).fields["pos"] = z3.simplify(to_z3int(pos) + to_z3int(ln)) if (is_sym(pos) or is_sym(ln)) else pos + ln
                out.append((k, piece, s))
            return out
        # peek: documented contract only -- a non-empty prefix of what remains, of unspecified length (possibly shorter
        # or longer than requested), empty only at end of file
        L = I.fresh_int("peeklen")
        rem = to_z3int(remaining)
        st.pc.append(z3.And(L >= 0, L <= rem, z3.Implies(rem > 0, L >= 1)))
        st.assumed.append("BufferedReader.peek: documented contract (non-empty prefix of unspecified length)")
        return do_slice(I, data, pos, to_z3int(pos) + L, None, st, node)
    if meth == "write":
        b = args[0]
        w = I.hmut(st, f["written"])
        w.items.append(b)
        r = builtin_len(I, b, st, node) if not isinstance(b, str) else V(len(b), st)
        return r
    if meth == "seek":
        I.hmut(st, f["written"]).items.append(("seek", args[0]))
        I.hmut(st, recv).fields["pos"] = args[0]
        return V(args[0], st)
    if meth == "close":
        I.hmut(st, recv).fields["closed"] = True
        return V(None, st)
    if meth == "readlines":
        data = f["data"]
        if isinstance(data, str):
            return V(I.alloc(st, HList(data.splitlines(keepends=True))), st)
    raise Unsupported(f"file method {meth}", node)


# ---------------------------------------------------------------------------------------------- regular expressions
JOKER_PATTERN = r"^\[0x(?P<byte>[0-9a-fA-F]+)]"


def is_hex_digit(c):
    return z3.Or(z3.And(c >= 48, c <= 57), z3.And(c >= 65, c <= 70), z3.And(c >= 97, c <= 102))


def regex_match(I, recv, subject, st, node=None):
    """re.Pattern.match: on a concrete subject the real `re` module decides; on a symbolic subject only the escape pattern
    `^\\[0x(?P<byte>[0-9a-fA-F]+)]` of script.Table is modelled (prefix "[0x", a maximal run of hex digits, "]")."""
    import re as _re
    pattern = I.hget(st, recv).fields["pattern"]
    if isinstance(subject, str):
        m = _re.compile(pattern).match(subject)
        if m is None:
            return V(None, st)
        groups = {0: m.group(0)}
        for k, v in m.groupdict().items():
            groups[k] = v
        for i, v in enumerate(m.groups(), 1):
            groups[i] = v
        return V(I.alloc(st, HInst("<match>", {"groups": groups})), st)
    if pattern != JOKER_PATTERN or not isinstance(subject, SymSeq) or is_sym(subject.length):
        raise Unsupported(f"regex match of {pattern!r} on a symbolic subject", node)
    n = subject.length
    out = []
    ch = [subject.at(i) for i in range(n)]
    head = z3.And(ch[0] == 91, ch[1] == 48, ch[2] == 120) if n >= 5 else None
    nomatch = []
    if head is not None:
        for k in range(1, n - 3):  # k hex digits at 3..3+k-1, then "]" at 3+k ; the run is maximal because "]" is not a hex digit
            cond = z3.And(head, *[is_hex_digit(ch[3 + j]) for j in range(k)], ch[3 + k] == 93)
            nomatch.append(cond)
            for b, s in I.split(cond, st.fork()):
                if b:
                    whole = SymSeq(subject.arr, subject.off, 4 + k, "str")
                    byte = SymSeq(subject.arr, z3.simplify(to_z3int(subject.off) + 3) if is_sym(subject.off) else subject.off + 3, k, "str")
                    out.append(("val", I.alloc(s, HInst("<match>", {"groups": {0: whole, "byte": byte, 1: byte}})), s))
    miss = z3.Not(z3.Or(*nomatch)) if nomatch else True
    for b, s in I.split(miss, st.fork()):
        if b:
            out.append(("val", None, s))
    return out


def hex_value_of(seq):
    """int(s, 16) for a concrete-length symbolic string of hex digits"""
    n = seq.length
    v = z3.IntVal(0)
    for i in range(n):
        c = seq.at(i)
        d = z3.If(c <= 57, c - 48, z3.If(c <= 70, c - 55, c - 87))
        v = v * 16 + d
    return z3.simplify(v)
