"""Running contract harnesses symbolically: harness function + input shape -> proof obligations."""
from __future__ import annotations

import ast
import os
import time

import z3

from . import solve
from .extract import Index
from .interp import Interp, State
from .lift import Lifter
from .values import (
    ClassVal, EnumVal, ExcVal, FuncVal, HDict, HInst, HList, HSymList, HSymMap, Opaque, Ref, Rope, SymBytes, SymEnum, SymSeq, Unsupported, is_sym,
    is_symbool, is_symint, to_z3bool, to_z3int,
)

VERIF_ROOT = os.path.dirname(os.path.dirname(os.path.dirname(os.path.abspath(__file__))))
REPO_ROOT = os.environ.get("VERIF_REPO", "/repo")


class Engine:
    """Index of the real source + spec/contract modules, interpreter, lifter."""

    def __init__(self, repo_root=None):
        self.repo_root = repo_root or REPO_ROOT
        self.index = Index()
        self.index.add_tree(self.repo_root, ["a816", "script"])
        self.repo_digest = self.index.hexdigest()
        self.index.add_tree(VERIF_ROOT, ["vf/specs", "vf/contracts"])
        self.index.finish()
        self.lifter = Lifter(self.repo_root, self.index)
        self.new_interp()

    def new_interp(self):
        self.I = Interp(self.index, self.lifter)
        self.lifter.memo.clear()
        I = self.I
        I.overrides["vf.contracts.rt.check"] = _rt_check
        I.overrides["vf.contracts.rt.assume"] = _rt_assume
        I.overrides["vf.contracts.rt.ghost"] = _rt_ghost
        I.overrides["vf.contracts.rt.require"] = _rt_require
        I.overrides["vf.contracts.rt.flat"] = _rt_flat
        I.overrides["vf.contracts.rt.ghost_get"] = _rt_ghost_get
        I.overrides["vf.contracts.rt.make_file"] = _rt_make_file
        I.overrides["vf.contracts.rt.logged"] = _rt_logged
        I.overrides["vf.contracts.rt.fresh_int"] = _rt_fresh_int
        I.overrides["vf.contracts.rt.fresh_list"] = _rt_fresh_list
        I.overrides["vf.contracts.rt.fresh_inst"] = _rt_fresh_inst
        I.overrides["vf.contracts.rt.grow_list"] = _rt_grow_list
        I.overrides["vf.contracts.rt.opaque"] = _rt_opaque
        return I

    def harness_checks(self, qualname):
        """Names of the check("...") clauses that appear textually in a harness (vacuity guard)."""
        fn, mod, cls = self.index.functions[qualname]
        names = []
        for n in ast.walk(fn):
            if isinstance(n, ast.Call) and isinstance(n.func, ast.Name) and n.func.id == "check" and n.args and isinstance(n.args[0], ast.Constant):
                names.append(n.args[0].value)
        return names


def _rt_check(I, args, kwargs, st):
    name, cond = args[0], args[1]
    t = I.truth_term(cond, st)
    st.side.append((name, list(st.pc), t))
    return [("val", None, st)]


def _rt_assume(I, args, kwargs, st):
    t = I.truth_term(args[0], st)
    out = []
    for b, s in I.split(t, st):
        if b:
            out.append(("val", None, s))
    return out


def _rt_require(I, args, kwargs, st):
    """Precondition of a contract: an assumption when the contract itself is being established, a proof obligation
    of the caller when the contract is used in place of the callee."""
    name, cond = args[0], args[1]
    t = I.truth_term(cond, st)
    recorded = st.frame is not None and st.frame.subst
    if recorded:
        st.side.append(("callsite_pre:" + str(name), list(st.pc), t))
    out = []
    for b, s in I.split(t, st):
        if b:
            out.append(("val", None, s))
    if not out and recorded:
        # the precondition is violated on this whole path: the path ends here, but its obligation must survive
        out.append(("exc", ExcVal("<loopend>"), st))
    return out


def _rt_flat(I, args, kwargs, st):
    """Concatenation of the pieces of a file's ghost log (piece boundaries are not observable in a file)."""
    from .models import rope_norm
    items = I.iterate(args[0], st)
    for x in items:
        if isinstance(x, tuple):
            raise Unsupported("flat(): the log contains a seek")
    return [("val", rope_norm(Rope(items)), st)]


def _rt_ghost_get(I, args, kwargs, st):
    if args[0] not in st.ghost:
        raise Unsupported(f"ghost_get({args[0]!r}) before ghost()")
    return [("val", st.ghost[args[0]], st)]


def _rt_make_file(I, args, kwargs, st):
    from .models import new_file
    return [("val", new_file(I, st, args[1] if len(args) > 1 else kwargs.get("mode", "r"), args[0]), st)]


def _rt_logged(I, args, kwargs, st):
    level, text = args
    return [("val", any(e[0] == "log" and e[1] == level and e[2] == text for e in st.events), st)]


def _rt_ghost(I, args, kwargs, st):
    st.ghost[args[0]] = args[1]
    return [("val", args[1], st)]


def _rt_fresh_int(I, args, kwargs, st):
    return [("val", I.fresh_int(str(args[0])), st)]


def _rt_fresh_list(I, args, kwargs, st):
    """fresh_list(name, minlen, cls=None, fields=()): a list of arbitrary length >= minlen whose elements are arbitrary
    instances of `cls` (fields opaque) or opaque values."""
    name, minlen = args[0], args[1]
    cls = args[2] if len(args) > 2 else kwargs.get("cls")
    fields = args[3] if len(args) > 3 else kwargs.get("fields", ())
    n = I.fresh_int(str(name) + "_len")
    st.pc.append(n >= minlen)

    def mk(I2, st2, idx):
        if cls is None:
            return Opaque("element")
        return I2.alloc(st2, HInst(cls, {f: Opaque(f) for f in fields}))
    return [("val", I.alloc(st, HSymList(n, mk, what=str(name))), st)]


def _rt_grow_list(I, args, kwargs, st):
    """grow_list(lst, name): the list gains an arbitrary number (>= 0) of unknown elements at its end; its present elements stay."""
    from .models import symlist_concat
    lst, name = args[0], str(args[1])
    n = I.fresh_int(name + "_added")
    st.pc.append(n >= 0)
    add = HSymList(n, lambda I2, st2, idx: Opaque(name), what=name)
    st.heap[lst.oid] = symlist_concat(I, I.hget(st, lst), add, st)
    return [("val", n, st)]


def _rt_fresh_inst(I, args, kwargs, st):
    cls = args[0]
    fields = args[1] if len(args) > 1 else ()
    return [("val", I.alloc(st, HInst(cls, {f: Opaque(f) for f in fields})), st)]


def _rt_opaque(I, args, kwargs, st):
    return [("val", Opaque(str(args[0]) if args else "value"), st)]


class Builder:
    """Symbolic input builder for one case of a harness."""

    def __init__(self, engine: Engine, st: State):
        self.engine = engine
        self.I = engine.I
        self.st = st
        self.symbols = {}
        self.globals = {}  # oid -> (module, attr) for lifted module-level objects

    def int(self, name, lo=None, hi=None):
        v = z3.Int(name)
        self.symbols[name] = v
        if lo is not None:
            self.st.pc.append(v >= lo)
        if hi is not None:
            self.st.pc.append(v <= hi)
        return v

    def bool(self, name):
        v = z3.Bool(name)
        self.symbols[name] = v
        return v

    def inst(self, cls, **fields):
        if cls not in self.engine.index.classes and not cls.startswith("<"):
            raise Unsupported(f"target-missing: class {cls}")
        return self.I.alloc(self.st, HInst(cls, fields))

    def list(self, items):
        return self.I.alloc(self.st, HList(items))

    def dict(self, d):
        return self.I.alloc(self.st, HDict(d))

    def symbytes(self, name, n):
        items = []
        for k in range(n):
            items.append(self.int(f"{name}_{k}", 0, 255))
        return SymBytes(items)

    def symseq(self, name, kind="bytes", maxlen=None):
        arr = z3.Array(name, z3.IntSort(), z3.IntSort())
        ln = self.int(name + "_len", 0, maxlen)
        self.symbols[name] = arr
        return SymSeq(arr, 0, ln, kind)

    def symstr(self, name, n, alphabet):
        """A string of concrete length n whose characters are symbolic, each drawn from `alphabet`."""
        arr = z3.Array(name, z3.IntSort(), z3.IntSort())
        self.symbols[name] = arr
        for i in range(n):
            c = z3.Select(arr, i)
            self.st.pc.append(z3.Or(*[c == ord(a) for a in alphabet]))
            self.symbols[f"{name}[{i}]"] = c
        return SymSeq(arr, 0, n, "str")

    def text(self, name, pieces):
        """A source text made of pieces: ("lit", "lda") -- these characters -- or ("run", name, alphabet, minlen) -- ANY number (>= minlen) of
        characters, each from `alphabet`.  -> (SymSeq str, list of (offset term, length term) per piece)"""
        arr = z3.Array(name, z3.IntSort(), z3.IntSort())
        self.symbols[name] = arr
        off = z3.IntVal(0)
        spans = []
        for k, pc in enumerate(pieces):
            if pc[0] == "lit":
                for i, c in enumerate(pc[1]):
                    self.st.pc.append(z3.Select(arr, z3.simplify(off + i)) == ord(c))
                ln = z3.IntVal(len(pc[1]))
            elif pc[0] == "anycase":
                # these letters, each in either case (non-letters as they are)
                for i, c in enumerate(pc[1]):
                    sel = z3.Select(arr, z3.simplify(off + i))
                    self.st.pc.append(z3.Or(sel == ord(c.lower()), sel == ord(c.upper())))
                ln = z3.IntVal(len(pc[1]))
            elif pc[0] == "no_block_end":
                # any text (line ends and `*` included) in which no `*/` STARTS -- the next piece is the terminator itself, so the text may end in `*`
                _, rname, minlen = pc
                ln = self.int(rname, minlen)
                j = z3.Int(f"j!{rname}")
                c, c1 = z3.Select(arr, j), z3.Select(arr, j + 1)
                self.st.pc.append(z3.ForAll([j], z3.Implies(z3.And(off <= j, j < off + ln), z3.And(c >= 1, c <= 0x10FFFF, z3.Not(z3.And(c == 42, c1 == 47))))))
            elif pc[0] == "chars":
                # any characters with code in [lo, hi] except the listed ones
                _, rname, lo, hi, exclude, minlen = pc
                ln = self.int(rname, minlen)
                j = z3.Int(f"j!{rname}")
                c = z3.Select(arr, j)
                self.st.pc.append(z3.ForAll([j], z3.Implies(z3.And(off <= j, j < off + ln), z3.And(c >= lo, c <= hi, *[c != ord(x) for x in exclude]))))
            else:
                _, rname, alphabet, minlen = pc
                ln = self.int(rname, minlen)
                j = z3.Int(f"j!{rname}")
                self.st.pc.append(z3.ForAll([j], z3.Implies(z3.And(off <= j, j < off + ln), z3.Or(*[z3.Select(arr, j) == ord(c) for c in alphabet]))))
            spans.append((off, ln))
            off = z3.simplify(off + ln)
        total = self.int(name + "_len", 0)
        self.st.pc.append(total == off)
        return SymSeq(arr, 0, total, "str"), spans

    def symmap(self, name, values):
        arr = z3.Array(name, z3.IntSort(), z3.IntSort())
        self.symbols[name] = arr
        self.symmaps = getattr(self, "symmaps", []) + [(arr, list(values))]
        return self.I.alloc(self.st, HSymMap(arr, values))

    def enum(self, cls, name):
        return self.engine.lifter.enum_member(cls, name)

    def symenum(self, name, cls):
        """An arbitrary member of the Enum class `cls`."""
        members = self.engine.lifter.enum_members(cls)
        code = self.int(name, 0, len(members) - 1)
        return SymEnum(cls, code, members)

    def func(self, qualname):
        if qualname not in self.engine.index.functions:
            raise Unsupported(f"target-missing: function {qualname}")
        return FuncVal(qualname)

    def symlist(self, name, minlen=0):
        """A list of arbitrary length whose elements are opaque (a sub-tree nobody may look into)."""
        n = self.int(name + "_len", minlen)
        return self.I.alloc(self.st, HSymList(n, lambda I, st, idx: Opaque(name + "[...]"), what=name))

    VALUE_STRIDE = 1 << 16

    def symtokens(self, name, maxlen=None, file=None):
        """A token list of ARBITRARY length: token i has an arbitrary TokenType and an arbitrary text (a string of arbitrary
        length below VALUE_STRIDE).  Reading the same index twice yields tokens with the same type and text."""
        members = self.engine.lifter.enum_members("a816.parse.tokens.TokenType")
        types = z3.Array(name + "_type", z3.IntSort(), z3.IntSort())
        lens = z3.Array(name + "_vlen", z3.IntSort(), z3.IntSort())
        vals = z3.Array(name + "_text", z3.IntSort(), z3.IntSort())
        n = self.int(name + "_len", 0, maxlen)
        for a, arr in (("_type", types), ("_vlen", lens), ("_text", vals)):
            self.symbols[name + a] = arr
        K = self.VALUE_STRIDE

        lines = z3.Array(name + "_line", z3.IntSort(), z3.IntSort())
        cols = z3.Array(name + "_column", z3.IntSort(), z3.IntSort())
        if file is not None:
            self.symbols[name + "_line"] = lines
            self.symbols[name + "_column"] = cols

        def mk(I, st, idx):
            t = z3.Select(types, idx)
            ln = z3.Select(lens, idx)
            st.pc.append(z3.And(t >= 0, t < len(members), ln >= 0, ln < K))  # type invariant of the input
            pos = None
            if file is not None:
                # each token carries the position the scanner gave it: an arbitrary line / column of `file`
                pos = I.alloc(st, HInst("a816.parse.tokens.Position", {"line": z3.Select(lines, idx), "column": z3.Select(cols, idx), "file": file}))
            return I.alloc(st, HInst("a816.parse.tokens.Token", {"type": SymEnum("a816.parse.tokens.TokenType", t, members),
                                                                 "value": SymSeq(vals, z3.simplify(to_z3int(idx) * K), ln, "str"), "position": pos}))
        return self.I.alloc(self.st, HSymList(n, mk, what="tokens"))

    def cls(self, qualname):
        return ClassVal(qualname)

    def glob(self, mod, attr):
        v = self.engine.lifter.lift_global(self.I, mod, attr)
        if isinstance(v, Ref):
            self.globals[v.oid] = (mod, attr)
        return v

    def lift(self, native):
        return self.engine.lifter.lift(self.I, native)

    def assume(self, cond):
        self.st.pc.append(cond)


class HarnessResult:
    def __init__(self, harness, case):
        self.harness = harness
        self.case = case
        self.obligations = []
        self.unsupported = None
        self.paths = 0
        self.cover = None
        self.inputs = None  # (params dict, state) for materialisation
        self.builder = None
        self.inlined = set()
        self.used_contracts = set()
        self.used_overrides = set()
        self.assumed = []
        self.seconds = 0.0


def run_harness(engine: Engine, qualname: str, case: str, shape, verify_target=None) -> HarnessResult:
    """Symbolically execute harness `qualname` on the inputs built by `shape(B)` (dict param -> value)."""
    t0 = time.time()
    I = engine.I
    res = HarnessResult(qualname, case)
    if qualname not in engine.index.functions:
        res.unsupported = f"target-missing: harness {qualname}"
        return res
    fn, mod, cls = engine.index.functions[qualname]
    st = State()
    B = Builder(engine, st)
    res.builder = B
    I.paths = 0
    I.deadline = time.time() + float(os.environ.get("VF_CASE_BUDGET_S", "240"))
    I.inlined = set()
    I.used_contracts = set()
    I.used_overrides = set()
    saved_no = set(I.no_contract_for)
    if verify_target:
        I.no_contract_for |= set(verify_target)
    try:
        params = shape(B)
        res.inputs = (dict(params), st.fork())
        if not I.feasible(st.pc):
            res.cover = False
            res.unsupported = "vacuous: the shape's assumptions are unsatisfiable"
            return res
        res.cover = True
        args = []
        names = [p.arg for p in fn.args.args]
        for n in names:
            if n not in params:
                raise Unsupported(f"shape gives no value for harness parameter {n}")
            args.append(params[n])
        outs = I.call_function(fn, mod, cls, args, {}, st, qualname)
    except Unsupported as e:
        res.unsupported = str(e)
        return res
    except RecursionError:
        res.unsupported = "budget: python recursion limit in the interpreter"
        return res
    finally:
        I.no_contract_for = saved_no
        res.inlined = set(I.inlined)
        res.used_contracts = set(I.used_contracts)
        res.used_overrides = set(I.used_overrides)
        res.seconds = time.time() - t0
    seen = set()
    res.paths = len(outs)
    counters = {}
    for k, v, s in outs:
        for item in s.side:
            if id(item) in seen:
                continue
            seen.add(id(item))
            name, pc, goal = item
            n = counters.get(name, 0)
            counters[name] = n + 1
            ob = solve.Obligation(name, pc, goal, case=case + (f"@{n}" if n else ""), harness=qualname, symbols=B.symbols)
            res.obligations.append(ob)
        res.assumed += [a for a in s.assumed if a not in res.assumed]
        if k == "exc" and I.class_of(v, s) != "<loopend>":
            cname = I.class_of(v, s)
            n = counters.get("no_unexpected_exception", 0)
            counters["no_unexpected_exception"] = n + 1
            ob = solve.Obligation("no_unexpected_exception", s.pc, False, case=case + (f"@{n}" if n else ""), harness=qualname,
                                  symbols=B.symbols, kind="exc")
            ob.note = f"uncaught {cname} {getattr(v, 'args', '')}"
            res.obligations.append(ob)
    return res


# ------------------------------------------------------------------------------------------ materialisation
def materialize(engine: Engine, B: Builder, st: State, value, model, seen=None):
    """Engine value under a z3 model -> JSON-able recipe the native side can build real objects from."""
    I = engine.I
    if seen is None:
        seen = {}

    def ev(x):
        return solve.model_value(model, x)

    def go(v):
        if v is None:
            return {"k": "none"}
        if isinstance(v, bool):
            return {"k": "bool", "v": v}
        if isinstance(v, int):
            return {"k": "int", "v": v}
        if isinstance(v, str):
            return {"k": "str", "v": v}
        if isinstance(v, float):
            return {"k": "float", "v": v}
        if isinstance(v, bytes):
            return {"k": "bytes", "v": list(v)}
        if is_symint(v):
            return {"k": "int", "v": ev(v)}
        if is_symbool(v):
            return {"k": "bool", "v": bool(ev(v))}
        if isinstance(v, SymBytes):
            return {"k": "bytes", "v": [ev(x) if is_sym(x) else x for x in v.items]}
        if isinstance(v, SymSeq):
            n = ev(v.length) if is_sym(v.length) else v.length
            n = max(0, min(int(n), 200000))
            off = ev(v.off) if is_sym(v.off) else v.off
            data = []
            # evaluate the array pointwise; default for unconstrained cells is 0
            for i in range(n):
                x = ev(z3.Select(v.arr, off + i))
                data.append(x % 256 if isinstance(x, int) else 0)
            if v.kind != "bytes":
                raw = [ev(z3.Select(v.arr, off + i)) for i in range(n)]
                return {"k": "str", "v": "".join(chr(x % 0x110000) if isinstance(x, int) else "?" for x in raw)}
            return {"k": "bytes", "v": data}
        if isinstance(v, Rope):
            data = []
            for c in v.chunks:
                data += go(c)["v"]
            return {"k": "bytes", "v": data}
        if isinstance(v, tuple):
            return {"k": "tuple", "v": [go(x) for x in v]}
        if isinstance(v, frozenset):
            return {"k": "set", "v": [go(x) for x in sorted(v, key=repr)]}
        if isinstance(v, EnumVal):
            return {"k": "enum", "cls": v.cls, "name": v.name}
        if isinstance(v, SymEnum):
            code = ev(v.code)
            return {"k": "enum", "cls": v.cls, "name": v.members[code % len(v.members) if isinstance(code, int) else 0]}
        if isinstance(v, ClassVal):
            return {"k": "class", "v": v.qualname}
        if isinstance(v, FuncVal):
            return {"k": "func", "v": v.qualname}
        if isinstance(v, Opaque):
            return {"k": "opaque", "v": v.what}
        if isinstance(v, Ref):
            if v.oid in B.globals:
                return {"k": "global", "mod": B.globals[v.oid][0], "attr": B.globals[v.oid][1]}
            if v.oid in seen:
                return {"k": "ref", "id": v.oid}
            seen[v.oid] = True
            o = I.hget(st, v)
            if isinstance(o, HInst):
                return {"k": "inst", "id": v.oid, "cls": o.cls, "f": {a: go(x) for a, x in o.fields.items()}}
            if getattr(o, "kind", "") == "set":
                return {"k": "set", "v": [go(x) for x in o.items]}
            if isinstance(o, HList):
                return {"k": "list", "id": v.oid, "v": [go(x) for x in o.items]}
            if isinstance(o, HDict):
                return {"k": "dict", "id": v.oid, "v": [[go(a), go(b)] for a, b in o.items.items()]}
            if isinstance(o, HSymList):
                n = ev(o.total())
                n = max(0, min(int(n) if isinstance(n, int) else 0, 64)) - len(o.prefix) - len(o.tail)
                mid = []
                for i in range(max(0, n)):
                    try:
                        mid.append(go(o.mk(I, st, z3.IntVal(i))))
                    except Unsupported:
                        mid.append({"k": "opaque", "v": "element"})
                return {"k": "list", "id": v.oid, "v": [go(x) for x in o.prefix] + mid + [go(x) for x in o.tail]}
            if isinstance(o, HSymMap):
                # enumerate a finite window of keys (bank numbers 0..255)
                items = []
                for key in range(256):
                    code = ev(z3.Select(o.arr, key))
                    if code != HSymMap.ABSENT and code in o.values:
                        items.append([go(key), go(o.values[code])])
                return {"k": "dict", "id": v.oid, "v": items}
        return {"k": "opaque", "v": repr(v)}

    return go(value)
