"""Discharge of verification conditions: z3 (Python API) first, cvc5 CLI on the SMT-LIB dump for `unknown`.
`unknown`, time-outs and solver errors are never verdicts about the code."""
from __future__ import annotations

import os
import subprocess
import tempfile
import time

import z3

QUICK_MS = int(os.environ.get("VF_Z3_MS", "10000"))


class Obligation:
    __slots__ = ("name", "hyps", "goal", "case", "harness", "symbols", "verdict", "backend", "ms", "model", "note", "kind")

    def __init__(self, name, hyps, goal, case="", harness="", symbols=None, kind="check"):
        self.name = name
        self.hyps = list(hyps)
        self.goal = goal
        self.case = case
        self.harness = harness
        self.symbols = symbols or {}
        self.verdict = None
        self.backend = None
        self.ms = 0.0
        self.model = None
        self.note = ""
        self.kind = kind

    def ident(self):
        return f"{self.harness}#{self.name}" + (f"[{self.case}]" if self.case else "")


def _cvc5(smt2: str, timeout_s: int):
    with tempfile.NamedTemporaryFile("w", suffix=".smt2", delete=False) as f:
        f.write("(set-logic ALL)\n" + smt2)
        path = f.name
    try:
        r = subprocess.run(["/usr/bin/cvc5", "--tlimit", str(timeout_s * 1000), path], capture_output=True, text=True, timeout=timeout_s + 5)
        out = r.stdout.strip().splitlines()
        first = out[0] if out else "unknown"
        if first not in ("sat", "unsat", "unknown"):
            return "input-not-accepted"  # cvc5 1.0.3 rejects some of z3's SMT-LIB output (e.g. model-style `val` arguments): not decided by this back end
        return first
    except Exception:
        return "unknown"
    finally:
        os.unlink(path)


def discharge(ob: Obligation, timeout_ms: int = QUICK_MS, use_cvc5: bool = True):
    t0 = time.time()
    if isinstance(ob.goal, bool):
        goal = z3.BoolVal(ob.goal)
    else:
        goal = ob.goal
    s = z3.Solver()
    s.set("timeout", timeout_ms)
    for h in ob.hyps:
        s.add(h)
    s.add(z3.Not(goal))
    r = s.check()
    ob.backend = "z3-" + z3.get_version_string()
    if r == z3.unsat:
        ob.verdict = "proved"
    elif r == z3.sat:
        ob.verdict = "refuted"
        m = s.model()
        ob.model = m
    else:
        ob.verdict = "unknown"
        ob.note = s.reason_unknown()
        if use_cvc5:
            res = _cvc5(s.to_smt2(), max(5, timeout_ms // 1000))
            if res == "unsat":
                ob.verdict = "proved"
                ob.backend = "cvc5-1.0.3"
            elif res == "sat":
                # a counter-model from cvc5 is not imported; re-ask z3 for a model with a longer budget
                s.set("timeout", timeout_ms * 3)
                if s.check() == z3.sat:
                    ob.verdict = "refuted"
                    ob.model = s.model()
                else:
                    ob.verdict = "unknown"
                    ob.note = "cvc5 says sat, z3 gives no model"
    if ob.verdict == "unknown" and "quantifier" in (ob.note or ""):
        # quantified VC (symbolic texts): z3 cannot build a model of the general query.  Look for a counterexample among SMALL inputs
        # (every integer input narrowed to a small range: a model of the narrowed query is a model of the query); proofs are unaffected.
        for bound in (2, 6):
            s2 = z3.Solver()
            s2.set("timeout", timeout_ms)
            for h in ob.hyps:
                s2.add(h)
            s2.add(z3.Not(goal))
            for name, sym in ob.symbols.items():
                if z3.is_int(sym) and not z3.is_array(sym) and ("len" in name or "gap" in name or "indent" in name or "blank" in name or "spaces" in name or "trailing" in name or "comment" in name):
                    s2.add(sym >= 0, sym <= bound)
            if s2.check() == z3.sat:
                ob.verdict = "refuted"
                ob.model = s2.model()
                ob.note = f"counterexample found among small inputs (run lengths <= {bound}); the general query was undecided"
                break
    if ob.verdict == "refuted" and not (ob.note or "").startswith("counterexample found among small"):
        # prefer a SMALL counter-model (lengths of symbolic lists / texts narrowed): the same obligation, a faster and more readable replay
        lens = [sym for name, sym in ob.symbols.items() if z3.is_int(sym) and not z3.is_array(sym) and "len" in name]
        if lens and any(model_value(ob.model, x) not in range(0, 9) for x in lens):
            for bound in (4, 12):
                s3 = z3.Solver()
                s3.set("timeout", min(timeout_ms, 5000))
                for h in ob.hyps:
                    s3.add(h)
                s3.add(z3.Not(goal))
                for x in lens:
                    s3.add(x >= 0, x <= bound)
                if s3.check() == z3.sat:
                    ob.model = s3.model()
                    break
    ob.ms = (time.time() - t0) * 1000
    return ob


def model_value(model, term):
    """Python int/bool of a z3 term under a model (with completion)."""
    v = model.eval(term, model_completion=True)
    if z3.is_int_value(v):
        return v.as_long()
    if z3.is_true(v):
        return True
    if z3.is_false(v):
        return False
    return str(v)


def cross_check_smt2(ob: Obligation, timeout_s=30):
    """Thorough tier: the same query through the cvc5 and z3 4.8 CLIs. -> dict backend -> result"""
    s = z3.Solver()
    for h in ob.hyps:
        s.add(h)
    s.add(z3.Not(ob.goal if not isinstance(ob.goal, bool) else z3.BoolVal(ob.goal)))
    smt2 = s.to_smt2()
    res = {"cvc5-1.0.3": _cvc5(smt2, timeout_s)}
    with tempfile.NamedTemporaryFile("w", suffix=".smt2", delete=False) as f:
        f.write(smt2)
        path = f.name
    try:
        r = subprocess.run(["/usr/bin/z3", f"-T:{timeout_s}", path], capture_output=True, text=True, timeout=timeout_s + 5)
        out = r.stdout.strip().splitlines()
        res["z3-4.8.12"] = out[0] if out else "unknown"
    except Exception:
        res["z3-4.8.12"] = "unknown"
    finally:
        os.unlink(path)
    return res
