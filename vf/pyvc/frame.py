"""Frame / ownership checker for C19: every write site of the repository is classified by the region of the object written.

Regions:  local (a name bound in the same function: fresh object or parameter alias), instance (self.<field> = ... or a
mutation of an object reached from self), parameter (mutation of an object passed in: the caller's obligation), and
module (a module-level name, a class attribute holding a mutable object, a cache decorator) -- module writes outside
module initialisation are the violations: they make one assembly visible to the next.
Each write site is one obligation `frame#site(file:line)`; it is discharged by this syntactic region inference over the
extracted ast (a purpose-built part of the verifier: listed in the trusted base).  `unknown` is undecided, never proved.
"""
from __future__ import annotations

import ast

MUTATORS = {"append", "extend", "insert", "pop", "remove", "clear", "update", "setdefault", "add", "discard", "popitem", "sort", "reverse", "__setitem__",
            "__delitem__", "write", "seek"}
CACHE_DECORATORS = {"lru_cache", "cache", "cached_property"}
MUTABLE_CTORS = {"list", "dict", "set", "defaultdict", "OrderedDict", "deque", "bytearray", "Counter"}
IMMUTABLE_CTORS = {"int", "str", "bytes", "float", "bool", "tuple", "frozenset", "complex", "range", "object"}


class Site:
    def __init__(self, module, func, lineno, kind, target, region, note=""):
        self.module, self.func, self.lineno, self.kind, self.target, self.region, self.note = module, func, lineno, kind, target, region, note

    def ident(self):
        return f"frame#site({self.module}:{self.lineno})"

    def as_dict(self):
        return {"site": f"{self.module}:{self.lineno}", "function": self.func, "kind": self.kind, "target": self.target, "region": self.region, "note": self.note}


def is_mutable_literal(e):
    if isinstance(e, (ast.List, ast.Dict, ast.Set, ast.ListComp, ast.DictComp, ast.SetComp)):
        return True
    if isinstance(e, ast.Call) and isinstance(e.func, ast.Name) and e.func.id in MUTABLE_CTORS:
        return True
    return False


def base_name(e):
    while isinstance(e, (ast.Attribute, ast.Subscript)):
        e = e.value
    if isinstance(e, ast.Call):
        return ("call", ast.unparse(e.func))
    if isinstance(e, ast.Name):
        return ("name", e.id)
    return ("other", type(e).__name__)


def singleton_classes(index, packages=("a816", "script")):
    """classes of the repository that are instantiated at module level and never inside a function: their instances are process-wide objects
    (the opcode table's emitters), so a write to `self` outside __init__ is a write to module-level state"""
    in_functions, at_module_level = set(), set()
    for modname, mi in index.modules.items():
        if modname.split(".")[0] not in packages:
            continue
        fn_nodes = set()
        for n in ast.walk(mi.tree):
            if isinstance(n, (ast.FunctionDef, ast.AsyncFunctionDef, ast.Lambda)):
                for m in ast.walk(n):
                    fn_nodes.add(id(m))
        for n in ast.walk(mi.tree):
            if isinstance(n, ast.Call) and isinstance(n.func, ast.Name):
                (in_functions if id(n) in fn_nodes else at_module_level).add(n.func.id)
    names = {q.rsplit(".", 1)[1] for q in index.classes if q.split(".")[0] in packages}
    return (at_module_level & names) - in_functions


def analyse(index, packages=("a816", "script")):
    sites = []
    singletons = singleton_classes(index, packages)
    for modname, mi in sorted(index.modules.items()):
        if modname.split(".")[0] not in packages:
            continue
        module_names = set(mi.globals_ast) | set(mi.functions) | set(mi.classes) | set(mi.imports)
        # class-level mutable attributes
        class_mutables = {}
        for cname, ci in mi.classes.items():
            for attr, val in ci.class_attrs.items():
                if is_mutable_literal(val):
                    class_mutables[(cname, attr)] = val.lineno

        def visit_function(fn, cls):
            params = {a.arg for a in fn.args.args + fn.args.kwonlyargs + fn.args.posonlyargs}
            if fn.args.vararg:
                params.add(fn.args.vararg.arg)
            local_names = set(params)
            declared_global = set()
            for n in ast.walk(fn):
                if isinstance(n, ast.Global):
                    declared_global |= set(n.names)
                if isinstance(n, ast.Name) and isinstance(n.ctx, ast.Store):
                    local_names.add(n.id)
                if isinstance(n, (ast.For, ast.comprehension)):
                    for t in ast.walk(n.target):
                        if isinstance(t, ast.Name):
                            local_names.add(t.id)
                if isinstance(n, ast.ExceptHandler) and n.name:
                    local_names.add(n.name)
                if isinstance(n, ast.With):
                    for it in n.items:
                        if it.optional_vars is not None:
                            for t in ast.walk(it.optional_vars):
                                if isinstance(t, ast.Name):
                                    local_names.add(t.id)
            local_names -= declared_global
            # locals that are merely another NAME for a module-level object (`attributes = MAP_DEFAULTS`, `cache = _CACHE[key]`): writing through them
            # writes the module-level object
            aliases = {}
            for n in ast.walk(fn):
                if isinstance(n, (ast.Assign, ast.AnnAssign)) and n.value is not None:
                    tgts = n.targets if isinstance(n, ast.Assign) else [n.target]
                    v = n.value
                    if len(tgts) == 1 and isinstance(tgts[0], ast.Name) and isinstance(v, (ast.Name, ast.Attribute, ast.Subscript)):
                        kind_, base = base_name(v) if not isinstance(v, ast.Name) else ("name", v.id)
                        if kind_ == "name" and base not in local_names and base not in ("self", "cls") and (base in declared_global or base in module_names) \
                                and base not in mi.functions and base not in mi.classes and base not in mi.imports:
                            aliases[tgts[0].id] = ast.unparse(v)
            fname = f"{cls + '.' if cls else ''}{fn.name}"
            # decorators that keep state across calls
            for d in fn.decorator_list:
                dn = ast.unparse(d).split("(")[0].split(".")[-1]
                if dn in CACHE_DECORATORS:
                    sites.append(Site(mi.name, fname, fn.lineno, "decorator", ast.unparse(d), "module", "a cache lives as long as the process"))
            # mutable default arguments
            for d in list(fn.args.defaults) + [x for x in fn.args.kw_defaults if x is not None]:
                if is_mutable_literal(d):
                    sites.append(Site(mi.name, fname, d.lineno, "default", ast.unparse(d), "module", "mutable default argument is shared by all calls"))
                elif isinstance(d, ast.Call) and not (isinstance(d.func, ast.Name) and d.func.id in IMMUTABLE_CTORS):
                    # an object built ONCE, when the function is defined, and handed to every call that omits the argument
                    sites.append(Site(mi.name, fname, d.lineno, "default", ast.unparse(d), "module", "default argument is one object shared by all calls"))

            def region_of(target_expr):
                kind, nm = base_name(target_expr)
                if kind == "name":
                    if nm == "self" or nm == "cls":
                        # self.<attr>... : is <attr> a class-level mutable object that is mutated (not rebound)?
                        e = target_expr
                        chain = []
                        while isinstance(e, (ast.Attribute, ast.Subscript)):
                            chain.append(e)
                            e = e.value
                        first = chain[-1] if chain else None
                        if cls and isinstance(first, ast.Attribute) and (cls, first.attr) in class_mutables and len(chain) > 1:
                            init = index.classes[f"{mi.name}.{cls}"].methods.get("__init__")
                            rebound = init is not None and any(isinstance(n, ast.Attribute) and isinstance(n.ctx, ast.Store) and n.attr == first.attr
                                                               and isinstance(n.value, ast.Name) and n.value.id == "self" for n in ast.walk(init))
                            if not rebound:
                                return "module", f"class attribute {cls}.{first.attr} holds a mutable object shared by all instances"
                        if cls and fn.name != "__init__" and (cls in singletons or any(q.rsplit(".", 1)[-1] in singletons for q in index.mro(f"{mi.name}.{cls}"))):
                            return "module", f"instances of {cls} are module-level objects (never built inside a function): state kept on them outlives an assembly"
                        return "instance", ""
                    if nm in declared_global:
                        return "module", "declared global"
                    if nm in local_names:
                        if nm in aliases and nm not in params:
                            return "module", f"local {nm} is another name for the module-level object {aliases[nm]}"
                        return ("parameter" if nm in params else "local"), ""
                    if nm in module_names:
                        return "module", f"module-level name {nm}"
                    if nm in mi.classes:
                        return "module", "class object"
                    return "unknown", f"unresolved name {nm}"
                if kind == "call":
                    return "unknown", f"object returned by {nm}()"
                return "unknown", nm

            for n in ast.walk(fn):
                if isinstance(n, (ast.FunctionDef, ast.Lambda)) and n is not fn:
                    continue
                targets = []
                if isinstance(n, ast.Assign):
                    targets = [(t, "assign") for t in n.targets]
                elif isinstance(n, ast.AugAssign):
                    targets = [(n.target, "augassign")]
                elif isinstance(n, ast.AnnAssign) and n.value is not None:
                    targets = [(n.target, "assign")]
                elif isinstance(n, ast.Delete):
                    targets = [(t, "del") for t in n.targets]
                for t, k in targets:
                    for sub in ([t] if not isinstance(t, (ast.Tuple, ast.List)) else t.elts):
                        if isinstance(sub, ast.Name):
                            if sub.id in declared_global:
                                sites.append(Site(mi.name, fname, n.lineno, k, sub.id, "module", "assignment to a global"))
                            continue  # plain local binding
                        if isinstance(sub, (ast.Attribute, ast.Subscript)):
                            reg, note = region_of(sub)
                            sites.append(Site(mi.name, fname, n.lineno, k, ast.unparse(sub), reg, note))
                if isinstance(n, ast.Call) and isinstance(n.func, ast.Attribute) and n.func.attr in MUTATORS:
                    recv = n.func.value
                    if isinstance(recv, ast.Name) and recv.id in ("logger", "struct", "logging"):
                        continue
                    reg, note = region_of(recv) if isinstance(recv, (ast.Attribute, ast.Subscript)) else region_of(ast.Attribute(value=recv, attr="_", ctx=ast.Load()))
                    if isinstance(recv, ast.Name):
                        nm = recv.id
                        if nm in declared_global or (nm not in local_names and nm in module_names):
                            reg, note = "module", f"mutating call on module-level name {nm}"
                        elif nm in local_names and nm in aliases and nm not in params:
                            reg, note = "module", f"mutating call through local {nm}, another name for the module-level object {aliases[nm]}"
                        elif nm in local_names:
                            reg, note = ("parameter" if nm in params else "local"), ""
                    sites.append(Site(mi.name, fname, n.lineno, f"call .{n.func.attr}()", ast.unparse(recv), reg, note))
                if isinstance(n, ast.Call) and isinstance(n.func, ast.Name) and n.func.id in ("setattr", "delattr", "globals", "vars", "exec", "eval"):
                    sites.append(Site(mi.name, fname, n.lineno, "reflection", n.func.id, "unknown", "reflection"))

        for fn in mi.functions.values():
            visit_function(fn, None)
        for cname, ci in mi.classes.items():
            for m in ci.methods.values():
                visit_function(m, cname)
    return sites


# read sites that make a result depend on something else than sources, files and options
NONDETERMINISM = {"time", "random", "environ", "getenv", "urandom", "uuid", "now", "today", "perf_counter", "getpid", "id", "hash"}


def nondeterminism_sites(index, packages=("a816", "script")):
    out = []
    for modname, mi in sorted(index.modules.items()):
        if modname.split(".")[0] not in packages:
            continue
        for n in ast.walk(mi.tree):
            if isinstance(n, ast.Call):
                f = n.func
                name = f.attr if isinstance(f, ast.Attribute) else f.id if isinstance(f, ast.Name) else ""
                if name in NONDETERMINISM and not (name == "id" and False):
                    if name in ("id", "hash") or True:
                        out.append({"site": f"{modname}:{n.lineno}", "call": ast.unparse(f)})
            iters = []
            if isinstance(n, ast.For):
                iters.append(n.iter)
            if isinstance(n, (ast.ListComp, ast.SetComp, ast.DictComp, ast.GeneratorExp)):
                iters += [g.iter for g in n.generators]
            for it in iters:
                # the order of a set's elements follows their hashes; for str / bytes / tuples of them that is the per-process hash seed
                if isinstance(it, (ast.Set, ast.SetComp)):
                    out.append({"site": f"{modname}:{n.lineno}", "call": "iteration over a set literal"})
                elif isinstance(it, ast.Call) and (isinstance(it.func, ast.Name) and it.func.id in ("set", "frozenset")):
                    out.append({"site": f"{modname}:{n.lineno}", "call": f"iteration over {ast.unparse(it)[:60]} (element order depends on the process's hash seed)"})
            # process-wide state that outlives an assembly: working directory, environment, import path, recursion limit, PRNG state, locale, signal handlers
            if isinstance(n, ast.Call):
                f = n.func
                name = f.attr if isinstance(f, ast.Attribute) else f.id if isinstance(f, ast.Name) else ""
                base = ast.unparse(f.value) if isinstance(f, ast.Attribute) else ""
                if name in PROCESS_GLOBAL_MUTATORS or (base in ("sys.path", "os.environ", "sys.modules", "warnings.filters") and name in ("append", "insert", "extend", "update", "pop", "setdefault", "remove", "clear", "__setitem__")):
                    out.append({"site": f"{modname}:{n.lineno}", "call": f"{ast.unparse(f)} (process-wide state outlives the assembly)"})
            if isinstance(n, (ast.Assign, ast.AugAssign, ast.Delete)):
                targets = n.targets if isinstance(n, (ast.Assign, ast.Delete)) else [n.target]
                for t in targets:
                    if isinstance(t, ast.Subscript) and ast.unparse(t.value) in ("os.environ", "sys.modules"):
                        out.append({"site": f"{modname}:{n.lineno}", "call": f"assignment to {ast.unparse(t.value)}[...]"})
    return out


# (logging / warnings configuration is presentation, not part of an assembly's result: not listed)
PROCESS_GLOBAL_MUTATORS = {"chdir", "fchdir", "putenv", "unsetenv", "setrecursionlimit", "seed", "setlocale", "chroot", "setrlimit"}


def call_site_regions(index, sites, packages=("a816", "script")):
    """Caller obligations for parameter-region writes: every actual argument bound to a mutated parameter must itself be a
    local / instance / parameter object (transitively), never a module-level object.  -> list of (callee, caller site, region)"""
    mutated = {}
    for s in sites:
        if s.region == "parameter":
            fn = s.func.split(".")[-1]
            mutated.setdefault(fn, set()).add(s.target.split(".")[0].split("[")[0])
    out = []
    for modname, mi in sorted(index.modules.items()):
        if modname.split(".")[0] not in packages:
            continue
        module_names = set(mi.globals_ast)
        for fn_name, (fn, fmod, fcls) in index.functions.items():
            if fmod != modname:
                continue
            params = {a.arg for a in fn.args.args + fn.args.kwonlyargs}
            locals_ = {n.id for n in ast.walk(fn) if isinstance(n, ast.Name) and isinstance(n.ctx, ast.Store)} | params
            for n in ast.walk(fn):
                if not isinstance(n, ast.Call):
                    continue
                cname = n.func.attr if isinstance(n.func, ast.Attribute) else n.func.id if isinstance(n.func, ast.Name) else None
                if cname not in mutated:
                    continue
                callee = [q for q in index.functions if q.split(".")[-1] == cname]
                if not callee:
                    continue
                cfn = index.functions[callee[0]][0]
                pnames = [a.arg for a in cfn.args.args]
                if pnames and pnames[0] == "self":
                    pnames = pnames[1:]
                for i, a in enumerate(n.args):
                    if i < len(pnames) and pnames[i] in mutated[cname]:
                        kind, nm = base_name(a)
                        if kind == "name" and (nm in ("self",) or nm in locals_):
                            reg = "ok"
                        elif kind == "name" and nm in module_names:
                            reg = "module"
                        elif kind == "call":
                            reg = "fresh-or-unknown"
                        else:
                            reg = "ok" if kind == "name" else "unknown"
                        out.append({"callee": cname, "parameter": pnames[i], "call_site": f"{modname}:{n.lineno}", "argument": ast.unparse(a), "region": reg})
    return out


def module_receiver_calls(index, sites, packages=("a816", "script")):
    """Calls of state-changing repository methods on module-level objects outside module initialisation."""
    changing = {s.func.split(".")[-1] for s in sites if s.region == "instance" and "." in s.func and not s.func.endswith("__init__")}
    out = []
    for modname, mi in sorted(index.modules.items()):
        if modname.split(".")[0] not in packages:
            continue
        module_objs = {k for k, v in mi.globals_ast.items()} | {k for k, v in mi.imports.items() if v.split(".")[0] in packages}
        for fn_name, (fn, fmod, fcls) in index.functions.items():
            if fmod != modname:
                continue
            locals_ = {n.id for n in ast.walk(fn) if isinstance(n, ast.Name) and isinstance(n.ctx, ast.Store)} | {a.arg for a in fn.args.args + fn.args.kwonlyargs}
            for n in ast.walk(fn):
                if isinstance(n, ast.Call) and isinstance(n.func, ast.Attribute) and n.func.attr in changing:
                    kind, nm = base_name(n.func.value)
                    if kind == "name" and nm not in locals_ and nm != "self" and nm in module_objs and nm not in mi.classes and nm not in index.modules:
                        q = index.resolve_name(mi, nm)
                        if q in index.classes or q in index.functions or q in index.modules:
                            continue
                        out.append({"call_site": f"{modname}:{n.lineno}", "call": ast.unparse(n.func), "object": nm})
    return out


def call_closure(index, roots, packages=("a816", "script")):
    """Qualified names of the repository functions reachable from `roots` through calls (resolved by simple name: an over-approximation)."""
    by_simple = {}
    for q in index.functions:
        if q.split(".")[0] in packages:
            by_simple.setdefault(q.rsplit(".", 1)[-1], set()).add(q)
    for q, ci in index.classes.items():
        if q.split(".")[0] in packages and "__init__" in ci.methods:
            by_simple.setdefault(q.rsplit(".", 1)[-1], set()).add(q + ".__init__")
    seen, work = set(), [r for r in roots if r in index.functions]
    while work:
        q = work.pop()
        if q in seen:
            continue
        seen.add(q)
        fn = index.functions[q][0]
        for n in ast.walk(fn):
            if isinstance(n, ast.Call):
                name = n.func.attr if isinstance(n.func, ast.Attribute) else n.func.id if isinstance(n.func, ast.Name) else None
                for t in by_simple.get(name, ()):
                    if t not in seen:
                        work.append(t)
    return seen
