"""Value domain of the symbolic interpreter.

Python ints are unbounded, so z3 `Int` is exact for them.  Concrete Python values (int, bool, str,
bytes, None, tuple, frozenset) are used as they are; symbolic ints/bools are z3 terms.  Everything
mutable lives in the heap behind a `Ref`.
"""
from __future__ import annotations

import z3


class Unsupported(Exception):
    """The construct is outside the interpreter's subset: never a verdict, the obligation is 'unsupported'."""

    def __init__(self, why, node=None):
        loc = ""
        if node is not None and hasattr(node, "lineno"):
            loc = f" at line {node.lineno}"
        super().__init__(f"{why}{loc}")
        self.why = why


class Ref:
    __slots__ = ("oid",)

    def __init__(self, oid):
        self.oid = oid

    def __repr__(self):
        return f"Ref({self.oid})"

    def __eq__(self, o):
        return isinstance(o, Ref) and o.oid == self.oid

    def __hash__(self):
        return hash(("Ref", self.oid))


class HInst:
    kind = "inst"

    def __init__(self, cls, fields=None):
        self.cls = cls
        self.fields = dict(fields or {})

    def copy(self):
        return HInst(self.cls, self.fields)


class HList:
    kind = "list"

    def __init__(self, items=None):
        self.items = list(items or [])

    def copy(self):
        return HList(self.items)


class HSet(HList):
    """A mutable set: the list of its (pairwise different) elements; membership uses the engine's symbolic equality."""

    kind = "set"

    def copy(self):
        return HSet(self.items)


class HDict:
    kind = "dict"

    def __init__(self, items=None):
        self.items = dict(items or {})

    def copy(self):
        return HDict(self.items)


class HAbstract:
    """A container whose contents are unknown (a dict after a store under a symbolic key).  Stores are absorbed;
    every read is Unsupported, so nothing is ever concluded from its contents."""

    kind = "abstract"

    def __init__(self, what="dict"):
        self.what = what

    def copy(self):
        return HAbstract(self.what)


class HSymMap:
    """Total map Int -> Int modelled by a z3 array, with an explicit 'absent' value (used for Bus.lookup with
    symbolic bank ranges).  present(k) <=> arr[k] != ABSENT."""

    kind = "symmap"
    ABSENT = -1

    def __init__(self, arr, values):
        self.arr = arr
        self.values = dict(values)  # int code -> engine value (finite codomain)

    def copy(self):
        return HSymMap(self.arr, self.values)


class HSymList:
    """A list of symbolic length: `prefix` (concrete items) ++ `length` items given by `mk(I, st, index term)` ++ `tail`
    (concrete items appended later).  Used for token lists of arbitrary length and for lists a loop has appended to an
    arbitrary number of times.  `mk` returns an engine value for the element at a (possibly symbolic) index."""

    kind = "symlist"

    def __init__(self, length, mk, prefix=(), tail=(), what="list"):
        self.length = length
        self.mk = mk
        self.prefix = tuple(prefix)
        self.tail = tuple(tail)
        self.what = what

    def copy(self):
        return HSymList(self.length, self.mk, self.prefix, self.tail, self.what)

    def total(self):
        return len(self.prefix) + to_z3int(self.length) + len(self.tail)


class SymEnum:
    """A member of an Enum class chosen by a symbolic index into the class's members (definition order)."""

    def __init__(self, cls, code, members):
        self.cls = cls
        self.code = code
        self.members = tuple(members)  # member names, by index

    def __repr__(self):
        return f"<{self.cls.split('.')[-1]} #{self.code}>"


class ClassVal:
    def __init__(self, qualname):
        self.qualname = qualname

    def __repr__(self):
        return f"<class {self.qualname}>"

    def __eq__(self, o):
        return isinstance(o, ClassVal) and o.qualname == self.qualname

    def __hash__(self):
        return hash(("cls", self.qualname))


class FuncVal:
    def __init__(self, qualname):
        self.qualname = qualname

    def __repr__(self):
        return f"<func {self.qualname}>"

    def __eq__(self, o):
        return isinstance(o, FuncVal) and o.qualname == self.qualname

    def __hash__(self):
        return hash(("fn", self.qualname))


class Closure:
    def __init__(self, node, env, module, cls=None, name="<lambda>"):
        self.node = node
        self.env = env
        self.module = module
        self.cls = cls
        self.name = name


class BoundMethod:
    def __init__(self, recv, node, module, cls, name):
        self.recv = recv
        self.node = node
        self.module = module
        self.cls = cls
        self.name = name


class EnumVal:
    def __init__(self, cls, name, value):
        self.cls = cls
        self.name = name
        self.value = value

    def __repr__(self):
        return f"{self.cls.split('.')[-1]}.{self.name}"

    def __eq__(self, o):
        return isinstance(o, EnumVal) and o.cls == self.cls and o.name == self.name

    def __hash__(self):
        return hash(("enum", self.cls, self.name))


class ModuleVal:
    def __init__(self, name):
        self.name = name

    def __repr__(self):
        return f"<module {self.name}>"


class BuiltinVal:
    def __init__(self, name, recv=None):
        self.name = name
        self.recv = recv

    def __repr__(self):
        return f"<builtin {self.name}>"


class ExcVal:
    """Instance of a builtin exception class."""

    def __init__(self, cls, args=()):
        self.cls = cls
        self.args = tuple(args)
        self.cause = None

    def __repr__(self):
        return f"{self.cls}{self.args!r}"


class SuperVal:
    def __init__(self, recv, cls):
        self.recv = recv
        self.cls = cls


class Opaque:
    """A value the interpreter carries around but cannot look into (loggers, regexes, formatted strings
    with symbolic parts).  Using it semantically raises Unsupported."""

    def __init__(self, what):
        self.what = what

    def __repr__(self):
        return f"<opaque {self.what}>"


class SymBytes:
    """bytes of concrete length whose elements are ints or z3 Int terms."""

    def __init__(self, items):
        self.items = tuple(items)

    def __len__(self):
        return len(self.items)

    def __repr__(self):
        return f"SymBytes({list(self.items)!r})"


class SymSeq:
    """A byte string / str of symbolic length: element i is arr[off + i] for 0 <= i < length."""

    def __init__(self, arr, off, length, kind="bytes"):
        self.arr = arr
        self.off = off
        self.length = length
        self.kind = kind

    def at(self, i):
        return z3.Select(self.arr, self.off + i)

    def __repr__(self):
        return f"SymSeq({self.arr}, off={self.off}, len={self.length})"


class Rope:
    """Concatenation of byte chunks, some of symbolic length (SymSeq) and some of concrete length (bytes / SymBytes).
    Piece boundaries are not part of the value: adjacent concrete chunks are merged."""

    def __init__(self, chunks):
        out = []
        for c in chunks:
            if isinstance(c, Rope):
                parts = c.chunks
            else:
                parts = (c,)
            for p in parts:
                if isinstance(p, (bytes, SymBytes)):
                    items = tuple(p) if isinstance(p, bytes) else p.items
                    if not items:
                        continue
                    if out and isinstance(out[-1], SymBytes):
                        out[-1] = SymBytes(out[-1].items + items)
                    else:
                        out.append(SymBytes(items))
                else:
                    out.append(p)
        self.chunks = tuple(out)

    def __repr__(self):
        return f"Rope({list(self.chunks)!r})"


class LoweredSeq:
    """s.lower() of a symbolic string: element i is the lower-cased code point of seq[i] (ASCII letters)."""

    def __init__(self, seq):
        self.seq = seq
        self.length = seq.length
        self.kind = "str"

    def at(self, i):
        c = self.seq.at(i)
        return z3.If(z3.And(c >= 65, c <= 90), c + 32, c)


class HexStr:
    """hex(v) of a symbolic int; only its length is ever used by the code under verification."""

    def __init__(self, v):
        self.v = v


class BitLen:
    pass


def is_sym(v):
    return z3.is_expr(v)


def is_symint(v):
    return z3.is_expr(v) and z3.is_int(v)


def is_symbool(v):
    return z3.is_expr(v) and z3.is_bool(v)


def is_intlike(v):
    return (isinstance(v, int)) or is_symint(v)


def to_z3int(v):
    if isinstance(v, bool):
        return z3.IntVal(int(v))
    if isinstance(v, int):
        return z3.IntVal(v)
    if is_symbool(v):
        return z3.If(v, z3.IntVal(1), z3.IntVal(0))
    return v


def to_z3bool(v):
    if isinstance(v, bool):
        return z3.BoolVal(v)
    if is_symbool(v):
        return v
    if isinstance(v, int):
        return z3.BoolVal(v != 0)
    if is_symint(v):
        return v != 0
    raise Unsupported(f"cannot make a Boolean term out of {v!r}")
