"""In-memory mutation of the extracted AST of a real function (self-test of contracts and engine)."""
import ast
import copy


def textual(old, new, count=1):
    """Mutation by source substitution on the unparsed (normalised) text of the function."""
    def transform(fn):
        src = ast.unparse(fn)
        if old not in src:
            raise ValueError(f"mutation site {old!r} not found in {fn.name}")
        src2 = src.replace(old, new, count)
        node = ast.parse(src2).body[0]
        return ast.fix_missing_locations(node)
    return transform
