"""Extraction of the real source of manz/a816 (and of the spec modules) into an index the symbolic
interpreter walks.  Nothing is re-typed: every run parses the files that are on disk *now*.

What extraction drops (reported in every evidence file, see DROPPED):
  * type annotations, docstrings, `if typing.TYPE_CHECKING:` blocks, `typing.cast(T, x)` -> x
  * calls on loggers / print / warnings.warn: arguments still evaluated, the call is a no-op event
Functions with other decorators than @property, @staticmethod, @dataclass, @abstractmethod are reported unsupported.
"""
from __future__ import annotations

import ast
import hashlib
import os

DROPPED = [
    "type annotations",
    "docstrings",
    "if typing.TYPE_CHECKING blocks",
    "typing.cast(T, x) -> x",
    "logger.* / print / warnings.warn calls (arguments still evaluated; recorded as events)",
]
NOT_DROPPED_NOTE = "a function carrying any decorator other than @property/@staticmethod/@dataclass/@abstractmethod is 'unsupported', not silently undecorated"


class ClassInfo:
    def __init__(self, qualname, node, module):
        self.qualname = qualname
        self.node = node
        self.module = module
        self.bases: list[str] = []  # resolved qualified names (or builtin names)
        self.methods: dict[str, ast.FunctionDef] = {}
        self.class_attrs: dict[str, ast.expr] = {}
        self.decorators = [ast.unparse(d) for d in node.decorator_list]
        self.dataclass_fields: list[str] = []


class ModuleInfo:
    def __init__(self, name, path, tree, source):
        self.name = name
        self.path = path
        self.tree = tree
        self.source = source
        self.imports: dict[str, str] = {}  # local name -> qualified target ("pkg.mod.obj" or "pkg.mod")
        self.functions: dict[str, ast.FunctionDef] = {}
        self.classes: dict[str, ClassInfo] = {}
        self.globals_ast: dict[str, ast.expr] = {}  # simple `NAME = expr` at module level (last wins)
        self.body = tree.body


class Index:
    """All modules under the given roots, keyed by dotted module name."""

    def __init__(self):
        self.modules: dict[str, ModuleInfo] = {}
        self.functions: dict[str, tuple[ast.FunctionDef, str, str | None]] = {}  # qualname -> (node, module, class)
        self.classes: dict[str, ClassInfo] = {}
        self.digest = hashlib.sha256()
        self.files: list[str] = []

    # ------------------------------------------------------------------ loading
    def add_tree(self, root: str, package_dirs: list[str]):
        for pkg in package_dirs:
            base = os.path.join(root, pkg)
            if os.path.isfile(base + ".py"):
                self._add_file(base + ".py", pkg.replace("/", "."))
                continue
            for dirpath, dirnames, filenames in sorted(os.walk(base)):
                dirnames.sort()
                for fn in sorted(filenames):
                    if not fn.endswith(".py"):
                        continue
                    path = os.path.join(dirpath, fn)
                    rel = os.path.relpath(path, root)[:-3].replace(os.sep, ".")
                    if rel.endswith(".__init__"):
                        rel = rel[: -len(".__init__")]
                    self._add_file(path, rel)

    def _add_file(self, path, modname):
        with open(path, encoding="utf-8") as f:
            src = f.read()
        self.digest.update(path.encode() + b"\0" + src.encode())
        self.files.append(path)
        tree = ast.parse(src, filename=path)
        mi = ModuleInfo(modname, path, tree, src)
        self.modules[modname] = mi
        self._index_module(mi)

    def _index_module(self, mi: ModuleInfo):
        def visit_body(body):
            for st in body:
                if isinstance(st, ast.Import):
                    for a in st.names:
                        mi.imports[a.asname or a.name.split(".")[0]] = a.name if a.asname else a.name.split(".")[0]
                elif isinstance(st, ast.ImportFrom):
                    for a in st.names:
                        mi.imports[a.asname or a.name] = f"{st.module}.{a.name}"
                elif isinstance(st, ast.FunctionDef):
                    mi.functions[st.name] = st
                    self.functions[f"{mi.name}.{st.name}"] = (st, mi.name, None)
                elif isinstance(st, ast.ClassDef):
                    ci = ClassInfo(f"{mi.name}.{st.name}", st, mi.name)
                    for sub in st.body:
                        if isinstance(sub, ast.FunctionDef):
                            ci.methods[sub.name] = sub
                            self.functions[f"{mi.name}.{st.name}.{sub.name}"] = (sub, mi.name, ci.qualname)
                        elif isinstance(sub, ast.Assign) and len(sub.targets) == 1 and isinstance(sub.targets[0], ast.Name):
                            ci.class_attrs[sub.targets[0].id] = sub.value
                        elif isinstance(sub, ast.AnnAssign) and isinstance(sub.target, ast.Name):
                            if sub.value is not None:
                                ci.class_attrs[sub.target.id] = sub.value
                            ci.dataclass_fields.append(sub.target.id)
                    mi.classes[st.name] = ci
                    self.classes[ci.qualname] = ci
                elif isinstance(st, ast.Assign) and len(st.targets) == 1 and isinstance(st.targets[0], ast.Name):
                    mi.globals_ast[st.targets[0].id] = st.value
                elif isinstance(st, ast.AnnAssign) and isinstance(st.target, ast.Name) and st.value is not None:
                    mi.globals_ast[st.target.id] = st.value
                elif isinstance(st, ast.If):
                    test = ast.unparse(st.test)
                    if "TYPE_CHECKING" in test:
                        # dropped by extraction; but remember the names for isinstance-free annotation use
                        continue
                    visit_body(st.body)
                    visit_body(st.orelse)

        visit_body(mi.tree.body)

    def finish(self):
        """Resolve class bases to qualified names."""
        for ci in self.classes.values():
            mi = self.modules[ci.module]
            for b in ci.node.bases:
                name = ast.unparse(b)
                ci.bases.append(self.resolve_name(mi, name) or name)

    # ------------------------------------------------------------------ queries
    def resolve_name(self, mi: ModuleInfo, name: str) -> str | None:
        """Qualified name of a module-level name as seen from module `mi` (None if unknown)."""
        head = name.split(".")[0]
        if head in mi.classes and name == head:
            return mi.classes[head].qualname
        if head in mi.functions and name == head:
            return f"{mi.name}.{head}"
        if head in mi.globals_ast and name == head:
            return f"{mi.name}.{head}"
        if head in mi.imports:
            tgt = mi.imports[head]
            rest = name[len(head):]
            return tgt + rest
        return None

    def mro(self, qualname: str) -> list[str]:
        """Linearisation good enough for single inheritance chains + mixin Protocol/ABC bases."""
        out = []

        def walk(q):
            if q in out:
                return
            out.append(q)
            ci = self.classes.get(q)
            if ci:
                for b in ci.bases:
                    walk(b)

        walk(qualname)
        return out

    def find_method(self, cls: str, name: str, after: str | None = None):
        """(FunctionDef, module, defining class) of method `name` looked up in cls's MRO
        (starting after class `after` when given, for super())."""
        m = self.mro(cls)
        if after is not None:
            m = m[m.index(after) + 1:]
        for q in m:
            ci = self.classes.get(q)
            if ci and name in ci.methods:
                return ci.methods[name], ci.module, q
        return None

    def find_class_attr(self, cls: str, name: str):
        for q in self.mro(cls):
            ci = self.classes.get(q)
            if ci and name in ci.class_attrs:
                return ci.class_attrs[name], ci.module
        return None

    def is_subclass(self, cls: str, base: str) -> bool:
        return base in self.mro(cls)

    def hexdigest(self) -> str:
        return self.digest.hexdigest()


def loops_of(fn: ast.FunctionDef) -> list[ast.stmt]:
    """Loops of a function in source order (loop ordinal = index in this list).  Nested defs excluded."""
    out = []

    def walk(node):
        for ch in ast.iter_child_nodes(node):
            if isinstance(ch, (ast.FunctionDef, ast.Lambda, ast.ClassDef)):
                continue
            if isinstance(ch, (ast.While, ast.For)):
                out.append(ch)
            walk(ch)

    walk(fn)
    return out


def load_repo(repo_root: str = "/repo") -> Index:
    idx = Index()
    idx.add_tree(repo_root, ["a816", "script"])
    return idx
