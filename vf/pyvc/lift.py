"""Lifting of live objects of the *imported real modules* into the interpreter's heap.

Module-level state of the repository (opcode table, default buses, precedence table, keyword sets, generators)
is produced by CPython executing the real module code at import; it is lifted by reflection (class name +
__dict__) with aliasing preserved, so what the proofs see is what the running program sees.
"""
from __future__ import annotations

import enum
import importlib
import sys
import types

from .values import BuiltinVal, ClassVal, EnumVal, FuncVal, HDict, HInst, HList, Opaque, Ref, Unsupported


class Lifter:
    def __init__(self, repo_root, index):
        self.repo_root = repo_root
        self.index = index
        self.memo = {}  # id(native) -> engine value
        self.keep = []  # keep natives alive so ids stay unique
        if repo_root not in sys.path:
            sys.path.insert(0, repo_root)

    def module(self, name):
        return importlib.import_module(name)

    def is_enum(self, qualname):
        try:
            mod, _, cls = qualname.rpartition(".")
            c = getattr(self.module(mod), cls)
            return isinstance(c, type) and issubclass(c, enum.Enum)
        except Exception:
            return False

    def enum_member(self, qualname, name):
        mod, _, cls = qualname.rpartition(".")
        c = getattr(self.module(mod), cls)
        m = c[name]
        return EnumVal(qualname, m.name, m.value)

    def enum_members(self, qualname):
        mod, _, cls = qualname.rpartition(".")
        return list(getattr(self.module(mod), cls).__members__)

    def lift_global(self, I, mod, attr):
        m = self.module(mod)
        if not hasattr(m, attr):
            raise Unsupported(f"module {mod} has no attribute {attr}")
        return self.lift(I, getattr(m, attr))

    def qualname_of(self, obj):
        q = f"{obj.__module__}.{obj.__qualname__}"
        return q

    def lift(self, I, v):
        if v is None or isinstance(v, (bool, int, str, bytes, float)):
            return v
        key = id(v)
        if key in self.memo:
            return self.memo[key]
        self.keep.append(v)
        if isinstance(v, enum.Enum):
            r = EnumVal(self.qualname_of(type(v)), v.name, v.value)
        elif isinstance(v, tuple):
            r = tuple(self.lift(I, x) for x in v)
        elif isinstance(v, (set, frozenset)):
            r = frozenset(self.lift(I, x) for x in v)
        elif isinstance(v, list):
            ref = I.alloc_base(HList([]))
            self.memo[key] = ref
            I.base_heap[ref.oid].items = [self.lift(I, x) for x in v]
            return ref
        elif isinstance(v, dict):
            ref = I.alloc_base(HDict({}))
            self.memo[key] = ref
            I.base_heap[ref.oid].items = {self.lift(I, k): self.lift(I, x) for k, x in v.items()}
            return ref
        elif isinstance(v, type({}.keys())):
            r = tuple(self.lift(I, x) for x in v)
        elif isinstance(v, type):
            q = self.qualname_of(v)
            r = ClassVal(q if q in self.index.classes else v.__name__)
        elif isinstance(v, (types.FunctionType,)):
            q = self.qualname_of(v)
            if q in self.index.functions:
                r = FuncVal(q)
            else:
                r = Opaque(f"function {q}")
        elif isinstance(v, types.BuiltinFunctionType):
            r = BuiltinVal(v.__name__)
        elif type(v).__module__.split(".")[0] in ("a816", "script") and hasattr(v, "__dict__"):
            q = self.qualname_of(type(v))
            ref = I.alloc_base(HInst(q, {}))
            self.memo[key] = ref
            I.base_heap[ref.oid].fields = {k: self.lift(I, x) for k, x in vars(v).items()}
            return ref
        elif type(v).__module__ == "logging":
            r = Opaque("logger")
        else:
            r = Opaque(type(v).__name__)
        self.memo[key] = r
        return r
