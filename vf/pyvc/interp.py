"""pyvc: forward symbolic execution of (a subset of) Python over the `ast` of the real source.

One path condition per path; a branch whose condition is decided by the path condition is not forked.
Calls to functions with a registered *functional contract* are replaced by the contract's spec function
(modular verification); other repo functions are inlined up to a depth budget.  Loops are unrolled when the
iteration space is concrete and cut at an invariant otherwise (see contracts.LoopSpec).
"""
from __future__ import annotations

import ast
import itertools
import time

import z3

from .values import (
    BoundMethod, BuiltinVal, ClassVal, Closure, EnumVal, ExcVal, FuncVal, HAbstract, HDict, HInst, HList, HSymList, HSymMap, HexStr, SymEnum,
    ModuleVal, Opaque, Ref, Rope, SuperVal, SymBytes, SymSeq, Unsupported, is_intlike, is_sym, is_symbool, is_symint,
    to_z3bool, to_z3int,
)

BUILTIN_EXC_BASES = {
    "BaseException": None,
    "Exception": "BaseException",
    "ArithmeticError": "Exception",
    "ZeroDivisionError": "ArithmeticError",
    "LookupError": "Exception",
    "KeyError": "LookupError",
    "IndexError": "LookupError",
    "ValueError": "Exception",
    "TypeError": "Exception",
    "RuntimeError": "Exception",
    "NotImplementedError": "RuntimeError",
    "RecursionError": "RuntimeError",
    "AssertionError": "Exception",
    "AttributeError": "Exception",
    "OSError": "Exception",
    "FileNotFoundError": "OSError",
    "SyntaxError": "Exception",
    "StopIteration": "Exception",
    "struct.error": "Exception",
    "UnicodeDecodeError": "ValueError",
    "SystemExit": "BaseException",
    "Warning": "Exception",
    "DeprecationWarning": "Warning",
}

NOOP_BASES = {"object", "Exception", "typing.Protocol", "Protocol", "abc.ABC", "ABC", "enum.Enum", "Enum",
              "RuntimeError", "ValueError", "typing.TypedDict", "TypedDict", "BaseException"}


class State:
    __slots__ = ("env", "heap", "pc", "events", "side", "frame", "depth", "ghost", "assumed")

    def __init__(self):
        self.env = {}
        self.heap = {}
        self.pc = []
        self.events = []
        self.side = []  # side obligations (name, pc snapshot, goal)
        self.frame = None
        self.depth = 0
        self.ghost = {}
        self.assumed = []

    def fork(self):
        s = State()
        s.env = dict(self.env)
        s.heap = dict(self.heap)  # objects are copied on write (see Interp.hmut)
        s.pc = list(self.pc)
        s.events = list(self.events)
        s.side = list(self.side)
        s.frame = self.frame
        s.depth = self.depth
        s.ghost = dict(self.ghost)
        s.assumed = list(self.assumed)
        return s


class Frame:
    __slots__ = ("module", "cls", "name", "node", "subst", "parent")

    def __init__(self, module, cls, name, node=None, subst=False, parent=None):
        self.parent = parent
        self.module = module
        self.cls = cls
        self.name = name
        self.node = node
        self.subst = subst  # executing a contract's spec function in place of a callee (modular call)


class Interp:
    MAX_DEPTH = 40
    MAX_PATHS = 40000
    MAX_UNROLL = 300

    def __init__(self, index, lifter=None):
        self.index = index
        self.lifter = lifter
        self.base_heap = {}
        self._oid = itertools.count(1)
        self._fresh = itertools.count(1)
        self.contracts = {}  # qualname -> spec qualname (functional substitution at call sites)
        self.overrides = {}  # qualname -> spec qualname (assumed contracts on dependencies)
        self.loop_specs = {}  # (qualname, ordinal) -> LoopSpec
        self.no_contract_for = set()  # functions currently being verified (use the body, not the contract)
        self.inlined = set()
        self.used_contracts = set()
        self.used_overrides = set()
        self.open_hook = None
        self.builtin_hooks = {}
        self.paths = 0
        self.deadline = None
        self._solver = z3.Solver()
        self._solver.set("timeout", 1500)  # unknown counts as feasible (explores more, never less)
        self._solver.set("rlimit", 3000000)
        self.owned_copies = {}  # id(state) -> set of oids already copied; kept simple: copy on every mutation
        from . import models
        self.models = models

    # ------------------------------------------------------------------ fresh symbols / heap
    def fresh_int(self, hint="t"):
        return z3.Int(f"{hint}!{next(self._fresh)}")

    def fresh_bool(self, hint="b"):
        return z3.Bool(f"{hint}!{next(self._fresh)}")

    def fresh_arr(self, hint="a"):
        return z3.Array(f"{hint}!{next(self._fresh)}", z3.IntSort(), z3.IntSort())

    def alloc(self, st, obj):
        oid = next(self._oid)
        st.heap[oid] = obj
        return Ref(oid)

    def alloc_base(self, obj):
        oid = next(self._oid)
        self.base_heap[oid] = obj
        return Ref(oid)

    def hget(self, st, ref):
        o = st.heap.get(ref.oid)
        if o is None:
            o = self.base_heap.get(ref.oid)
            if o is None:
                raise Unsupported(f"dangling reference {ref}")
        return o

    def hmut(self, st, ref):
        """Object behind ref, private to this state (copy on write)."""
        o = st.heap.get(ref.oid)
        if o is None:
            o = self.base_heap[ref.oid]
        o = o.copy()
        if isinstance(o, HInst):
            o.fields = dict(o.fields)
        elif isinstance(o, HList):
            o.items = list(o.items)
        elif isinstance(o, HDict):
            o.items = dict(o.items)
        st.heap[ref.oid] = o
        return o

    # ------------------------------------------------------------------ solver helpers
    def feasible(self, pc):
        s = self._solver
        s.push()
        try:
            for c in pc:
                s.add(c)
            r = s.check()
        finally:
            s.pop()
        return r != z3.unsat

    def entails(self, pc, goal):
        s = self._solver
        s.push()
        try:
            for c in pc:
                s.add(c)
            s.add(z3.Not(goal))
            r = s.check()
        finally:
            s.pop()
        return r == z3.unsat

    def split(self, cond, st):
        """Fork on a z3 Bool / Python truth value -> [(bool, state)] with infeasible sides pruned."""
        if isinstance(cond, bool):
            return [(cond, st)]
        if self.deadline is not None and time.time() > self.deadline:
            raise Unsupported("budget: symbolic execution time limit")
        cond = z3.simplify(cond)
        if z3.is_true(cond):
            return [(True, st)]
        if z3.is_false(cond):
            return [(False, st)]
        out = []
        t = st.pc + [cond]
        f = st.pc + [z3.Not(cond)]
        ft = self.feasible(t)
        ff = self.feasible(f) if ft else True  # the path condition itself is feasible, so one side must be
        if ft and ff:
            s1 = st.fork()
            s1.pc = t
            s2 = st.fork()
            s2.pc = f
            out = [(True, s1), (False, s2)]
            self.paths += 1
            if self.paths > self.MAX_PATHS:
                raise Unsupported("budget: too many paths")
        elif ft:
            out = [(True, st)]
        elif ff:
            out = [(False, st)]
        return out

    # ------------------------------------------------------------------ truthiness
    def truth_term(self, v, st):
        """Python truthiness of v as bool or z3 Bool."""
        if v is None:
            return False
        if isinstance(v, (bool, int, str, bytes, tuple, frozenset, float)):
            return bool(v)
        if is_symbool(v):
            return v
        if is_symint(v):
            return v != 0
        if type(v).__name__ == "SymChar":
            return True
        if isinstance(v, SymBytes):
            return len(v.items) > 0
        if isinstance(v, SymSeq):
            return v.length > 0
        if type(v).__name__ == "LoweredSeq":
            return v.length > 0
        if isinstance(v, Rope):
            return self.models.sum_len(v.chunks) > 0
        if isinstance(v, Ref):
            o = self.hget(st, v)
            if isinstance(o, HList):
                return len(o.items) > 0
            if isinstance(o, HSymList):
                return o.total() > 0
            if isinstance(o, HDict):
                return len(o.items) > 0
            if isinstance(o, HInst):
                if self.index.find_method(o.cls, "__bool__") or self.index.find_method(o.cls, "__len__"):
                    raise Unsupported("truthiness through __bool__/__len__")
                return True
        if isinstance(v, (ClassVal, FuncVal, Closure, BoundMethod, EnumVal, SymEnum, ModuleVal, BuiltinVal)):
            return True
        if isinstance(v, ExcVal):
            return True
        raise Unsupported(f"truthiness of {v!r}")

    def branch(self, v, st):
        if isinstance(v, Ref):
            o = self.hget(st, v)
            if isinstance(o, HInst):
                # Python's truth protocol for instances: __bool__ if the class has one, else __len__ () != 0, else always true
                for name in ("__bool__", "__len__"):
                    found = self.index.find_method(o.cls, name)
                    if found:
                        fn, mod, cls = found
                        out = []
                        for k, r, s in self.call_function(fn, mod, cls, [v], {}, st, f"{cls}.{name}"):
                            if k == "exc":
                                raise Unsupported(f"{name} raised while testing truthiness")
                            out += self.split(self.truth_term(r, s), s)
                        return out
        return self.split(self.truth_term(v, st), st)

    # ------------------------------------------------------------------ names
    def lookup_name(self, name, st, node=None):
        if name in st.env:
            return st.env[name]
        fr = st.frame
        mi = self.index.modules.get(fr.module) if fr else None
        if mi is not None:
            q = self.index.resolve_name(mi, name)
            if q is not None:
                return self.resolve_qualified(q, st, node)
        return self.builtin_name(name, node)

    def resolve_qualified(self, q, st, node=None):
        idx = self.index
        if q in idx.classes:
            return ClassVal(q)
        if q in idx.functions and idx.functions[q][2] is None:
            return FuncVal(q)
        if q in idx.modules:
            return ModuleVal(q)
        mod, _, attr = q.rpartition(".")
        if mod in idx.modules:
            mi = idx.modules[mod]
            if attr in mi.imports:  # re-export
                return self.resolve_qualified(mi.imports[attr], st, node)
            if attr in mi.globals_ast:
                return self.module_global(mod, attr, st, node)
        # stdlib things
        if q in ("struct", "ctypes", "logging", "warnings", "sys", "argparse", "typing", "re", "ast", "pathlib"):
            return ModuleVal(q)
        if q.startswith("typing.") or q.startswith("collections.abc."):
            return Opaque(q)
        if q == "pathlib.Path":
            return BuiltinVal("Path")
        if q in ("enum.Enum", "enum.auto", "abc.ABC", "abc.abstractmethod", "dataclasses.dataclass"):
            return Opaque(q)
        raise Unsupported(f"unresolved name {q}", node)

    def module_global(self, mod, attr, st, node=None):
        """Module-level variable of the repo: value of the *live* module object, lifted into the heap."""
        if self.lifter is None:
            raise Unsupported(f"module global {mod}.{attr} (no lifter)", node)
        return self.lifter.lift_global(self, mod, attr)

    def builtin_name(self, name, node=None):
        if name in BUILTIN_EXC_BASES:
            return ClassVal(name)
        if name in ("len", "min", "max", "int", "str", "bytes", "list", "dict", "tuple", "range", "enumerate", "isinstance",
                    "print", "hex", "open", "super", "zip", "map", "filter", "iter", "sorted", "abs", "bool", "type",
                    "hasattr", "getattr", "set", "any", "all", "sum", "repr", "ord", "chr", "reversed", "next", "divmod", "pow", "round", "zip", "frozenset"):
            return BuiltinVal(name)
        if name == "NotImplemented":
            return Opaque("NotImplemented")
        raise Unsupported(f"unknown name {name}", node)

    # ------------------------------------------------------------------ classes / exceptions
    def class_of(self, v, st):
        if isinstance(v, Ref):
            o = self.hget(st, v)
            if isinstance(o, HInst):
                return o.cls
            return {"list": "list", "dict": "dict", "symmap": "dict", "symlist": "list", "abstract": "dict", "set": "set"}[o.kind]
        if isinstance(v, ExcVal):
            return v.cls
        if isinstance(v, bool) or is_symbool(v):
            return "bool"
        if isinstance(v, int) or is_symint(v):
            return "int"
        if isinstance(v, str) or type(v).__name__ == "SymChar":
            return "str"
        if isinstance(v, (bytes, SymBytes, Rope)):
            return "bytes"
        if isinstance(v, SymSeq) or type(v).__name__ == "LoweredSeq":
            return v.kind
        if isinstance(v, tuple):
            return "tuple"
        if v is None:
            return "NoneType"
        if isinstance(v, EnumVal):
            return v.cls
        if isinstance(v, (FuncVal, Closure, BoundMethod, BuiltinVal)):
            return "function"
        if isinstance(v, frozenset):
            return "set"
        if isinstance(v, float):
            return "float"
        raise Unsupported(f"class of {v!r}")

    def is_subclass(self, cls, base):
        if cls == base:
            return True
        if base in ("object",):
            return True
        if cls == "bool" and base == "int":
            return True
        if cls in BUILTIN_EXC_BASES:
            c = cls
            while c is not None:
                if c == base:
                    return True
                c = BUILTIN_EXC_BASES.get(c)
            return False
        if cls in self.index.classes:
            for q in self.index.mro(cls):
                if q == base:
                    return True
                if q in BUILTIN_EXC_BASES and self.is_subclass(q, base):
                    return True
            return False
        return False

    def exc_matches(self, exc, handler_val, st):
        cls = self.class_of(exc, st)
        if isinstance(handler_val, tuple):
            return any(self.exc_matches(exc, h, st) for h in handler_val)
        if isinstance(handler_val, ClassVal):
            return self.is_subclass(cls, handler_val.qualname)
        if isinstance(handler_val, BuiltinVal) and handler_val.name == "struct.error":
            return self.is_subclass(cls, "struct.error")
        raise Unsupported(f"except clause {handler_val!r}")

    def mkexc(self, cls, *args):
        return ExcVal(cls, args)

    # ------------------------------------------------------------------ expression evaluation
    def eval(self, e, st):
        """-> list of ('val', value, state) | ('exc', exception value, state)"""
        m = getattr(self, "e_" + type(e).__name__, None)
        if m is None:
            raise Unsupported(f"expression {type(e).__name__}", e)
        return m(e, st)

    def eval_seq(self, exprs, st):
        """Evaluate expressions left to right -> list of ('val', [values], st) | ('exc', exc, st)"""
        res = [("val", [], st)]
        for ex in exprs:
            nxt = []
            for k, vals, s in res:
                if k == "exc":
                    nxt.append((k, vals, s))
                    continue
                for k2, v, s2 in self.eval(ex, s):
                    if k2 == "exc":
                        nxt.append((k2, v, s2))
                    else:
                        nxt.append(("val", vals + [v], s2))
            res = nxt
        return res

    def e_Constant(self, e, st):
        return [("val", e.value, st)]

    def e_Name(self, e, st):
        return [("val", self.lookup_name(e.id, st, e), st)]

    def e_Tuple(self, e, st):
        out = []
        for k, vals, s in self.eval_seq(e.elts, st):
            out.append((k, tuple(vals) if k == "val" else vals, s))
        return out

    def e_List(self, e, st):
        out = []
        if any(isinstance(x, ast.Starred) for x in e.elts):
            return self.list_with_starred(e, st)
        for k, vals, s in self.eval_seq(e.elts, st):
            if k == "val":
                out.append(("val", self.alloc(s, HList(vals)), s))
            else:
                out.append((k, vals, s))
        return out

    def list_with_starred(self, e, st):
        """[a, *b, c]: the pieces concatenated left to right (a starred piece may be a list of symbolic length)"""
        plain = [x.value if isinstance(x, ast.Starred) else x for x in e.elts]
        out = []
        for k, vals, s in self.eval_seq(plain, st):
            if k == "exc":
                out.append((k, vals, s))
                continue
            acc = HList([])
            for x, v in zip(e.elts, vals):
                if isinstance(x, ast.Starred):
                    o = self.hget(s, v) if isinstance(v, Ref) else None
                    piece = o if isinstance(o, (HList, HSymList)) else HList(self.iterate(v, s, x))
                else:
                    piece = HList([v])
                if isinstance(acc, HList) and isinstance(piece, HList):
                    acc = HList(acc.items + piece.items)
                else:
                    acc = self.models.symlist_concat(self, acc, piece, s)
            out.append(("val", self.alloc(s, acc), s))
        return out

    def e_Set(self, e, st):
        out = []
        for k, vals, s in self.eval_seq(e.elts, st):
            out.append((k, frozenset(vals) if k == "val" else vals, s))
        return out

    def e_Dict(self, e, st):
        out = []
        n = len(e.keys)
        for k, vals, s in self.eval_seq(list(e.keys) + list(e.values), st):
            if k == "val":
                d = {}
                for kk, vv in zip(vals[:n], vals[n:]):
                    d[self.hashable(kk, e)] = vv
                out.append(("val", self.alloc(s, HDict(d)), s))
            else:
                out.append((k, vals, s))
        return out

    def hashable(self, k, node=None):
        if is_sym(k):
            raise Unsupported("symbolic dictionary key", node)
        return k

    def e_JoinedStr(self, e, st):
        parts = []
        for v in e.values:
            if isinstance(v, ast.Constant):
                parts.append(v)
            else:
                parts.append(v)
        exprs = [p.value for p in parts if isinstance(p, ast.FormattedValue)]
        out = []
        for k, vals, s in self.eval_seq(exprs, st):
            if k == "exc":
                out.append((k, vals, s))
                continue
            it = iter(vals)
            txt = ""
            opaque = False
            for p in parts:
                if isinstance(p, ast.Constant):
                    txt += p.value
                else:
                    v = next(it)
                    spec = ""
                    if p.format_spec is not None:
                        if all(isinstance(x, ast.Constant) for x in p.format_spec.values):
                            spec = "".join(x.value for x in p.format_spec.values)
                        else:
                            opaque = True
                    if isinstance(v, (int, str)) and not isinstance(v, bool) and p.conversion == -1:
                        txt += format(v, spec)
                    elif isinstance(v, EnumVal) and p.conversion == -1 and not spec:
                        txt += f"{v.cls.split('.')[-1]}.{v.name}"
                    else:
                        opaque = True
            out.append(("val", Opaque("fstring") if opaque else txt, s))
        return out

    def e_IfExp(self, e, st):
        out = []
        for k, c, s in self.eval(e.test, st):
            if k == "exc":
                out.append((k, c, s))
                continue
            for b, s2 in self.branch(c, s):
                out += self.eval(e.body if b else e.orelse, s2)
        return out

    def e_BoolOp(self, e, st):
        # short-circuit; result is the deciding operand (Python semantics)
        is_and = isinstance(e.op, ast.And)

        def go(i, s):
            res = []
            for k, v, s2 in self.eval(e.values[i], s):
                if k == "exc":
                    res.append((k, v, s2))
                    continue
                if i == len(e.values) - 1:
                    res.append(("val", v, s2))
                    continue
                # symbolic Boolean operand and a call-free rest: merge into one term instead of forking
                if is_symbool(v) and not any(isinstance(n, (ast.Call, ast.Lambda, ast.Await)) for x in e.values[i + 1:] for n in ast.walk(x)):
                    guard = v if is_and else z3.Not(v)
                    s3 = s2.fork()
                    s3.pc.append(guard)
                    if not self.feasible(s3.pc):
                        res.append(("val", not is_and, s2))
                        continue
                    npc = len(s3.pc)
                    sub = go(i + 1, s3)
                    if len(sub) == 1 and sub[0][0] == "val" and len(sub[0][2].pc) == npc and (isinstance(sub[0][1], bool) or is_symbool(sub[0][1])):
                        r = sub[0][1]
                        rz = to_z3bool(r)
                        res.append(("val", z3.simplify(z3.And(v, rz) if is_and else z3.Or(v, rz)), s2))
                        continue
                for b, s3 in self.branch(v, s2):
                    if b == is_and:
                        res += go(i + 1, s3)
                    else:
                        res.append(("val", v, s3))  # the deciding operand itself is the value
            return res

        return go(0, st)

    def e_UnaryOp(self, e, st):
        out = []
        for k, v, s in self.eval(e.operand, st):
            if k == "exc":
                out.append((k, v, s))
                continue
            if isinstance(e.op, ast.Not):
                t = self.truth_term(v, s)
                out.append(("val", (not t) if isinstance(t, bool) else z3.Not(t), s))
            elif isinstance(e.op, ast.USub):
                out.append(("val", -to_z3int(v) if is_sym(v) else -v, s))
            elif isinstance(e.op, ast.Invert):
                out.append(("val", (-to_z3int(v) - 1) if is_sym(v) else ~v, s))
            elif isinstance(e.op, ast.UAdd):
                out.append(("val", v, s))
            else:
                raise Unsupported("unary op", e)
        return out

    def e_BinOp(self, e, st):
        out = []
        for k, vals, s in self.eval_seq([e.left, e.right], st):
            if k == "exc":
                out.append((k, vals, s))
                continue
            out += self.binop(type(e.op).__name__, vals[0], vals[1], s, e)
        return out

    def e_Compare(self, e, st):
        # a op1 b op2 c  ==  (a op1 b) and (b op2 c), operands evaluated once, left to right
        out = []
        for k, vals, s in self.eval_seq([e.left] + list(e.comparators), st):
            if k == "exc":
                out.append((k, vals, s))
                continue
            results = [("val", True, s)]
            for i, op in enumerate(e.ops):
                nxt = []
                for k2, acc, s2 in results:
                    if k2 == "exc":
                        nxt.append((k2, acc, s2))
                        continue
                    for k3, r, s3 in self.compare(type(op).__name__, vals[i], vals[i + 1], s2, e):
                        if k3 == "exc":
                            nxt.append((k3, r, s3))
                        else:
                            nxt.append(("val", self.conj(acc, r), s3))
                results = nxt
            out += results
        return out

    @staticmethod
    def conj(a, b):
        if isinstance(a, bool):
            return b if a else False
        if isinstance(b, bool):
            return a if b else False
        return z3.And(a, b)

    @staticmethod
    def disj(a, b):
        if isinstance(a, bool):
            return True if a else b
        if isinstance(b, bool):
            return True if b else a
        return z3.Or(a, b)

    @staticmethod
    def neg(a):
        return (not a) if isinstance(a, bool) else z3.Not(a)

    def e_Attribute(self, e, st):
        out = []
        for k, v, s in self.eval(e.value, st):
            if k == "exc":
                out.append((k, v, s))
                continue
            out += self.getattr(v, e.attr, s, e)
        return out

    def e_Subscript(self, e, st):
        if isinstance(e.slice, ast.Slice):
            parts = [e.value] + [x if x is not None else ast.Constant(value=None) for x in (e.slice.lower, e.slice.upper, e.slice.step)]
            out = []
            for k, vals, s in self.eval_seq(parts, st):
                if k == "exc":
                    out.append((k, vals, s))
                    continue
                out += self.models.do_slice(self, vals[0], vals[1], vals[2], vals[3], s, e)
            return out
        out = []
        for k, vals, s in self.eval_seq([e.value, e.slice], st):
            if k == "exc":
                out.append((k, vals, s))
                continue
            out += self.getitem(vals[0], vals[1], s, e)
        return out

    def e_Lambda(self, e, st):
        return [("val", Closure(e, st.env, st.frame.module, st.frame.cls), st)]

    def e_ListComp(self, e, st):
        return self.comprehension(e, st, "list")

    def e_GeneratorExp(self, e, st):
        return self.comprehension(e, st, "list")

    def e_DictComp(self, e, st):
        return self.comprehension(e, st, "dict")

    def e_SetComp(self, e, st):
        return self.comprehension(e, st, "set")

    def comprehension(self, e, st, kind):
        saved_env = st.env
        st = st.fork()

        def gen(i, s):
            """-> list of (kind, acc-list, state)"""
            if i == len(e.generators):
                if kind == "dict":
                    rs = self.eval_seq([e.key, e.value], s)
                    return [(k, [tuple(v)] if k == "val" else v, s2) for k, v, s2 in rs]
                rs = self.eval(e.elt, s)
                return [(k, [v] if k == "val" else v, s2) for k, v, s2 in rs]
            g = e.generators[i]
            res = []
            for k, itv, s2 in self.eval(g.iter, s):
                if k == "exc":
                    res.append((k, itv, s2))
                    continue
                items = self.iterate(itv, s2, g.iter)
                partial = [("val", [], s2)]
                for item in items:
                    nxt = []
                    for k3, acc, s3 in partial:
                        if k3 == "exc":
                            nxt.append((k3, acc, s3))
                            continue
                        self.assign_target(g.target, item, s3)
                        conds = [("val", True, s3)]
                        for cnd in g.ifs:
                            c2 = []
                            for k4, okv, s4 in conds:
                                if k4 == "exc" or okv is False:
                                    c2.append((k4, okv, s4))
                                    continue
                                for k5, cv, s5 in self.eval(cnd, s4):
                                    if k5 == "exc":
                                        c2.append((k5, cv, s5))
                                    else:
                                        for b, s6 in self.branch(cv, s5):
                                            c2.append(("val", b, s6))
                            conds = c2
                        for k4, okv, s4 in conds:
                            if k4 == "exc":
                                nxt.append((k4, okv, s4))
                            elif okv:
                                for k5, sub, s5 in gen(i + 1, s4):
                                    nxt.append((k5, acc + sub if k5 == "val" else sub, s5))
                            else:
                                nxt.append(("val", acc, s4))
                    partial = nxt
                res += partial
            return res

        out = []
        for k, acc, s in gen(0, st):
            # comprehension variables do not leak
            for g in e.generators:
                for n in ast.walk(g.target):
                    if isinstance(n, ast.Name):
                        s.env.pop(n.id, None)
                        if n.id in saved_env:
                            s.env[n.id] = saved_env[n.id]
            if k == "exc":
                out.append((k, acc, s))
            elif kind == "list":
                out.append(("val", self.alloc(s, HList(acc)), s))
            elif kind == "dict":
                out.append(("val", self.alloc(s, HDict({self.hashable(a): b for a, b in acc})), s))
            else:
                out.append(("val", frozenset(acc), s))
        return out

    def e_Call(self, e, st):
        # typing.cast(T, x) -> x   (dropped by extraction)
        fn_src = ast.unparse(e.func)
        if fn_src in ("cast", "typing.cast") and len(e.args) == 2:
            return self.eval(e.args[1], st)
        out = []
        for k, f, s in self.eval(e.func, st):
            if k == "exc":
                out.append((k, f, s))
                continue
            if any(isinstance(a, ast.Starred) for a in e.args) or any(kw.arg is None for kw in e.keywords):
                raise Unsupported("star-args in call", e)
            exprs = list(e.args) + [kw.value for kw in e.keywords]
            for k2, vals, s2 in self.eval_seq(exprs, s):
                if k2 == "exc":
                    out.append((k2, vals, s2))
                    continue
                args = vals[: len(e.args)]
                kwargs = {kw.arg: v for kw, v in zip(e.keywords, vals[len(e.args):])}
                out += self.call(f, args, kwargs, s2, e)
        return out

    # ------------------------------------------------------------------ attribute access
    def getattr(self, v, attr, st, node=None):
        if isinstance(v, Ref):
            o = self.hget(st, v)
            if isinstance(o, HInst):
                if attr in o.fields:
                    return [("val", o.fields[attr], st)]
                if attr == "__class__":
                    return [("val", ClassVal(o.cls), st)]
                found = self.index.find_method(o.cls, attr)
                if found:
                    fn, mod, cls = found
                    decos = [ast.unparse(d) for d in fn.decorator_list]
                    if "property" in decos:
                        return self.call_function(fn, mod, cls, [v], {}, st, f"{cls}.{attr}")
                    if "staticmethod" in decos:
                        return [("val", Closure(fn, {}, mod, cls, attr), st)]
                    return [("val", BoundMethod(v, fn, mod, cls, attr), st)]
                ca = self.index.find_class_attr(o.cls, attr)
                if ca:
                    expr, mod = ca
                    return self.eval_in_module(expr, mod, st)
                if o.cls.startswith("<"):
                    return self.models.model_attr(self, v, o, attr, st, node)
                return [("exc", self.mkexc("AttributeError", attr), st)]
            return [("val", BuiltinVal(f"{o.kind}.{attr}", v), st)]
        if isinstance(v, ClassVal):
            if attr == "__name__":
                return [("val", v.qualname.split(".")[-1], st)]
            ci = self.index.classes.get(v.qualname)
            if ci is not None:
                if self.lifter is not None and self.lifter.is_enum(v.qualname):
                    return [("val", self.lifter.enum_member(v.qualname, attr), st)]
                found = self.index.find_method(v.qualname, attr)
                if found:
                    fn, mod, cls = found
                    return [("val", Closure(fn, {}, mod, cls, attr), st)]
                ca = self.index.find_class_attr(v.qualname, attr)
                if ca:
                    expr, mod = ca
                    return self.eval_in_module(expr, mod, st)
            raise Unsupported(f"class attribute {v.qualname}.{attr}", node)
        if isinstance(v, ModuleVal):
            if v.name in self.index.modules:
                return [("val", self.resolve_qualified(f"{v.name}.{attr}", st, node), st)]
            if v.name == "struct" and attr == "error":
                return [("val", ClassVal("struct.error"), st)]
            return [("val", BuiltinVal(f"{v.name}.{attr}"), st)]
        if isinstance(v, EnumVal):
            if attr == "name":
                return [("val", v.name, st)]
            if attr == "value":
                return [("val", v.value, st)]
        if isinstance(v, SuperVal):
            found = self.index.find_method(self.class_of(v.recv, st), attr, after=v.cls)
            if found:
                fn, mod, cls = found
                decos = [ast.unparse(d) for d in fn.decorator_list]
                if "property" in decos:
                    return self.call_function(fn, mod, cls, [v.recv], {}, st, f"{cls}.{attr}")
                return [("val", BoundMethod(v.recv, fn, mod, cls, attr), st)]
            return [("val", BuiltinVal("noop"), st)]
        if isinstance(v, ExcVal):
            if attr == "args":
                return [("val", v.args, st)]
        if isinstance(v, (str, bytes, int, tuple, SymBytes, SymSeq, frozenset)) or is_sym(v) or type(v).__name__ in ("SymChar", "LoweredSeq"):
            return [("val", BuiltinVal(f"{self.class_of(v, st)}.{attr}", v), st)]
        if isinstance(v, Opaque):
            return [("val", BuiltinVal(f"opaque.{attr}", v), st)]
        if isinstance(v, (Closure, FuncVal, BoundMethod)) and attr == "__name__":
            return [("val", getattr(v, "name", None) or v.qualname.split(".")[-1], st)]
        raise Unsupported(f"attribute {attr} of {v!r}", node)

    def eval_in_module(self, expr, mod, st):
        saved = (st.env, st.frame)
        st.env = {}
        st.frame = Frame(mod, None, "<module>")
        res = self.eval(expr, st)
        out = []
        for k, v, s in res:
            s.env, s.frame = saved[0] if s is st else dict(saved[0]), saved[1]
            out.append((k, v, s))
        st.env, st.frame = saved
        return out

    def setattr(self, objv, attr, value, st, node=None):
        if isinstance(objv, Ref):
            o = self.hmut(st, objv)
            if isinstance(o, HInst):
                o.fields[attr] = value
                return
        raise Unsupported(f"attribute store on {objv!r}", node)

    # ------------------------------------------------------------------ subscripts
    def getitem(self, c, i, st, node=None):
        return self.models.do_getitem(self, c, i, st, node)

    # ------------------------------------------------------------------ operators
    def binop(self, op, a, b, st, node=None):
        return self.models.do_binop(self, op, a, b, st, node)

    def compare(self, op, a, b, st, node=None):
        return self.models.do_compare(self, op, a, b, st, node)

    # ------------------------------------------------------------------ calls
    def call(self, f, args, kwargs, st, node=None):
        if isinstance(f, FuncVal):
            fn, mod, cls = self.index.functions[f.qualname]
            return self.call_function(fn, mod, cls, args, kwargs, st, f.qualname)
        if isinstance(f, Closure):
            q = f"{f.cls}.{f.name}" if f.cls else f"{f.module}.{f.name}"
            return self.call_function(f.node, f.module, f.cls, args, kwargs, st, q, closure_env=f.env)
        if isinstance(f, BoundMethod):
            return self.call_function(f.node, f.module, f.cls, [f.recv] + list(args), kwargs, st, f"{f.cls}.{f.name}")
        if isinstance(f, ClassVal):
            return self.instantiate(f.qualname, args, kwargs, st, node)
        if isinstance(f, BuiltinVal):
            return self.models.call_builtin(self, f, args, kwargs, st, node)
        raise Unsupported(f"call of {f!r}", node)

    def instantiate(self, cls, args, kwargs, st, node=None):
        if cls in BUILTIN_EXC_BASES:
            return [("val", ExcVal(cls, args), st)]
        ci = self.index.classes.get(cls)
        if ci is None:
            raise Unsupported(f"instantiate {cls}", node)
        if self.lifter is not None and self.lifter.is_enum(cls):
            raise Unsupported("enum call", node)
        ref = self.alloc(st, HInst(cls, {}))
        found = self.index.find_method(cls, "__init__")
        if found is None:
            # dataclass-style or plain
            fields = []
            for q in reversed(self.index.mro(cls)):
                c2 = self.index.classes.get(q)
                if c2 and any("dataclass" in d for d in c2.decorators):
                    fields += c2.dataclass_fields
            if fields:
                o = self.hmut(st, ref)
                for name, v in zip(fields, args):
                    o.fields[name] = v
                for name, v in kwargs.items():
                    o.fields[name] = v
            elif self.is_exception_class(cls):
                o = self.hmut(st, ref)
                o.fields["args"] = tuple(args)
            elif args or kwargs:
                raise Unsupported(f"constructor arguments for {cls} without __init__", node)
            return [("val", ref, st)]
        fn, mod, dcls = found
        out = []
        for k, v, s in self.call_function(fn, mod, dcls, [ref] + list(args), kwargs, st, f"{dcls}.__init__"):
            if k == "exc":
                out.append((k, v, s))
            else:
                out.append(("val", ref, s))
        return out

    def is_exception_class(self, cls):
        return any(q in BUILTIN_EXC_BASES for q in self.index.mro(cls)) if cls in self.index.classes else cls in BUILTIN_EXC_BASES

    def bind_params(self, fn, args, kwargs, st, module, node=None):
        a = fn.args
        params = [p.arg for p in a.posonlyargs + a.args]
        env = {}
        if len(args) > len(params) and a.vararg is None:
            return None, self.mkexc("TypeError", "too many positional arguments")
        for name, v in zip(params, args):
            env[name] = v
        if a.vararg is not None:
            env[a.vararg.arg] = tuple(args[len(params):])
        kwargs = dict(kwargs)
        defaults = dict(zip(params[len(params) - len(a.defaults):], a.defaults))
        for name in params[len(args):]:
            if name in kwargs:
                env[name] = kwargs.pop(name)
            elif name in defaults:
                env[name] = self.const_default(defaults[name], module, st)
            else:
                return None, self.mkexc("TypeError", f"missing argument {name}")
        for p, d in zip(a.kwonlyargs, a.kw_defaults):
            if p.arg in kwargs:
                env[p.arg] = kwargs.pop(p.arg)
            elif d is not None:
                env[p.arg] = self.const_default(d, module, st)
            else:
                return None, self.mkexc("TypeError", f"missing keyword-only argument {p.arg}")
        if kwargs:
            if a.kwarg is not None:
                raise Unsupported("**kwargs parameter", node)
            return None, self.mkexc("TypeError", f"unexpected keyword arguments {sorted(kwargs)}")
        return env, None

    def on_stack(self, st, qualname):
        fr = st.frame
        while fr is not None:
            if fr.name == qualname and not fr.subst:
                return True
            fr = fr.parent
        return False

    def const_default(self, d, module, st):
        if isinstance(d, ast.Constant):
            return d.value
        if isinstance(d, ast.UnaryOp) and isinstance(d.operand, ast.Constant):
            return ast.literal_eval(d)
        if isinstance(d, (ast.List, ast.Dict, ast.Set)):
            raise Unsupported("mutable default argument")
        res = self.eval_in_module(d, module, st)
        if len(res) == 1 and res[0][0] == "val":
            return res[0][1]
        raise Unsupported("default argument expression")

    def call_function(self, fn, module, cls, args, kwargs, st, qualname, closure_env=None):
        """Execute a function body (or its contract's spec function) -> [('val'|'exc', v, st)]"""
        if isinstance(fn, ast.Lambda):
            env, err = self.bind_params(fn, args, kwargs, st, module)
            if err is not None:
                return [("exc", err, st)]
            return self._run_body(fn, [ast.Return(value=fn.body)], env, module, cls, "<lambda>", st, closure_env)
        # assumed contract on a dependency / modular use of a proved contract
        target = None
        subst = False
        if qualname in self.overrides:
            target = self.overrides[qualname]
            self.used_overrides.add(qualname)
        elif qualname in self.contracts and (qualname not in self.no_contract_for or self.on_stack(st, qualname)):
            # modular call; for the function under verification itself only the outermost activation runs the body:
            # a recursive call is checked against the function's own contract
            target = self.contracts[qualname]
            self.used_contracts.add(qualname)
        if target is not None:
            if callable(target):
                return target(self, args, kwargs, st)
            fn2, mod2, cls2 = self.index.functions[target]
            fn, module, cls = fn2, mod2, cls2
            subst = True
        elif qualname not in self.no_contract_for and st.depth > 0:
            self.inlined.add(qualname)
        for d in fn.decorator_list:
            dn = ast.unparse(d)
            if dn.split(".")[-1] not in ("property", "staticmethod", "abstractmethod", "dataclass", "override"):
                raise Unsupported(f"decorator @{dn} on {qualname} (its effect is not modelled)", fn)
        env, err = self.bind_params(fn, args, kwargs, st, module)
        if err is not None:
            return [("exc", err, st)]
        return self._run_body(fn, fn.body, env, module, cls, qualname, st, closure_env, subst)

    def _run_body(self, fn, body, env, module, cls, qualname, st, closure_env, subst=False):
        if st.depth >= self.MAX_DEPTH:
            raise Unsupported(f"budget: call depth exceeded in {qualname}")
        saved_env, saved_frame = st.env, st.frame
        if closure_env:
            e2 = dict(closure_env)
            e2.update(env)
            env = e2
        st.env = env
        st.frame = Frame(module, cls, qualname, fn, subst or bool(saved_frame is not None and saved_frame.subst), parent=saved_frame)
        st.depth += 1
        try:
            res = self.exec_block(body, st)
        finally:
            st.env, st.frame = saved_env, saved_frame
            st.depth -= 1
        out = []
        for k, v, s in res:
            if s is not st:
                s.env = dict(saved_env)
                s.frame = saved_frame
                s.depth -= 1
            if k == "ret":
                out.append(("val", v, s))
            elif k == "next":
                out.append(("val", None, s))
            elif k == "exc":
                out.append(("exc", v, s))
            else:
                raise Unsupported(f"{k} outside loop in {qualname}")
        return out

    # ------------------------------------------------------------------ iteration
    def iterate(self, v, st, node=None):
        """Concrete list of the items of an iterable (Unsupported when its length is symbolic)."""
        if isinstance(v, (tuple, str, bytes, frozenset)):
            return list(v) if not isinstance(v, frozenset) else sorted(v, key=repr)
        if isinstance(v, SymBytes):
            return list(v.items)
        if isinstance(v, range):
            return list(v)
        if isinstance(v, Ref):
            o = self.hget(st, v)
            if isinstance(o, HList):
                return list(o.items)
            if isinstance(o, HDict):
                return list(o.items.keys())
        raise Unsupported(f"iteration over {v!r}", node)

    # ------------------------------------------------------------------ statements
    def exec_block(self, stmts, st):
        """-> list of (kind, value, state) with kind in next|ret|exc|break|continue"""
        work = [("next", None, st)]
        for stmt in stmts:
            nxt = []
            for k, v, s in work:
                if k != "next":
                    nxt.append((k, v, s))
                    continue
                nxt += self.exec_stmt(stmt, s)
            work = nxt
            if not any(k == "next" for k, _, _ in work):
                break
        return work

    def exec_stmt(self, stmt, st):
        m = getattr(self, "s_" + type(stmt).__name__, None)
        if m is None:
            raise Unsupported(f"statement {type(stmt).__name__}", stmt)
        return m(stmt, st)

    def s_Pass(self, stmt, st):
        return [("next", None, st)]

    def s_Expr(self, stmt, st):
        if isinstance(stmt.value, ast.Constant):
            return [("next", None, st)]  # docstring
        out = []
        for k, v, s in self.eval(stmt.value, st):
            out.append(("next", None, s) if k == "val" else ("exc", v, s))
        return out

    def s_Return(self, stmt, st):
        if stmt.value is None:
            return [("ret", None, st)]
        return [("ret" if k == "val" else "exc", v, s) for k, v, s in self.eval(stmt.value, st)]

    def s_Assign(self, stmt, st):
        out = []
        for k, v, s in self.eval(stmt.value, st):
            if k == "exc":
                out.append((k, v, s))
                continue
            res = [("next", None, s)]
            for t in stmt.targets:
                nxt = []
                for k2, _, s2 in res:
                    if k2 != "next":
                        nxt.append((k2, _, s2))
                        continue
                    nxt += self.assign_target_full(t, v, s2)
                res = nxt
            out += res
        return out

    def s_AnnAssign(self, stmt, st):
        if stmt.value is None:
            return [("next", None, st)]
        out = []
        for k, v, s in self.eval(stmt.value, st):
            if k == "exc":
                out.append((k, v, s))
            else:
                out += self.assign_target_full(stmt.target, v, s)
        return out

    def assign_target(self, t, v, st):
        """Assignment to names / tuples of names only (loop targets)."""
        if isinstance(t, ast.Name):
            st.env[t.id] = v
        elif isinstance(t, (ast.Tuple, ast.List)):
            items = self.iterate(v, st, t)
            if len(items) != len(t.elts):
                raise Unsupported("unpacking length mismatch", t)
            for tt, vv in zip(t.elts, items):
                self.assign_target(tt, vv, st)
        else:
            raise Unsupported("assignment target", t)

    def assign_target_full(self, t, v, st):
        if isinstance(t, (ast.Name, ast.Tuple, ast.List)) and all(
            isinstance(n, (ast.Name, ast.Tuple, ast.List, ast.Store, ast.Load)) for n in ast.walk(t)):
            if isinstance(t, (ast.Tuple, ast.List)):
                try:
                    items = self.iterate(v, st, t)
                except Unsupported:
                    raise
                if len(items) != len(t.elts):
                    return [("exc", self.mkexc("ValueError", "unpack"), st)]
            self.assign_target(t, v, st)
            return [("next", None, st)]
        if isinstance(t, ast.Attribute):
            out = []
            for k, o, s in self.eval(t.value, st):
                if k == "exc":
                    out.append((k, o, s))
                    continue
                self.setattr(o, t.attr, v, s, t)
                out.append(("next", None, s))
            return out
        if isinstance(t, ast.Subscript):
            if isinstance(t.slice, ast.Slice):
                raise Unsupported("slice assignment", t)
            out = []
            for k, vals, s in self.eval_seq([t.value, t.slice], st):
                if k == "exc":
                    out.append((k, vals, s))
                    continue
                out += self.models.do_setitem(self, vals[0], vals[1], v, s, t)
            return out
        raise Unsupported("assignment target", t)

    def s_AugAssign(self, stmt, st):
        t = stmt.target
        op = type(stmt.op).__name__
        out = []
        if isinstance(t, ast.Name):
            cur = self.lookup_name(t.id, st, t)
            for k, v, s in self.eval(stmt.value, st):
                if k == "exc":
                    out.append((k, v, s))
                    continue
                for k2, r, s2 in self.models.do_augop(self, op, cur, v, s, stmt):
                    if k2 == "exc":
                        out.append((k2, r, s2))
                    else:
                        s2.env[t.id] = r
                        out.append(("next", None, s2))
            return out
        if isinstance(t, ast.Attribute):
            for k, o, s in self.eval(t.value, st):
                if k == "exc":
                    out.append((k, o, s))
                    continue
                for k1, cur, s1 in self.getattr(o, t.attr, s, t):
                    if k1 == "exc":
                        out.append((k1, cur, s1))
                        continue
                    for k2, v, s2 in self.eval(stmt.value, s1):
                        if k2 == "exc":
                            out.append((k2, v, s2))
                            continue
                        for k3, r, s3 in self.models.do_augop(self, op, cur, v, s2, stmt):
                            if k3 == "exc":
                                out.append((k3, r, s3))
                            else:
                                self.setattr(o, t.attr, r, s3, t)
                                out.append(("next", None, s3))
            return out
        if isinstance(t, ast.Subscript):
            for k, vals, s in self.eval_seq([t.value, t.slice], st):
                if k == "exc":
                    out.append((k, vals, s))
                    continue
                for k1, cur, s1 in self.getitem(vals[0], vals[1], s, t):
                    if k1 == "exc":
                        out.append((k1, cur, s1))
                        continue
                    for k2, v, s2 in self.eval(stmt.value, s1):
                        if k2 == "exc":
                            out.append((k2, v, s2))
                            continue
                        for k3, r, s3 in self.models.do_augop(self, op, cur, v, s2, stmt):
                            if k3 == "exc":
                                out.append((k3, r, s3))
                            else:
                                out += self.models.do_setitem(self, vals[0], vals[1], r, s3, t)
            return out
        raise Unsupported("augmented assignment target", stmt)

    def s_If(self, stmt, st):
        out = []
        for k, c, s in self.eval(stmt.test, st):
            if k == "exc":
                out.append((k, c, s))
                continue
            for b, s2 in self.branch(c, s):
                out += self.exec_block(stmt.body if b else stmt.orelse, s2)
        return out

    def s_Assert(self, stmt, st):
        out = []
        for k, c, s in self.eval(stmt.test, st):
            if k == "exc":
                out.append((k, c, s))
                continue
            for b, s2 in self.branch(c, s):
                if b:
                    out.append(("next", None, s2))
                else:
                    out.append(("exc", self.mkexc("AssertionError"), s2))
        return out

    def s_Raise(self, stmt, st):
        if stmt.exc is None:
            exc = st.env.get("__active_exc__")
            if exc is None:
                raise Unsupported("bare raise outside handler", stmt)
            return [("exc", exc, st)]
        out = []
        for k, v, s in self.eval(stmt.exc, st):
            if k == "exc":
                out.append((k, v, s))
                continue
            if isinstance(v, ClassVal):
                for k2, v2, s2 in self.instantiate(v.qualname, [], {}, s, stmt):
                    out.append(("exc", v2, s2))
                continue
            if stmt.cause is not None:
                # the cause expression is evaluated for effects/exceptions only
                for k2, c, s2 in self.eval(stmt.cause, s):
                    out.append(("exc", v if k2 == "val" else c, s2))
            else:
                out.append(("exc", v, s))
        return out

    def s_Try(self, stmt, st):
        out = []
        after_body = []
        for k, v, s in self.exec_block(stmt.body, st):
            if k == "exc":
                handled = False
                for h in stmt.handlers:
                    if h.type is None:
                        match = True
                    else:
                        hres = self.eval(h.type, s)
                        if len(hres) != 1 or hres[0][0] != "val":
                            raise Unsupported("except clause expression", h)
                        match = self.exc_matches(v, hres[0][1], s)
                    if match:
                        handled = True
                        saved_active = s.env.get("__active_exc__")
                        s.env["__active_exc__"] = v
                        if h.name:
                            s.env[h.name] = v
                        for k2, v2, s2 in self.exec_block(h.body, s):
                            if saved_active is None:
                                s2.env.pop("__active_exc__", None)
                            else:
                                s2.env["__active_exc__"] = saved_active
                            after_body.append((k2, v2, s2))
                        break
                if not handled:
                    after_body.append((k, v, s))
            elif k == "next":
                after_body += self.exec_block(stmt.orelse, s) if stmt.orelse else [(k, v, s)]
            else:
                after_body.append((k, v, s))
        if not stmt.finalbody:
            return after_body
        for k, v, s in after_body:
            for k2, v2, s2 in self.exec_block(stmt.finalbody, s):
                if k2 == "next":
                    out.append((k, v, s2))
                else:
                    out.append((k2, v2, s2))
        return out

    def s_With(self, stmt, st):
        if len(stmt.items) != 1:
            raise Unsupported("with: several items", stmt)
        item = stmt.items[0]
        out = []
        for k, v, s in self.eval(item.context_expr, st):
            if k == "exc":
                out.append((k, v, s))
                continue
            if item.optional_vars is not None:
                self.assign_target(item.optional_vars, v, s)
            for k2, v2, s2 in self.exec_block(stmt.body, s):
                self.models.context_exit(self, v, s2)
                out.append((k2, v2, s2))
        return out

    def s_FunctionDef(self, stmt, st):
        st.env[stmt.name] = Closure(stmt, st.env, st.frame.module, None, stmt.name)
        return [("next", None, st)]

    def s_Import(self, stmt, st):
        for a in stmt.names:
            st.env[a.asname or a.name.split(".")[0]] = ModuleVal(a.name)
        return [("next", None, st)]

    def s_ImportFrom(self, stmt, st):
        for a in stmt.names:
            st.env[a.asname or a.name] = self.resolve_qualified(f"{stmt.module}.{a.name}", st, stmt)
        return [("next", None, st)]

    def s_Break(self, stmt, st):
        return [("break", None, st)]

    def s_Continue(self, stmt, st):
        return [("continue", None, st)]

    def s_Delete(self, stmt, st):
        out = [("next", None, st)]
        for t in stmt.targets:
            if not isinstance(t, ast.Subscript):
                raise Unsupported("del target", stmt)
            nxt = []
            for k0, _, s0 in out:
                if k0 != "next":
                    nxt.append((k0, _, s0))
                    continue
                for k, vals, s in self.eval_seq([t.value, t.slice], s0):
                    if k == "exc":
                        nxt.append((k, vals, s))
                        continue
                    nxt += self.models.do_delitem(self, vals[0], vals[1], s, t)
            out = nxt
        return out

    # ------------------------------------------------------------------ loops
    def loop_ordinal(self, st, stmt):
        from .extract import loops_of
        fn = st.frame.node
        if fn is None or isinstance(fn, ast.Lambda):
            return None
        ls = loops_of(fn)
        for i, l in enumerate(ls):
            if l is stmt:
                return i
        return None

    def s_While(self, stmt, st):
        spec = self.loop_specs.get((st.frame.name, self.loop_ordinal(st, stmt)))
        if spec is not None:
            return spec.cut(self, stmt, st)
        out = []
        work = [st]
        for it in range(self.MAX_UNROLL + 1):
            if not work:
                return out
            if it == self.MAX_UNROLL:
                raise Unsupported(f"budget: while loop in {st.frame.name} not bounded after {self.MAX_UNROLL} unrollings and no invariant given", stmt)
            nxt = []
            for s in work:
                for k, c, s1 in self.eval(stmt.test, s):
                    if k == "exc":
                        out.append((k, c, s1))
                        continue
                    for b, s2 in self.branch(c, s1):
                        if not b:
                            out += self.exec_block(stmt.orelse, s2) if stmt.orelse else [("next", None, s2)]
                            continue
                        for k3, v3, s3 in self.exec_block(stmt.body, s2):
                            if k3 in ("next", "continue"):
                                nxt.append(s3)
                            elif k3 == "break":
                                out.append(("next", None, s3))
                            else:
                                out.append((k3, v3, s3))
            work = nxt
        return out

    def s_For(self, stmt, st):
        spec = self.loop_specs.get((st.frame.name, self.loop_ordinal(st, stmt)))
        if spec is not None:
            return spec.cut(self, stmt, st)
        out = []
        for k, itv, s in self.eval(stmt.iter, st):
            if k == "exc":
                out.append((k, itv, s))
                continue
            items = self.iterate(itv, s, stmt.iter)
            if len(items) > 5000:
                raise Unsupported("budget: for loop too long to unroll", stmt)
            work = [s]
            for item in items:
                nxt = []
                for s1 in work:
                    self.assign_target(stmt.target, item, s1)
                    for k3, v3, s3 in self.exec_block(stmt.body, s1):
                        if k3 in ("next", "continue"):
                            nxt.append(s3)
                        elif k3 == "break":
                            out.append(("next", None, s3))
                        else:
                            out.append((k3, v3, s3))
                work = nxt
            for s1 in work:
                out += self.exec_block(stmt.orelse, s1) if stmt.orelse else [("next", None, s1)]
        return out
