"""Contracts on a816/parse/ast/expression.py (C06): the real shunting_yard + eval_expression against the reference
semantics, per token shape, for ALL operand values."""
from a816.parse.ast.expression import OPERATOR_PRECEDENCE, eval_expression, eval_number, shunting_yard
from a816.parse.parser_states import parse_expression
from vf.contracts.rt import assume, check
from vf.specs import expr_ref


def eval_shape_contract(node, resolver, tree, env):
    """eval_expression(node) for the token shape of `tree` (operands are identifiers with arbitrary integer values):
    same value as the reference semantics, or the same refusal (complement beyond 32 bits, negative shift count)."""
    try:
        expected = expr_ref.eval_tree(tree, env)
    except RuntimeError:
        try:
            r = eval_expression(node, resolver)
            check("refuses_like_reference", False)
        except RuntimeError:
            check("refuses_like_reference", True)
        return
    except ValueError:
        try:
            r = eval_expression(node, resolver)
            check("negative_shift_refused", False)
        except ValueError:
            check("negative_shift_refused", True)
        return
    r = eval_expression(node, resolver)
    check("value_is_conventional", r == expected)


def eval_shape_from_tokens_contract(p, resolver, tree, env):
    """The same, starting one step earlier: the expression's TOKEN list (identifiers, operators, parentheses, then EOF) goes through
    the real parse_expression -- which decides from the context whether `-` / `~` is a prefix or an infix operator -- and the
    resulting node through the real shunting_yard / eval_expression."""
    node = parse_expression(p)
    check("expression_consumed_exactly", p.pos == len(p.tokens) - 1)
    eval_shape_contract(node, resolver, tree, env)


def precedence_table_contract():
    """Ground facts about the live OPERATOR_PRECEDENCE table (smaller binds tighter): the statement's levels."""
    p = OPERATOR_PRECEDENCE
    check("unary_tightest", p["~"] < p["*"])
    check("mul_before_add", p["*"] < p["+"] and p["+"] == p["-"])
    check("add_before_shift", p["+"] < p["<<"] and p["<<"] == p[">>"])
    check("shift_before_and", p["<<"] < p["&"])
    check("and_before_or", p["&"] < p["|"])


def eval_number_contract(text, value):
    check("literal_value", eval_number(text) == value)


def undefined_identifier_contract(node, resolver):
    from a816.exceptions import SymbolNotDefined
    try:
        r = eval_expression(node, resolver)
        check("undefined_name_raises", False)
    except SymbolNotDefined:
        check("undefined_name_raises", True)
