"""Run-time side of the contract harnesses (one text, two evaluations).

A contract is a *harness function*: ordinary Python that calls the real function of /repo, states its
precondition with `assume(...)` and its postconditions / frame conditions / lemmas with `check("name", ...)`.
  * symbolic evaluation (vf.pyvc): `assume` extends the path condition, every `check` becomes a proof obligation
    "path condition => condition" discharged by z3/cvc5 for ALL inputs of the declared shape;
  * concrete evaluation (CPython, this module): `assume` rejects the input, `check` raises ContractViolation.
    This is what replays a solver counterexample on the real code and what the bounded stand-ins execute.
"""


class ContractViolation(AssertionError):
    def __init__(self, name, detail=""):
        super().__init__(f"{name} {detail}".strip())
        self.name = name


class AssumptionFailed(Exception):
    pass


CHECKS_RUN = []


def assume(cond):
    if not cond:
        raise AssumptionFailed()


def require(name, cond):
    """Precondition inside a spec function (see vf.pyvc.harness._rt_require)."""
    if not cond:
        raise AssumptionFailed()


def check(name, cond):
    CHECKS_RUN.append(name)
    if not cond:
        raise ContractViolation(name)


def flat(log):
    """Concatenation of the pieces written to a file (the pieces' boundaries are not observable)."""
    return b"".join(bytes(x) for x in log)


GHOST = {}


def ghost(name, value):
    """Named ghost value: remembered for spec functions / loop contracts (ghost_get); no effect on the real code."""
    GHOST[name] = value
    return value


def ghost_get(name):
    return GHOST[name]


def make_file(data, mode="r"):
    """A file object of the file model (native: LogFile)."""
    return LogFile(data if not isinstance(data, str) else data.encode("utf-8")) if "b" in mode else TextLogFile(data)


EVENTS = []


def logged(level, text):
    """True when a logger call of that level with exactly that message happened since the harness started
    (symbolic: the event log of the path; native: a capturing logging handler)."""
    return any(l == level and t == text for l, t in EVENTS)


def fresh_int(name):
    """Only meaningful symbolically (an arbitrary integer); concretely the harness must not be reached."""
    raise AssumptionFailed()


def fresh_list(name, minlen, cls=None, fields=()):
    """Only meaningful symbolically (a list of arbitrary length); used by spec functions that stand for a callee."""
    raise AssumptionFailed()


def grow_list(lst, name):
    raise AssumptionFailed()


def fresh_inst(cls, fields=()):
    raise AssumptionFailed()


def opaque(what="value"):
    raise AssumptionFailed()


class LogFile:
    """Native counterpart of the file model: a writable/readable file that also keeps the ghost log of pieces."""

    def __init__(self, data=b""):
        self.written = []
        self.data = bytes(data)
        self.pos = 0
        self.closed = False

    def write(self, b):
        self.written.append(bytes(b) if not isinstance(b, str) else b)
        return len(b)

    def seek(self, n):
        self.written.append(("seek", n))
        self.pos = n
        return n

    def read(self, n=-1):
        if n is None or n < 0:
            n = len(self.data) - self.pos
        r = self.data[self.pos:self.pos + n]
        self.pos += len(r)
        return r

    def peek(self, n=0):
        return self.data[self.pos:self.pos + max(n, 1)]

    def close(self):
        self.closed = True

    def __enter__(self):
        return self

    def __exit__(self, *a):
        self.closed = True
        return False


class TextLogFile(LogFile):
    def __init__(self, data=""):
        super().__init__(b"")
        self.text = data if isinstance(data, str) else bytes(data).decode("utf-8")

    def read(self, n=-1):
        r = self.text[self.pos:] if n is None or n < 0 else self.text[self.pos:self.pos + n]
        self.pos += len(r)
        return r


def _install_log_capture():
    import logging

    class H(logging.Handler):
        def emit(self, record):
            try:
                EVENTS.append((record.levelname.lower(), record.getMessage()))
            except Exception:  # noqa: BLE001
                pass

    h = H()
    for name in ("a816", "x816"):
        lg = logging.getLogger(name)
        lg.addHandler(h)
        lg.setLevel(logging.DEBUG)
        lg.propagate = False


_install_log_capture()


def cli_args(input_file, output_file, fmt, mapping, copier_header, defines, dump_symbols=False):
    """Command line of x816 for the given option values (native: sets sys.argv; symbolic: the namespace the argparse
    model returns from parse_args())."""
    import sys
    argv = ["x816", "-o", output_file, "-f", fmt, "-m", mapping]
    if copier_header:
        argv.append("--copier-header")
    if dump_symbols:
        argv.append("--dump-symbols")
    argv.append(input_file)  # before -D: the option takes one or more values and would swallow the file name
    if defines:
        argv += ["-D"] + list(defines)
    sys.argv = argv
