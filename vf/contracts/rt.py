"""Run-time side of the contract harnesses (one text, two evaluations).

A contract is a *harness function*: ordinary Python that calls the real function of /repo, states its
precondition with `assume(...)` and its postconditions / frame conditions / lemmas with `check("name", ...)`.
  * symbolic evaluation (vf.pyvc): `assume` extends the path condition, every `check` becomes a proof obligation
    "path condition => condition" discharged by z3/cvc5 for ALL inputs of the declared shape;
  * concrete evaluation (CPython, this module): `assume` rejects the input, `check` raises ContractViolation.
    This is what replays a solver counterexample on the real code and what the bounded stand-ins execute.
"""


class ContractViolation(AssertionError):
    def __init__(self, name, detail=""):
        super().__init__(f"{name} {detail}".strip())
        self.name = name


class AssumptionFailed(Exception):
    pass


CHECKS_RUN = []


def assume(cond):
    if not cond:
        raise AssumptionFailed()


def require(name, cond):
    """Precondition inside a spec function (see vf.pyvc.harness._rt_require)."""
    if not cond:
        raise AssumptionFailed()


def check(name, cond):
    CHECKS_RUN.append(name)
    if not cond:
        raise ContractViolation(name)


def ghost(name, value):
    """Named ghost value (no run-time effect); symbolic mode records it for reports."""
    return value


def fresh_int(name):
    """Only meaningful symbolically (an arbitrary integer); concretely the harness must not be reached."""
    raise AssumptionFailed()
