"""Lemmas about the engine's own models of str / bytes methods on sequences of symbolic length (vf/pyvc/models.py symseq_search).  They are
proved symbolically (tools/test_models.py) and -- the point -- run DIFFERENTIALLY against CPython by vf/selftest.py on pinned inputs: the
defining properties used by the models must agree with what Python computes."""
from vf.contracts.rt import check


def find_lemma(text, start):
    r = text.find(";")
    r2 = text.rfind(";")
    check("find_in_range_and_matches", r == -1 or (0 <= r and r < len(text) and text[r] == ";"))
    check("rfind_in_range_and_matches", r2 == -1 or (0 <= r2 and r2 < len(text) and text[r2] == ";"))
    check("first_not_after_last", r <= r2)
    check("both_or_none", (r == -1) == (r2 == -1))
    q = text.find(";", start)
    check("find_from_start", q == -1 or (q >= start and q >= r and text[q] == ";"))
    p = text.find("ab")
    check("two_character_pattern", p == -1 or (text[p] == "a" and text[p + 1] == "b"))
    nl = text.find("\n", start)
    rest = text[start:nl if nl >= 0 else len(text)]
    check("slice_up_to_the_line_end_has_no_line_end", rest.find("\n") == -1)
    return (r, r2, q, p, len(rest))


def strip_lemma(text):
    t = text.strip(" \t")
    l = text.lstrip(" \t")
    r = text.rstrip(" \t")
    check("strip_shorter", len(t) <= len(l) and len(t) <= len(r) and len(l) <= len(text) and len(r) <= len(text))
    check("stripped_ends_are_not_in_the_set", len(t) == 0 or (t[0] != " " and t[0] != "\t" and t[len(t) - 1] != " " and t[len(t) - 1] != "\t"))
    check("lstrip_keeps_the_right_end", len(l) == 0 or l[len(l) - 1] == text[len(text) - 1])
    check("rstrip_keeps_the_left_end", len(r) == 0 or r[0] == text[0])
    check("empty_iff_all_in_the_set", (len(t) == 0) == (len(l) == 0))
    return (len(t), len(l), len(r))


def prefix_lemma(text):
    a = text.startswith("ab")
    b = text.endswith(";x")
    check("startswith_definition", a == (len(text) >= 2 and text[0] == "a" and text[1] == "b"))
    check("endswith_definition", b == (len(text) >= 2 and text[len(text) - 2] == ";" and text[len(text) - 1] == "x"))
    return (a, b)


def bytes_strip_lemma(data):
    t = data.strip(b"\x00\xff")
    check("all_fill_bytes_iff_empty", len(t) == 0 or (t[0] != 0 and t[0] != 0xFF))
    check("not_longer", len(t) <= len(data))
    return len(t)
