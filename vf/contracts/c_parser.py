"""Termination and progress of the recursive-descent parser (C15) on the real a816/parse/parser_states.py, for EVERY token
list: arbitrary length, arbitrary token types and texts (see vf/specs/parsemodel.py for the clauses)."""
from a816.parse.errors import ParserSyntaxError
from a816.parse.tokens import TokenType
from vf.contracts.rt import assume, check, ghost
from vf.specs.parsemodel import remaining


def parser_function_contract(p, fn, rank, delta, eof_raises, no_include, lenient, consumes_all=False):
    """fn(p) returns having consumed at least `delta` tokens, or raises ParserSyntaxError -- nothing else; every call it makes
    decreases the measure (call-site obligations of the callee models) and every loop it runs has a decreasing variant."""
    n = len(p.tokens)
    assume(p.pos >= 0)
    if no_include:
        # `.include` opens and parses another file: its termination is by the nesting depth of the files, not by this measure
        assume(p.current().value != "include")
    pos0 = p.pos
    ghost("measure_rem", remaining(p))
    ghost("measure_rank", rank)
    ghost("located_errors", False)
    try:
        fn(p)
    except ParserSyntaxError:
        return
    except Exception:
        # parse_opcode (KeyError for an index register after an immediate operand) and the `.map` directive (literal_eval of a
        # malformed number) fail with other exception classes: still a reported failure, allowed where `lenient`
        check("fails_with_a_syntax_error_only", lenient)
        return
    check("progress", p.pos >= pos0 + delta)
    if consumes_all:
        # the top-level parser returns only at the end of the input: a token it cannot place (a stray `}` ...) is an error, never a silent stop
        check("whole_input_consumed", p.current().type == TokenType.EOF)
    if eof_raises:
        check("rejects_end_of_input", pos0 < n)


def parser_error_location_contract(p, fn, rank, no_include, first_token_not_end):
    """On a scanner-shaped token list (every token has a position; the list ends with its only EOF token -- assumed in the shape) and called before
    the end marker is consumed: a ParserSyntaxError raised by fn carries a token that HAS a position (MZParser.parse_as_ast turns exactly that token's
    trace into the reported error; a position-less token would make the error None, i.e. success: C14, and an error without file and line: C17);
    and on normal return the end marker is still unconsumed, so the same holds for whoever continues."""
    n = len(p.tokens)
    assume(0 <= p.pos and p.pos < n)
    if first_token_not_end:
        assume(p.pos < n - 1)  # entered on a token the caller has classified (call-site obligation called_on_a_token_that_is_not_the_end_marker)
    if no_include:
        assume(p.current().value != "include")
    ghost("measure_rem", remaining(p))
    ghost("measure_rank", rank)
    ghost("located_errors", True)
    try:
        fn(p)
    except ParserSyntaxError as e:
        check("syntax_error_carries_a_located_token", e.token.position is not None)
        return
    except Exception:
        return
    check("end_marker_never_consumed", p.pos < n)


def inv_parser_located(p, g):
    return p.pos >= g["pos0"] and p.pos < len(p.tokens)


def inv_parser(p, g):
    return p.pos >= g["pos0"]


def var_parser(p):
    return remaining(p)


def inv_true():
    return True


def macro_application_arguments_contract(p, kinds):
    """`m(arg, arg, ...)` from its tokens: every argument -- an expression or a `{ ... }` code block, in ANY position and any mix -- becomes one entry of the
    application's argument list, in the order written; the whole statement is consumed."""
    from a816.parse.ast.nodes import BlockAstNode, ExpressionAstNode, MacroApplyAstNode
    from a816.parse.parser_states import parse_decl
    a = parse_decl(p)
    check("a_macro_application", isinstance(a, MacroApplyAstNode) and a.name == "m")
    check("one_entry_per_argument", len(a.args) == len(kinds))
    i = 0
    for k in kinds:
        check("argument_kinds_in_the_order_written", isinstance(a.args[i], BlockAstNode if k == "block" else ExpressionAstNode))
        i = i + 1
    check("whole_statement_consumed", p.pos == len(p.tokens) - 1)
