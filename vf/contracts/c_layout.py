"""Single-run facts behind C16 (layout independence) on the real parser / codegen: case folding, comments are not
statements, inclusion is splicing."""
from a816.cpu.cpu_65c816 import AddressingMode
from a816.parse.codegen import generate_block
from a816.parse.nodes import LabelNode, OpcodeNode
from a816.parse.parser_states import parse_decl, parse_opcode
from vf.contracts.rt import assume, check


def lower1(c):
    """lower case of a one-letter register / size name (expected value; the letters are drawn from a fixed alphabet)"""
    if c == "B" or c == "b":
        return "b"
    if c == "W" or c == "w":
        return "w"
    if c == "L" or c == "l":
        return "l"
    if c == "X" or c == "x":
        return "x"
    if c == "Y" or c == "y":
        return "y"
    return "s"


def parse_opcode_case_contract(p, size_text, index_text, inner_text, shape):
    """parse_opcode on the token shapes  OP[.size] e[,i]  /  OP[.size] (e,i)  /  OP[.size] (e,s),y  with the size suffix and the
    index registers in EITHER letter case: the AST carries them lower-cased (so `LDA.W 0x10,X` is `lda.w 0x10,x`), and the
    addressing mode does not depend on the case."""
    node = parse_opcode(p)
    if size_text is not None:
        check("size_lower_cased", node.value_size == lower1(size_text))
    else:
        check("no_size", node.value_size is None)
    if shape == "direct_indexed":
        check("mode", node.addressing_mode == AddressingMode.direct_indexed)
        check("index_lower_cased", node.index == lower1(index_text))
    elif shape == "dp_indirect_indexed":
        check("mode", node.addressing_mode == AddressingMode.dp_or_sr_indirect_indexed)
        check("inner_index_lower_cased", node.index == lower1(inner_text))
    elif shape == "indirect_indexed":
        check("mode", node.addressing_mode == AddressingMode.indirect_indexed)
        check("index_lower_cased", node.index == lower1(index_text))
    else:
        check("mode", node.addressing_mode == AddressingMode.direct)
        check("no_index", node.index is None)


def opcode_node_mnemonic_contract(mnemonic_upper, mnemonic_lower, tok, resolver):
    n = OpcodeNode(mnemonic_upper, addressing_mode=AddressingMode.none, file_info=tok, resolver=resolver)
    check("mnemonic_lower_cased", n.opcode == mnemonic_lower)


def comment_is_no_statement_contract(p):
    """A COMMENT token is consumed and yields no statement (comments between statements cannot change the output)."""
    pos0 = p.pos
    r = parse_decl(p)
    check("comment_yields_no_statement", r is None)
    check("exactly_the_comment_consumed", p.pos == pos0 + 1)


def include_is_splicing_contract(block, resolver, tok, names):
    """The AST of an included file is a plain block: generating it opens no scope and yields exactly its statements in place."""
    n0 = len(resolver.scopes)
    scope0 = resolver.current_scope
    defs = {}
    code = generate_block(block, resolver, defs, tok)
    check("statements_in_place", [c.symbol_name for c in code if isinstance(c, LabelNode)] == names and len(code) == len(names))
    check("no_scope_opened", len(resolver.scopes) == n0 and resolver.current_scope is scope0)
    check("macro_definitions_shared_with_the_includer", "inc_macro" in defs)


# ------------------------------------------------------------------------------------------------ spaces (any number, every gap)
def scan_statement_contract(s, name, text, expected_types, expected_values, fold_case=False):
    """The real Scanner.scan on the text of ONE statement in which every gap where the statement allows spaces (indentation, after the
    mnemonic / size suffix, inside brackets, around operators and commas, trailing) holds ANY number of them: the token list -- types and
    texts -- is the one of the densely written statement.  (Spaces therefore cannot change anything downstream of the scanner.)"""
    toks = s.scan(name, text)
    check("same_number_of_tokens", len(toks) == len(expected_types))
    if len(toks) != len(expected_types):
        return
    i = 0
    for t in toks:
        check("same_token_type", t.type == expected_types[i])
        if expected_values[i] is not None:
            if fold_case:
                # letters of the text may be in either case: the token texts agree up to case (mnemonic, suffix, index and hexadecimal digits are folded downstream)
                check("same_token_text_up_to_case", t.value.lower() == expected_values[i])
            else:
                check("same_token_text", t.value == expected_values[i])
        i = i + 1
