"""Expansion (a816/parse/codegen.py) for EVERY AST: scope discipline (C08/C09/C10) and the shape of the recursion (C15).

Each generator, run on the real code with an AST node whose sub-trees are arbitrary (lists of unknown length nobody looks into)
and with _code_gen replaced by the contract of vf/specs/genmodel.py, leaves the resolver as it found it: the scope that was
current is current again, the 'next scope' cursor agrees with the scope list, scopes were only appended.  Every _code_gen call
a generator makes is on a sub-tree of its own node (call-site obligation) -- except macro application and code-block lookup,
whose recursion is explicit in the source and bounded only by CPython's recursion limit.  _code_gen itself is verified
with an arbitrary statement of each kind as the loop's element and the generators replaced by the same contract.
Since the AST is a finite tree, structural recursion terminates; .for iterates max(0, hi - lo) times (range loop)."""
from a816.parse.codegen import _code_gen
from a816.parse.nodes import ByteNode, LongNode, WordNode
from a816.symbols import InternalScope
from vf.contracts.rt import assume, check, ghost, ghost_get


def generator_contract(gen, node, resolver, defs, tok, sub_trees, explicit_recursion, own_scopes=None):
    assume(resolver.last_used_scope == len(resolver.scopes) - 1)
    scope0 = resolver.current_scope
    n0 = len(resolver.scopes)
    ghost("sub_trees", sub_trees)
    ghost("explicit_recursion", explicit_recursion)
    ghost("n_expansions", 0)
    ghost("callee_raised", False)
    ghost("scope_nodes", 0)
    ghost("pop_nodes", 0)
    ghost("callee_scopes", 0)
    try:
        code = gen(node, resolver, defs, tok)
    except Exception:
        return
    check("errors_of_expanded_statements_propagate", not ghost_get("callee_raised"))
    if node.kind != "for":
        # the later passes replay scopes by POSITION: every scope this generator appended itself is announced by exactly one ScopeNode and closed
        # by exactly one PopScopeNode (whatever its body expands to); .for states the same per iteration (step_for)
        own = len(resolver.scopes) - n0 - ghost_get("callee_scopes")
        check("own_scopes_announced_and_closed_by_position_nodes", own == ghost_get("scope_nodes") and own == ghost_get("pop_nodes"))
        if own_scopes is not None:
            # a block, a named scope and a macro application each open exactly ONE scope of their own (what they define is local to it);
            # every other statement kind opens none
            check("opens_exactly_its_own_scope", own == own_scopes)
    check("enclosing_scope_current_again", resolver.current_scope is scope0)
    check("scope_cursor_consistent", resolver.last_used_scope == len(resolver.scopes) - 1)
    check("scopes_only_appended", len(resolver.scopes) >= n0)
    check("returns_a_list", isinstance(code, list))


def code_gen_contract(ast_nodes, resolver, defs):
    assume(resolver.last_used_scope == len(resolver.scopes) - 1)
    scope0 = resolver.current_scope
    n0 = len(resolver.scopes)
    ghost("callee_raised", False)
    ghost("scope_nodes", 0)
    ghost("pop_nodes", 0)
    ghost("callee_scopes", 0)
    try:
        code = _code_gen(ast_nodes, resolver, defs)
    except Exception:
        return
    check("errors_of_expanded_statements_propagate", not ghost_get("callee_raised"))
    check("enclosing_scope_current_again", resolver.current_scope is scope0)
    check("scope_cursor_consistent", resolver.last_used_scope == len(resolver.scopes) - 1)
    check("scopes_only_appended", len(resolver.scopes) >= n0)
    check("returns_a_list", isinstance(code, list))


def inv_expansion(resolver, g):
    return resolver.current_scope is g["scope0"] and resolver.last_used_scope == len(resolver.scopes) - 1 and len(resolver.scopes) >= g["n0"]


def inv_true():
    return True


# ------------------------------------------------------------------------------------------------ .for / .if for ARBITRARY bounds and sub-trees (C10)
def step_for(node, resolver, k, g):
    """one iteration of generate_for's loop, for the arbitrary value k of the loop variable: the body (and nothing else) is expanded
    exactly once, in a fresh loop scope whose parent is the enclosing scope, with the variable bound to k WHILE it is expanded"""
    s = ghost_get("last_expansion_scope")
    return (ghost_get("n_expansions") == 1 and ghost_get("scope_nodes") == 1 and ghost_get("pop_nodes") == 1
            and ghost_get("last_expansion_tree") is node.body.body and isinstance(s, InternalScope)
            and s.parent is g["scope0"] and ghost_get("last_expansion_bindings").get(node.symbol) == k)


def generate_if_selection_contract(node, resolver, defs, tok, v, defined, then_tree, else_tree):
    """.if on ARBITRARY sub-trees: exactly one expansion of the selected block (non-zero -> first; zero or undefined -> else block, if any),
    in the enclosing scope itself (no scope opened by .if)."""
    scope0 = resolver.current_scope
    n0 = len(resolver.scopes)
    ghost("sub_trees", [then_tree, else_tree])
    ghost("explicit_recursion", False)
    ghost("n_expansions", 0)
    ghost("last_expansion_tree", None)
    ghost("last_expansion_scope", None)
    ghost("callee_raised", False)
    ghost("scope_nodes", 0)
    ghost("pop_nodes", 0)
    ghost("callee_scopes", 0)
    from a816.parse.codegen import generate_if
    try:
        generate_if(node, resolver, defs, tok)
    except Exception:
        return
    check("errors_of_expanded_statements_propagate", not ghost_get("callee_raised"))
    if defined and v != 0:
        check("nonzero_expands_the_first_block_once", ghost_get("n_expansions") == 1 and ghost_get("last_expansion_tree") is then_tree)
    elif else_tree is not None:
        check("zero_or_undefined_expands_the_else_block_once", ghost_get("n_expansions") == 1 and ghost_get("last_expansion_tree") is else_tree)
    else:
        check("nothing_expanded_without_else", ghost_get("n_expansions") == 0)
    if ghost_get("n_expansions") == 1:
        check("expanded_in_the_enclosing_scope", ghost_get("last_expansion_scope") is scope0)


# ------------------------------------------------------------------------------------------------ data directives, any number of expressions (C07)
def _data_step(code, expr, resolver, file_info, cls):
    """one iteration of a data directive's loop, for the arbitrary expression `expr` of the list: exactly one node is appended,
    of the directive's class, evaluating exactly that expression (so: one value per expression, in list order)"""
    n = len(code)
    last = code[n - 1]
    return (n == ghost_get("code_len_before_iteration") + 1 and isinstance(last, cls) and last.value_node.expression is expr
            and last.value_node.resolver is resolver and last.value_node.file_info is file_info)


def step_db(code, expr, resolver, file_info):
    return _data_step(code, expr, resolver, file_info, ByteNode)


def step_dw(code, expr, resolver, file_info):
    return _data_step(code, expr, resolver, file_info, WordNode)


def step_dl(code, expr, resolver, file_info):
    return _data_step(code, expr, resolver, file_info, LongNode)
