"""Expansion (a816/parse/codegen.py) for EVERY AST: scope discipline (C08/C09/C10) and the shape of the recursion (C15).

Each generator, run on the real code with an AST node whose sub-trees are arbitrary (lists of unknown length nobody looks into)
and with _code_gen replaced by the contract of vf/specs/genmodel.py, leaves the resolver as it found it: the scope that was
current is current again, the 'next scope' cursor agrees with the scope list, scopes were only appended.  Every _code_gen call
a generator makes is on a sub-tree of its own node (call-site obligation) -- except macro application and code-block lookup,
whose recursion is explicit in the source and bounded only by CPython's recursion limit.  _code_gen itself is verified
with an arbitrary statement of each kind as the loop's element and the generators replaced by the same contract.
Since the AST is a finite tree, structural recursion terminates; .for iterates max(0, hi - lo) times (range loop)."""
from a816.parse.codegen import _code_gen
from vf.contracts.rt import assume, check, ghost


def generator_contract(gen, node, resolver, defs, tok, sub_trees, explicit_recursion):
    assume(resolver.last_used_scope == len(resolver.scopes) - 1)
    scope0 = resolver.current_scope
    n0 = len(resolver.scopes)
    ghost("sub_trees", sub_trees)
    ghost("explicit_recursion", explicit_recursion)
    try:
        code = gen(node, resolver, defs, tok)
    except Exception:
        return
    check("enclosing_scope_current_again", resolver.current_scope is scope0)
    check("scope_cursor_consistent", resolver.last_used_scope == len(resolver.scopes) - 1)
    check("scopes_only_appended", len(resolver.scopes) >= n0)
    check("returns_a_list", isinstance(code, list))


def code_gen_contract(ast_nodes, resolver, defs):
    assume(resolver.last_used_scope == len(resolver.scopes) - 1)
    scope0 = resolver.current_scope
    n0 = len(resolver.scopes)
    try:
        code = _code_gen(ast_nodes, resolver, defs)
    except Exception:
        return
    check("enclosing_scope_current_again", resolver.current_scope is scope0)
    check("scope_cursor_consistent", resolver.last_used_scope == len(resolver.scopes) - 1)
    check("scopes_only_appended", len(resolver.scopes) >= n0)
    check("returns_a_list", isinstance(code, list))


def inv_expansion(resolver, g):
    return resolver.current_scope is g["scope0"] and resolver.last_used_scope == len(resolver.scopes) - 1 and len(resolver.scopes) >= g["n0"]


def inv_true():
    return True
