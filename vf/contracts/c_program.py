"""Contracts on a816/program.py: Program.emit (C03) and Program.resolve_labels (C02), and the node protocol frame."""
from a816.cpu.mapping import Address
from a816.parse.nodes import CodePositionNode, IncludeIpsNode, RelocationAddressNode
from vf.contracts.rt import assume, check, ghost, ghost_get
from vf.specs import busmath, busmodel


def entry_of(bus, bank):
    try:
        return bus.get_mapping_for_bank(bank)
    except KeyError:
        return None


def address_wf(bus, a):
    return a.bus is bus and 0 <= a.logical_value and a.logical_value < 0x1000000 and entry_of(bus, busmath.bank_of(a.logical_value)) is a.mapping


def is_rom(a):
    return a.mapping.writable is False


# ------------------------------------------------------------------------------------------------ Resolver.set_position
def set_position_contract(resolver, target):
    """`*=` / `@=` target: ROM -> the output offset becomes the target's file offset; RAM -> the output offset is left alone;
    the run address becomes the target on the active bus; an unmapped target is rejected and nothing changes."""
    bus = resolver.get_bus()
    pc0 = resolver.pc
    ra0 = resolver.reloc_address
    assume(0 <= target and target < 0x1000000)
    e = entry_of(bus, busmath.bank_of(target))
    try:
        resolver.set_position(target)
    except KeyError:
        check("unmapped_rejected", e is None)
        check("unmapped_changes_nothing", resolver.pc == pc0 and resolver.reloc_address is ra0)
        return
    check("mapped", e is not None)
    ra = resolver.reloc_address
    check("run_address_is_target", address_wf(bus, ra) and ra.logical_value == target)
    if e.writable is False:
        if busmath.in_window(e.mask, target):
            check("rom_offset_set", resolver.pc == busmath.rom_offset(ra.mapping.bank_range[0], e.mask, target))
        check("rom_pc_is_physical", resolver.pc == ra.physical)
    else:
        check("ram_offset_unchanged", resolver.pc == pc0)


# ------------------------------------------------------------------------------------------------ Program.emit
def emit_inv(self, current_block, current_block_addr, writer, g):
    """Invariant of Program.emit's loop.
       WF : the run address is a well-formed address of the active bus
       P  : run address ROM-mapped  =>  resolver.pc is its file offset                    (what C05 assumes)
       J3 : no @= since the last *= and run address ROM  =>  the next byte's offset in the pending block,
            current_block_addr + len(current_block), is resolver.pc = the file offset the mapping assigns to the run address"""
    r = self.resolver
    ra = r.reloc_address
    wf = address_wf(r.get_bus(), ra)
    p = (not is_rom(ra)) or r.pc == ra.physical
    j3 = g["relocated"] or (not is_rom(ra)) or current_block_addr + len(current_block) == r.pc
    return wf and p and j3


def emit_step(self, index, node, node_bytes, current_block, current_block_addr, writer, g):
    """What ONE iteration does to the pending block and to the writer (ghost g holds the values before the iteration)."""
    r = self.resolver
    cb0 = g["cb0"]
    n = len(node_bytes)
    # phase agreement (C02): an iteration only completes when the node is emitted at the address it was given while labels
    # were resolved
    if index < len(self.label_pass_addresses) and self.label_pass_addresses[index] != g["ra0"].logical_value:
        return False
    grown = cb0 + node_bytes if n > 0 else cb0
    if isinstance(node, CodePositionNode):
        # `*=`: the pending block (if any) is handed to the writer exactly once, at its own address; a new block starts at
        # the target's file offset
        flushed = (len(writer.log) == 1 and writer.log[0][0] == g["cba0"] and writer.log[0][1] == grown) if len(grown) > 0 else len(writer.log) == 0
        return flushed and len(current_block) == 0 and current_block_addr == r.pc
    if isinstance(node, IncludeIpsNode):
        ok = len(writer.log) == len(node.blocks) and current_block == grown and current_block_addr == g["cba0"]
        i = 0
        for blk in node.blocks:
            ok = ok and writer.log[i][0] == blk[0] and writer.log[i][1] == blk[1]
            i = i + 1
        return ok
    # every other node (incl. `@=`): its bytes are appended to the pending block, nothing is written, the block address stays
    same = len(writer.log) == 0 and current_block == grown and current_block_addr == g["cba0"]
    if isinstance(node, RelocationAddressNode):
        return same
    # position advance for byte-emitting nodes: offset and run address advance by the number of bytes
    if n == 0:
        return same and r.pc == g["pc0"] and r.reloc_address is g["ra0"]
    return same and r.pc == g["pc0"] + n and r.reloc_address.logical_value == busmodel.address_add_spec(g["ra0"], n).logical_value


def program_emit_contract(program, nodes, writer, kind):
    """Program.emit on a node list of unknown length and content (loop cut at emit_inv, one arbitrary iteration per node
    kind).  After the loop the pending block, if non-empty, is written exactly once at its address (final flush)."""
    r0 = program.resolver
    # precondition of emit: the resolver's position state is consistent (established by Resolver.__init__ / resolver_reset
    # on a fresh resolver, see program_emit_entry_contract): run address well formed, and P
    assume(address_wf(r0.get_bus(), r0.reloc_address))
    assume((not is_rom(r0.reloc_address)) or r0.pc == r0.reloc_address.physical)
    try:
        program.emit(nodes, writer)
    except KeyError:
        return  # a `*=` / `@=` to an unmapped bank, or code running off the mapped range: the assembly fails
    except RuntimeError:
        # phase error (C02): the node is not where the label pass put it: the assembly fails.  Nothing else stops emission: in
        # particular no included record and no placement is refused by emit itself (the WRITER decides what it can represent, C11)
        check("runtime_error_only_on_phase_mismatch", len(program.label_pass_addresses) > 0
              and program.label_pass_addresses[0] != program.resolver.reloc_address.logical_value)
        return
    pending = ghost_get("emit_pending")
    if len(pending[0]) > 0:
        check("final_flush", len(writer.log) == 1 and writer.log[0][0] == pending[1] and writer.log[0][1] == pending[0])
    else:
        check("final_flush", len(writer.log) == 0)


def program_emit_entry_contract(program, writer):
    """The invariant holds when emission starts on a freshly reset resolver, and an empty program writes nothing."""
    program.resolver_reset()
    r = program.resolver
    ra = r.reloc_address
    check("entry_state", address_wf(r.get_bus(), ra) and r.pc == 0)
    program.emit([], writer)
    check("empty_program_writes_nothing", len(writer.log) == 0)


# ------------------------------------------------------------------------------------------------ node protocol frame (E)
def node_frame_contract(node, addr):
    """A node of this class respects frame E of the node protocol: emit / pc_after do not touch the resolver's position state."""
    r = node.resolver
    pc0 = r.pc
    ra0 = r.reloc_address
    bus0 = r.bus
    rt0 = r.rom_type
    try:
        b = node.emit(addr)
    except Exception:
        b = None
    check("emit_frame", r.pc == pc0 and r.reloc_address is ra0 and r.bus is bus0 and r.rom_type == rt0)
    try:
        a2 = node.pc_after(addr)
    except Exception:
        a2 = None
    check("pc_after_frame", r.pc == pc0 and r.reloc_address is ra0 and r.bus is bus0 and r.rom_type == rt0)
