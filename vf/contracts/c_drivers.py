"""Contracts on the drivers of a816/program.py and a816/cli.py (C14: failure is never success; C12: front ends agree)."""
from a816.cpu.cpu_65c816 import RomType
from a816.program import Program
from a816.writers import IPSWriter, SFCWriter
from vf.contracts.rt import assume, check, flat, ghost, ghost_get, logged


def assemble_with_emitter_contract(program, emitter, outcome, file_exists):
    """assemble_with_emitter: status 0 and "Success !" exactly when the in-memory assembler returned None normally; on every
    other outcome (error message, NodeError, RuntimeError, any other exception, missing source file) the status is
    non-zero or the exception propagates, and success is not announced.  The file's text, its name and the emitter
    are handed to the in-memory API unchanged (C12)."""
    assume(0 <= outcome and outcome <= 6)
    ghost("callee_outcome", outcome)
    ghost("fs", {"prog.s": "lda #1\n"} if file_exists else {})
    try:
        status = program.assemble_with_emitter("prog.s", emitter)
    except (KeyError, ValueError, OSError) as e:
        check("exception_only_on_failure", outcome != 0 or not file_exists)
        check("no_success_announced_on_exception", not logged("info", "Success !"))
        return
    except Exception as e:
        check("exception_only_on_failure", outcome != 0 or not file_exists)
        check("no_success_announced_on_exception", not logged("info", "Success !"))
        return
    check("zero_iff_clean", (status == 0) == (outcome == 0 and file_exists))
    check("success_announced_iff_clean", logged("info", "Success !") == (outcome == 0 and file_exists))
    if file_exists:
        args = ghost_get("callee_args")
        check("same_call", args[0] == "lda #1\n" and args[1] == "prog.s" and args[2] is emitter)


def assemble_contract(program, status, outcome, mapping):
    """Program.assemble: the status of assemble_with_emitter is returned unchanged; the emitter is an SFCWriter on the opened
    file; the address mapping given is in force when the assembly starts."""
    ghost("callee_outcome", outcome)
    ghost("status", status)
    ghost("fs", {})
    rom_type_before = program.resolver.rom_type
    try:
        r = program.assemble("prog.s", "out.sfc", mapping)
    except OSError:
        check("exception_only_when_callee_raises", outcome == 7)
        return
    check("status_propagated", r == status and outcome != 7)
    em = ghost_get("emitter_seen")
    check("sfc_writer_on_output_file", isinstance(em, SFCWriter) and em.file is ghost_get("opened:out.sfc"))
    # the image is the blocks applied to an EMPTY image: the output file is created / truncated, never opened for update
    check("output_image_starts_empty", ghost_get("open_mode:out.sfc") == "wb")
    if mapping is not None:
        check("mapping_applied", program.resolver.rom_type == mapping_rom_type(mapping))
    else:
        # no mapping given = keep the one this Program was set to (set_mapping / resolver.rom_type), not a reset to the default
        check("mapping_kept_when_none_is_given", program.resolver.rom_type == rom_type_before)


def assemble_as_patch_contract(program, status, outcome, mapping, copier):
    """Program.assemble_as_patch: status propagated; IPS header before and EOF after the blocks; copier flag and mapping applied."""
    ghost("callee_outcome", outcome)
    ghost("status", status)
    ghost("fs", {})
    rom_type_before = program.resolver.rom_type
    try:
        r = program.assemble_as_patch("prog.s", "out.ips", mapping, copier)
    except OSError:
        check("exception_only_when_callee_raises", outcome == 7)
        return
    check("status_propagated", r == status and outcome != 7)
    em = ghost_get("emitter_seen")
    f = ghost_get("opened:out.ips")
    check("ips_writer_on_output_file", isinstance(em, IPSWriter) and em.file is f and em._copier_header is copier)
    check("output_patch_starts_empty", ghost_get("open_mode:out.ips") == "wb")
    check("patch_framing", flat(f.written) == b"PATCHEOF")
    if mapping == "low":
        check("mapping_applied", program.resolver.rom_type == RomType.low_rom)
    elif mapping == "low2":
        check("mapping_applied", program.resolver.rom_type == RomType.low_rom_2)
    elif mapping == "high":
        check("mapping_applied", program.resolver.rom_type == RomType.high_rom)
    else:
        check("mapping_kept_when_none_is_given", program.resolver.rom_type == rom_type_before)


def assemble_string_contract(program, emitter, parse_error, resolve_outcome, emit_outcome):
    """assemble_string_with_emitter returns None only after parsing reported no error and label resolution and emission
    both returned normally, in that order on the parser's nodes; a parse error is returned as the message."""
    ghost("parse_error", parse_error)
    ghost("resolve_outcome", resolve_outcome)
    ghost("emit_outcome", emit_outcome)
    ghost("trace", [])
    try:
        r = program.assemble_string_with_emitter("src", "t.s", emitter)
    except RuntimeError:
        check("raises_only_when_a_phase_raised", parse_error is None and (resolve_outcome != 0 or emit_outcome != 0))
        return
    if r is None:
        check("none_only_when_all_phases_clean", parse_error is None and resolve_outcome == 0 and emit_outcome == 0)
        check("phases_in_order", ghost_get("trace") == ["parse", "resolve", "emit"])
    else:
        check("error_message_returned", r == parse_error and parse_error is not None)
        check("nothing_emitted_after_parse_error", ghost_get("trace") == ["parse"])


# ------------------------------------------------------------------------------------------------ command line (C12)
def mapping_rom_type(mapping):
    if mapping == "low":
        return RomType.low_rom
    if mapping == "low2":
        return RomType.low_rom_2
    return RomType.high_rom


def cli_main_contract(fmt, mapping, copier, defines, expected_defines, status):
    """cli_main for one point of the option lattice: the selected mapping is in force for BOTH output formats, the copier
    flag reaches the IPS writer, every -D NAME=VALUE is an integer constant of the root scope, input/output paths are passed
    through, and the process exit status is the assembler's status."""
    from a816.cli import cli_main
    from vf.contracts.rt import cli_args
    cli_args("prog.s", "out.bin", fmt, mapping, copier, defines)
    ghost("status", status)
    try:
        cli_main()
        check("exits_with_status", False)
    except SystemExit as e:
        check("exits_with_status", e.args[0] == status)
    check("format_selects_entry_point", ghost_get("entry") == ("patch" if fmt == "ips" else "sfc"))
    call = ghost_get("call")
    check("paths_passed", str(call[0]) == "prog.s" and str(call[1]) == "out.bin")
    rt_at_call = ghost_get("rom_type_at_call")
    want = mapping_rom_type(mapping)
    # the mapping is either already set on the resolver or handed to the entry point, which applies it (C14/C12 contracts of
    # assemble_as_patch / assemble: mapping_applied)
    check("mapping_applied", rt_at_call == want or call[2] == mapping)
    if fmt == "ips":
        check("copier_header_passed", call[3] is copier)
    syms = ghost_get("root_symbols_at_call")
    for name in expected_defines:
        check("define_is_integer_constant", name in syms and syms[name] == expected_defines[name])


def bus_mapping_total_contract(rom_type_name, v):
    """BUS_MAPPING has a bus for every RomType; low2 is the LoROM layout addressed from bank 0x80."""
    from a816.symbols import Resolver
    from vf.specs import busmath
    assume(0 <= v and v < 0x1000000)
    r = Resolver()
    r.rom_type = RomType[rom_type_name]
    bus = r.get_bus()
    check("bus_exists", bus is not None and bus.editable is False)
    if rom_type_name == "low_rom_2":
        bank = busmath.bank_of(v)
        if 0x80 <= bank and bank <= 0xCF and busmath.low16(v) >= 0x8000:
            check("low2_offsets", bus.get_address(v).physical == (bank - 0x80) * 0x8000 + busmath.low16(v) - 0x8000)


def exports_symbol_file_contract(program, expected):
    """exports_symbol_file: one line per label definition made outside loop iterations: 'bb:oooo name'."""
    ghost("fs", {})
    program.exports_symbol_file("out.sym")
    f = ghost_get("opened:out.sym")
    text = "".join(f.written)
    check("symbol_file_text", text == expected)


def token_trace_contract(token):
    """a token that has a position has a trace (the text MZParser.parse_as_ast returns as the error): never None"""
    t = token.trace()
    check("a_located_token_has_a_trace", t is not None)


def parse_as_ast_reports_contract(token):
    """when the parser fails with a syntax error carrying a located token, parse_as_ast returns an error (not None) and no statements"""
    from a816.parse.mzparser import MZParser
    ghost("error_token", token)
    r = MZParser.parse_as_ast("lda (", "t.s")
    check("syntax_error_is_reported", r.error is not None)
    check("no_statements_on_error", len(r.nodes) == 0)
