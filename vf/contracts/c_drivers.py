"""Contracts on the drivers of a816/program.py and a816/cli.py (C14: failure is never success; C12: front ends agree)."""
from a816.cpu.cpu_65c816 import RomType
from a816.program import Program
from a816.writers import IPSWriter, SFCWriter
from vf.contracts.rt import assume, check, flat, ghost, ghost_get, logged


def assemble_with_emitter_contract(program, emitter, outcome, file_exists):
    """assemble_with_emitter: status 0 and "Success !" exactly when the in-memory assembler returned None normally; on every
    other outcome (error message, NodeError, RuntimeError, any other exception, missing source file) the status is
    non-zero or the exception propagates, and success is not announced.  The file's text, its name and the emitter
    are handed to the in-memory API unchanged (C12)."""
    assume(0 <= outcome and outcome <= 6)
    ghost("callee_outcome", outcome)
    ghost("fs", {"prog.s": "lda #1\n"} if file_exists else {})
    try:
        status = program.assemble_with_emitter("prog.s", emitter)
    except (KeyError, ValueError, OSError) as e:
        check("exception_only_on_failure", outcome != 0 or not file_exists)
        check("no_success_announced_on_exception", not logged("info", "Success !"))
        return
    except Exception as e:
        check("exception_only_on_failure", outcome != 0 or not file_exists)
        check("no_success_announced_on_exception", not logged("info", "Success !"))
        return
    check("zero_iff_clean", (status == 0) == (outcome == 0 and file_exists))
    check("success_announced_iff_clean", logged("info", "Success !") == (outcome == 0 and file_exists))
    if file_exists:
        args = ghost_get("callee_args")
        check("same_call", args[0] == "lda #1\n" and args[1] == "prog.s" and args[2] is emitter)


def assemble_contract(program, status, outcome):
    """Program.assemble: the status of assemble_with_emitter is returned unchanged; the emitter is an SFCWriter on the opened file."""
    ghost("callee_outcome", outcome)
    ghost("status", status)
    ghost("fs", {})
    try:
        r = program.assemble("prog.s", "out.sfc")
    except OSError:
        check("exception_only_when_callee_raises", outcome == 7)
        return
    check("status_propagated", r == status and outcome != 7)
    em = ghost_get("emitter_seen")
    check("sfc_writer_on_output_file", isinstance(em, SFCWriter) and em.file is ghost_get("opened:out.sfc"))


def assemble_as_patch_contract(program, status, outcome, mapping, copier):
    """Program.assemble_as_patch: status propagated; IPS header before and EOF after the blocks; copier flag and mapping applied."""
    ghost("callee_outcome", outcome)
    ghost("status", status)
    ghost("fs", {})
    try:
        r = program.assemble_as_patch("prog.s", "out.ips", mapping, copier)
    except OSError:
        check("exception_only_when_callee_raises", outcome == 7)
        return
    check("status_propagated", r == status and outcome != 7)
    em = ghost_get("emitter_seen")
    f = ghost_get("opened:out.ips")
    check("ips_writer_on_output_file", isinstance(em, IPSWriter) and em.file is f and em._copier_header is copier)
    check("patch_framing", flat(f.written) == b"PATCHEOF")
    if mapping == "low":
        check("mapping_applied", program.resolver.rom_type == RomType.low_rom)
    elif mapping == "low2":
        check("mapping_applied", program.resolver.rom_type == RomType.low_rom_2)
    elif mapping == "high":
        check("mapping_applied", program.resolver.rom_type == RomType.high_rom)


def assemble_string_contract(program, emitter, parse_error, resolve_outcome, emit_outcome):
    """assemble_string_with_emitter returns None only after parsing reported no error and label resolution and emission
    both returned normally, in that order on the parser's nodes; a parse error is returned as the message."""
    ghost("parse_error", parse_error)
    ghost("resolve_outcome", resolve_outcome)
    ghost("emit_outcome", emit_outcome)
    ghost("trace", [])
    try:
        r = program.assemble_string_with_emitter("src", "t.s", emitter)
    except RuntimeError:
        check("raises_only_when_a_phase_raised", parse_error is None and (resolve_outcome != 0 or emit_outcome != 0))
        return
    if r is None:
        check("none_only_when_all_phases_clean", parse_error is None and resolve_outcome == 0 and emit_outcome == 0)
        check("phases_in_order", ghost_get("trace") == ["parse", "resolve", "emit"])
    else:
        check("error_message_returned", r == parse_error and parse_error is not None)
        check("nothing_emitted_after_parse_error", ghost_get("trace") == ["parse"])
