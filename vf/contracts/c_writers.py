"""Contracts on a816/writers.py (C11, C12): IPSWriter / SFCWriter against the IPS format definition."""
import struct

from a816.writers import IPSWriter, SFCWriter
from vf.contracts.rt import assume, check, flat, ghost
from vf.specs import le

EOF_OFFSET = 0x454F46  # b"EOF" read as a 3-byte big-endian record offset


def ips_begin_end_contract(w):
    log = w.file.written
    w.begin()
    check("begin_writes_PATCH", flat(log) == b"PATCH")
    w.end()
    check("end_writes_EOF", flat(log) == b"PATCHEOF")


def ips_header_contract(w, block, addr):
    """write_block_header: 3-byte big-endian offset (address + 0x200 when the copier-header option is on) and 2-byte
    big-endian length; an offset IPS cannot represent (negative, >= 2**24, or the one that reads as the EOF marker)
    is refused, never wrapped; nothing else is written."""
    log = w.file.written
    n = len(block)
    off = addr + 0x200 if w._copier_header else addr
    assume(n <= 0xFFFF)
    try:
        w.write_block_header(block, addr)
    except (struct.error, RuntimeError):
        check("refuses_only_unrepresentable", off < 0 or off >= 0x1000000 or off == EOF_OFFSET)
        check("refusal_writes_nothing", len(log) == 0)
        return
    check("representable_offset", 0 <= off and off < 0x1000000 and off != EOF_OFFSET)
    check("offset_be24_then_length_be16", flat(log) == le.be_bytes(off, 3) + le.be_bytes(n, 2))


def ips_write_block_exact_contract(w, block, addr):
    """write_block for blocks of up to two full records + 1 byte (loop unrolled on the real code, symbolic length):
    an empty block writes nothing; up to 65535 bytes -> one record; longer blocks are split at 65535 into records that
    cover the block exactly once, in order, at consecutive offsets."""
    log = w.file.written
    n = len(block)
    off = addr + 0x200 if w._copier_header else addr
    assume(0 <= off and off + n <= 0x1000000)  # the last byte may sit at the top of the 24-bit offset space
    assume(n <= 2 * 0xFFFF + 1)
    assume(off != EOF_OFFSET and off + 0xFFFF != EOF_OFFSET and off + 2 * 0xFFFF != EOF_OFFSET)
    w.write_block(block, addr)
    M = 0xFFFF
    if n == 0:
        check("empty_block_writes_nothing", flat(log) == b"")
    elif n <= M:
        check("one_record", flat(log) == le.be_bytes(off, 3) + le.be_bytes(n, 2) + block)
    elif n <= 2 * M:
        check("two_records", flat(log) == le.be_bytes(off, 3) + le.be_bytes(M, 2) + block[0:M] + le.be_bytes(off + M, 3) + le.be_bytes(n - M, 2) + block[M:n])
    else:
        check("three_records", flat(log) == le.be_bytes(off, 3) + le.be_bytes(M, 2) + block[0:M] + le.be_bytes(off + M, 3) + le.be_bytes(M, 2) + block[M:2 * M]
              + le.be_bytes(off + 2 * M, 3) + le.be_bytes(1, 2) + block[2 * M:n])


def record(off, data):
    return le.be_bytes(off, 3) + le.be_bytes(len(data), 2) + data


def ips_sequence_contract(f, copier, a, addr_a, b, addr_b, c):
    """A writer built by the real constructor, then the writes (A at X), (B at Y), (A at X) again, (C at X, same length as A): each write appends its own record, in write
    order, whatever was written before (a repeated or overlapping write is not merged, reordered or dropped -- the last write wins when the
    file is applied)."""
    w = IPSWriter(f, copier)
    log = f.written
    d = 0x200 if copier else 0
    assume(0 <= addr_a + d and addr_a + d + len(a) < EOF_OFFSET and 0 <= addr_b + d and addr_b + d + len(b) < EOF_OFFSET)
    w.begin()
    w.write_block(a, addr_a)
    w.write_block(b, addr_b)
    w.write_block(a, addr_a)
    w.write_block(c, addr_a)  # same address, same length, other bytes: a rewrite
    w.end()
    check("every_write_is_a_record_in_write_order", flat(log) == b"PATCH" + record(addr_a + d, a) + record(addr_b + d, b) + record(addr_a + d, a) + record(addr_a + d, c) + b"EOF")


def ips_write_block_any_length_contract(w, block, addr):
    """write_block for any length: loop contract (vf/props/C11.py): invariant block_address == addr + k, 0 <= k <= len;
    step: one well-formed record (1 <= n <= 65535 data bytes = block[k:k+n]) at offset addr + k (+0x200), k advances by n;
    variant len - k; exit only at k == len.  Hence the records tile the block exactly once, in order."""
    n = len(block)
    off = addr + 0x200 if w._copier_header else addr
    assume(0 <= off and off + n <= 0x1000000)  # the last byte may sit at the top of the 24-bit offset space
    assume(off > EOF_OFFSET or off + n <= EOF_OFFSET)
    ghost("addr0", addr)
    w.write_block(block, addr)
    check("returns_normally", True)


def ips_write_block_inv(self, block, block_address, k, g):
    return block_address == g["addr0"] + k and 0 <= k and k <= len(block)


def ips_write_block_variant(block, k):
    return len(block) - k


def ips_write_block_step(self, block, block_address, k, g):
    """After one iteration that started at g['k_pre']: exactly one record was appended."""
    log = self.file.written
    k0 = g["k_pre"]
    n = k - k0
    off = g["addr0"] + k0 + 0x200 if self._copier_header else g["addr0"] + k0
    return 1 <= n and n <= 0xFFFF and flat(log) == le.be_bytes(off, 3) + le.be_bytes(n, 2) + block[k0:k]


def sfc_write_block_contract(w, block, addr):
    log = w.file.written
    w.write_block(block, addr)
    check("seek_then_write", len(log) == 2 and log[0] == ("seek", addr) and log[1] == block)
    w.begin()
    w.write_block_header(block, addr)
    w.end()
    check("no_header_or_footer", len(log) == 2)
