"""SMT-side contracts for C19: per-instance state is fresh, the shared default mappings refuse modification."""
from a816.program import Program
from a816.symbols import Resolver, high_rom_bus, low_rom_bus
from vf.contracts.rt import assume, check


def fresh_resolver_contract(v):
    """Two resolvers (two assemblies) share no mutable state: defining a symbol, opening a scope or mapping a bank in one
    is invisible to the other; both start from the same initial position."""
    r1 = Resolver()
    r2 = Resolver()
    check("distinct_buses", r1.bus is not r2.bus and r1.bus.lookup is not r2.bus.lookup and r1.bus.mappings is not r2.bus.mappings)
    check("distinct_scope_lists", r1.scopes is not r2.scopes and r1.current_scope is not r2.current_scope)
    check("distinct_symbol_tables", r1.current_scope.symbols is not r2.current_scope.symbols and r1.current_scope.labels is not r2.current_scope.labels
          and r1.current_scope.code_symbols is not r2.current_scope.code_symbols)
    check("same_initial_state", r1.pc == r2.pc and r1.reloc_address.logical_value == r2.reloc_address.logical_value and r1.rom_type == r2.rom_type
          and r1.last_used_scope == r2.last_used_scope and len(r1.scopes) == 1 and len(r2.scopes) == 1)
    r1.current_scope.add_symbol("s", v)
    r1.append_scope()
    r1.bus.map("x", (0x10, 0x1F), (0x8000, 0xFFFF), 0x8000)
    check("other_resolver_unaffected", "s" not in r2.current_scope.symbols and len(r2.scopes) == 1 and not r2.bus.has_mappings() and r2.get_bus() is low_rom_bus)
    check("default_buses_untouched", 0x10 in low_rom_bus.lookup and low_rom_bus.lookup[0x10] == "1" and "x" not in low_rom_bus.mappings and "x" not in high_rom_bus.mappings)


def default_bus_refuses_contract(which, ident, lo, hi):
    """The shared default mappings are frozen: map / unmap raise and change nothing."""
    bus = low_rom_bus if which == "low" else high_rom_bus
    n_map = len(bus.mappings)
    n_lookup = len(bus.lookup)
    try:
        bus.map(ident, (lo, hi), (0, 0xFFFF), 0x8000)
        check("map_refused", False)
    except RuntimeError:
        check("map_refused", True)
    try:
        bus.unmap("1")
        check("unmap_refused", False)
    except RuntimeError:
        check("unmap_refused", True)
    check("unchanged", len(bus.mappings) == n_map and len(bus.lookup) == n_lookup and bus.editable is False)


def fresh_program_contract():
    p1 = Program()
    p2 = Program()
    check("distinct_resolvers", p1.resolver is not p2.resolver and p1.parser is not p2.parser and p1.parser.resolver is p1.resolver)
    check("distinct_address_records", p1.label_pass_addresses is not p2.label_pass_addresses)
