"""Contracts on a816/parse/codegen.py (C10 conditionals and loops, C09 macros, C08 scope structure)."""
from a816.exceptions import SymbolNotDefined
from a816.parse.codegen import _code_gen, generate_assign, generate_compound, generate_for, generate_if, generate_macro, generate_macro_application, generate_scope
from a816.parse.nodes import ByteNode, LabelNode, PopScopeNode, ScopeNode, SymbolNode
from a816.symbols import InternalScope, NamedScope
from vf.contracts.rt import assume, check, ghost


def label_names(code):
    return [n.symbol_name for n in code if isinstance(n, LabelNode)]


def non_scope_nodes(code):
    return [n for n in code if not isinstance(n, ScopeNode) and not isinstance(n, PopScopeNode)]


# ------------------------------------------------------------------------------------------------ .if (C10)
def generate_if_contract(node, resolver, tok, v, defined, then_names, else_names):
    """.if: exactly the first block when the condition is non-zero (negative included), exactly the else block (or nothing)
    when it is zero or mentions an undefined name; the conditional itself opens no scope and changes no scope."""
    scope0 = resolver.current_scope
    nscopes = len(resolver.scopes)
    code = generate_if(node, resolver, {}, tok)
    names = label_names(code)
    check("only_branch_statements", len(names) == len(code))
    if not defined:
        check("undefined_counts_as_false", names == else_names)
    elif v != 0:
        check("nonzero_selects_first_block", names == then_names)
    else:
        check("zero_selects_else_block", names == else_names)
    check("no_scope_opened", len(resolver.scopes) == nscopes and resolver.current_scope is scope0)


# ------------------------------------------------------------------------------------------------ .for (C10)
def generate_for_contract(node, resolver, tok, a, b, expected_names):
    """.for v := a, b: the body once per v = a .. b-1 in order (none when b <= a), each iteration in its own (loop) scope whose
    parent is the enclosing scope, with v bound to the iteration value WHILE the body is expanded (so nested .if / nested loop
    bounds / expansion-time arguments see it); the enclosing scope is current again afterwards."""
    scope0 = resolver.current_scope
    n0 = len(resolver.scopes)
    outer_before = dict(scope0.symbols)
    code = generate_for(node, resolver, {}, tok)
    count = b - a if b > a else 0
    check("names_in_iteration_order", label_names(code) == expected_names)
    check("enclosing_scope_restored", resolver.current_scope is scope0)
    # the loop variable lives in the iterations' scopes only: nothing is bound in (or leaks into) the enclosing scope, as with the hand-unrolled blocks
    check("enclosing_scope_bindings_untouched", dict(scope0.symbols) == outer_before)
    new_scopes = resolver.scopes[n0:]
    top = [s for s in new_scopes if s.parent is scope0]
    check("one_scope_per_iteration", len(top) == count)
    k = a
    for s in top:
        check("iteration_scope_is_loop_scope", isinstance(s, InternalScope))
        check("loop_variable_bound_in_iteration_scope", s.symbols.get(node.symbol) == k)
        k = k + 1
    opens = [n for n in code if isinstance(n, ScopeNode)]
    closes = [n for n in code if isinstance(n, PopScopeNode)]
    check("balanced_scope_nodes", len(opens) == len(closes) and len(opens) == len(new_scopes))
    if count > 0:
        check("iteration_brackets", isinstance(code[0], ScopeNode) and isinstance(code[len(code) - 1], PopScopeNode))


# ------------------------------------------------------------------------------------------------ `:=` binds in the current scope only (C08)
def generate_assign_frame_contract(node, resolver, tok, outer_value, value):
    """`name := expr` inside a scope whose enclosing scope already binds the name: the name is bound in the CURRENT scope (shadowing); the
    enclosing scope's binding is untouched; nothing is emitted and no scope is opened."""
    inner = resolver.current_scope
    outer = inner.parent
    code = generate_assign(node, resolver, {}, tok)
    check("bound_in_the_current_scope", inner.symbols.get(node.symbol) == value)
    # a second assignment in the same scope (default, then override; step-wise values) REPLACES the first: the last one written wins
    code2 = generate_assign(node, resolver, {}, tok)
    check("reassignment_keeps_the_last_value", inner.symbols.get(node.symbol) == value)
    inner.add_symbol("again", 1)
    inner.add_symbol("again", 2)
    check("add_symbol_replaces", inner.symbols.get("again") == 2)
    check("enclosing_binding_untouched", outer.symbols.get(node.symbol) == outer_value)
    check("nothing_emitted", len(code) == 0)
    check("current_scope_unchanged", resolver.current_scope is inner)


# ------------------------------------------------------------------------------------------------ macros (C09)
def macro_application_contract(macro_def, apply_node, resolver, tok, expected_bytes_values, expected_labels, expected_deferred):
    """Applying a macro = its body expanded in a fresh block at the call site, each parameter bound to its argument AS EVALUATED
    AT THE CALL SITE (independently of the parameters bound before it); an argument that cannot be evaluated yet (forward
    label) is deferred and later evaluated in the call-site scope; labels of the body are local to the application."""
    defs = {}
    generate_macro(macro_def, resolver, defs, tok)
    scope0 = resolver.current_scope
    outer_before = dict(scope0.symbols)
    n0 = len(resolver.scopes)
    code = generate_macro_application(apply_node, resolver, defs, tok)
    check("fresh_block_structure", isinstance(code[0], ScopeNode) and isinstance(code[len(code) - 1], PopScopeNode))
    check("call_site_scope_restored", resolver.current_scope is scope0)
    check("one_fresh_scope", len(resolver.scopes) >= n0 + 1 and resolver.scopes[n0].parent is scope0 and not isinstance(resolver.scopes[n0], NamedScope))
    app_scope = resolver.scopes[n0]
    for name in expected_bytes_values:
        check("parameter_bound_to_call_site_value", app_scope.symbols.get(name) == expected_bytes_values[name])
    check("caller_scope_untouched", dict(scope0.symbols) == outer_before)
    check("body_labels_in_order", label_names(code) == expected_labels)
    deferred = [n.symbol_name for n in code if isinstance(n, SymbolNode)]
    check("deferred_arguments", deferred == expected_deferred)


def macro_errors_contract(macro_def, apply_node, resolver, tok, kind):
    """Applying an undefined macro, or supplying too few arguments, fails."""
    defs = {}
    if kind != "undefined":
        generate_macro(macro_def, resolver, defs, tok)
    try:
        code = generate_macro_application(apply_node, resolver, defs, tok)
        check("application_fails", False)
    except (KeyError, IndexError):
        check("application_fails", True)


def deferred_argument_contract(node, addr, expected):
    """A deferred macro argument (SymbolNode) is evaluated, when labels are known, in the scope of the CALL SITE, and bound in
    the application's scope."""
    scope = node.resolver.current_scope
    r = node.pc_after(addr)
    check("deferred_value_from_call_site", scope.symbols.get(node.symbol_name) == expected)
    check("current_scope_kept", node.resolver.current_scope is scope)
    check("address_unchanged", r is addr)


# ------------------------------------------------------------------------------------------------ scope structure (C08)
def balanced_scope_contract(kind, node, resolver, tok, inner_names):
    """A block / named scope opens exactly one scope whose parent is the enclosing scope, brackets its statements between a
    ScopeNode and a PopScopeNode, and makes the enclosing scope current again."""
    scope0 = resolver.current_scope
    n0 = len(resolver.scopes)
    if kind == "compound":
        code = generate_compound(node, resolver, {}, tok)
    else:
        code = generate_scope(node, resolver, {}, tok)
    check("brackets", isinstance(code[0], ScopeNode) and isinstance(code[len(code) - 1], PopScopeNode))
    check("one_scope_with_enclosing_parent", len(resolver.scopes) == n0 + 1 and resolver.scopes[n0].parent is scope0)
    check("enclosing_scope_current_again", resolver.current_scope is scope0)
    check("statements_inside", label_names(code) == inner_names)
    if kind == "scope":
        check("named_scope", isinstance(resolver.scopes[n0], NamedScope) and resolver.scopes[n0].name == node.name)
    else:
        check("anonymous_scope", not isinstance(resolver.scopes[n0], NamedScope) and not isinstance(resolver.scopes[n0], InternalScope))


def deferred_application_contract(macro_def, apply_node, resolver, tok, addr, late_name, late_value, param, expected):
    """Forward reference in an argument: the application defers the binding; once the late symbol exists in the CALL-SITE scope,
    the deferred node (visited with the application's scope current, as the passes do) binds the parameter to the argument's
    call-site value."""
    defs = {}
    generate_macro(macro_def, resolver, defs, tok)
    scope0 = resolver.current_scope
    n0 = len(resolver.scopes)
    code = generate_macro_application(apply_node, resolver, defs, tok)
    app_scope = resolver.scopes[n0]
    deferred = [n for n in code if isinstance(n, SymbolNode)]
    check("one_deferred_binding", len(deferred) == 1 and deferred[0].symbol_name == param)
    scope0.add_symbol(late_name, late_value)
    resolver.current_scope = app_scope
    deferred[0].pc_after(addr)
    check("deferred_value_is_call_site_value", app_scope.symbols.get(param) == expected)
    check("application_scope_still_current", resolver.current_scope is app_scope)


def code_block_argument_contract(macro_def, apply_node, resolver, tok, expected_labels, expected_scopes):
    """A code-block argument is expanded wherever the parameter is spliced -- also from a scope nested inside the macro body."""
    defs = {}
    generate_macro(macro_def, resolver, defs, tok)
    code = generate_macro_application(apply_node, resolver, defs, tok)
    check("block_spliced_where_referenced", label_names(code) == expected_labels)
    check("call_site_scope_restored", resolver.current_scope is resolver.scopes[0])
    # the block is expanded IN PLACE: the splice opens no scope of its own, so what the block defines is visible to the rest of the macro body
    opened = [n for n in code if isinstance(n, ScopeNode)]
    check("splice_opens_no_scope_of_its_own", len(opened) == expected_scopes)


def unselected_definitions_contract(ast, resolver, v, selected_value, default_value):
    """A `.macro` definition is a statement like any other: written inside a conditional block (or a loop body) it takes effect exactly when that block is
    assembled -- `.macro put() {.db A}  .if c { .macro put() {.db B} }  put()` emits B when c is non-zero and A otherwise (the DEBUG / RELEASE pattern);
    inside a loop that runs zero times it takes no effect at all."""
    from a816.parse.codegen import code_gen
    code = code_gen(ast, resolver)
    data = [n for n in code if isinstance(n, ByteNode)]
    check("one_data_byte", len(data) == 1)
    got = data[0].value_node.get_value()
    if v != 0:
        check("definition_in_the_selected_block_takes_effect", got == selected_value)
    else:
        check("definition_in_an_unselected_block_has_no_effect", got == default_value)
