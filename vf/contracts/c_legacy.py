"""Contracts for C20: legacy conversions of a816/cpu/cpu_65c816.py and the pointer formulas of script/formulas.py."""
import struct

from a816.cpu.cpu_65c816 import RomType, rom_to_snes, snes_to_rom
from script.formulas import base_relative_16bits_pointer_formula, long_low_rom_pointer
from vf.contracts.rt import assume, check
from vf.specs import busmath, le


def first_bank(mode):
    if mode == RomType.low_rom:
        return 0x00
    if mode == RomType.low_rom_2:
        return 0x80
    return 0xC0


def bank_size(mode):
    if mode == RomType.high_rom:
        return 0x10000
    return 0x8000


def rom_to_snes_contract(o, mode, lorom_bus, hirom_bus):
    assume(0 <= o and o < 0x400000)
    r = rom_to_snes(o, mode)
    check("textbook_address", r == busmath.rom_address(first_bank(mode), bank_size(mode), o))
    # agreement with the mapping the assembler uses, wherever the built-in bus maps the resulting bank as ROM
    if mode == RomType.low_rom:
        if o < 0x380000:
            check("agrees_with_bus", lorom_bus.get_address(r).physical == o)
    elif mode == RomType.low_rom_2:
        if o < 0x280000:
            check("agrees_with_bus", lorom_bus.get_address(r).physical == o)
    else:
        check("agrees_with_bus", hirom_bus.get_address(r).physical == o)
    if mode != RomType.low_rom_2 or o < 0x200000:
        check("snes_to_rom_inverse", snes_to_rom(r) == o)


def long_low_rom_pointer_contract(base, p):
    """(base, pointer) pairs in range: the offset base + p has a 3-byte LoROM address (bank <= 0xFF).
    Out-of-range pairs are outside the statement's quantifier: nothing is claimed for them."""
    f = long_low_rom_pointer(base)
    o = base + p
    assume(0 <= o and o < 0x800000)
    r = f(p)
    check("le24_of_lorom_address", le.is_le(r, busmath.rom_address(0x00, 0x8000, o), 3))


def base_relative_contract(base, v):
    f = base_relative_16bits_pointer_formula(base)
    r = f(v)
    check("le16_plus_base", r == v[0] + 256 * v[1] + base)
