"""Contracts on a816/cpu/cpu_65c816.py and the opcode/data nodes of a816/parse/nodes.py (C01, C07, C05, C02-S)."""
import struct

from a816.cpu.cpu_65c816 import AddressingMode, NoOpcodeForOperandSize, Opcode, guess_value_size
from a816.parse.nodes import ByteNode, ExpressionNode, LongNode, NodeError, OpcodeNode, PointerNode, WordNode
from vf.contracts.rt import assume, check, ghost, require
from a816.parse.codegen import _code_gen, generate_opcode
from a816.parse.errors import ParserSyntaxError
from a816.parse.parser_states import parse_decl, parse_opcode
from vf.specs import isa65816, le, syntax
from vf.specs.supported_set import SUPPORTED, SUPPORTED_FORMS

WIDTH = {"b": 1, "w": 2, "l": 3}


def smallest_width(v):
    """The statement's rule for an operand without suffix (v >= 0)."""
    if v <= 0xFF:
        return "b"
    if v <= 0xFFFF:
        return "w"
    return "l"


def emit_value_contract(op, vn, size, v):
    """Opcode.emit_value: the operand truncated to the width, little-endian (two's complement); for .l a value that does
    not fit may be refused (struct.error) instead -- the statement speaks of accepted statements only."""
    try:
        r = op.emit_value(vn, size)
    except struct.error:
        check("refusal_only_for_long_out_of_range", size == "l" and not (0 <= v and v < 0x1000000))
        return
    check("le_truncation", le.is_le(r, v, WIDTH[size]))


def operand_size_contract(vn, v):
    assume(0 <= v)
    s = vn.get_operand_size()
    check("smallest_width", s == smallest_width(v))
    check("guess_uses_suffix", guess_value_size(vn, "w") == "w" and guess_value_size(vn, None) == s and guess_value_size(vn, "") == s)


def opcode_emit_contract(op, vn, size, v, resolver):
    """Opcode.emit / supposed_length on an arbitrary 3-cell definition: byte of the cell of the effective width followed by
    the operand; an absent cell is refused; the predicted length equals the emitted length (C02 clause S)."""
    assume(0 <= v)
    eff = size if size else smallest_width(v)
    k = WIDTH[eff] - 1
    cell = op.opcode_def[k] if k < len(op.opcode_def) else None
    try:
        r = op.emit(vn, resolver, size)
    except NoOpcodeForOperandSize:
        check("absent_cell_refused", cell is None)
        return
    except struct.error:
        check("refusal_only_for_long_out_of_range", eff == "l" and not (v < 0x1000000))
        return
    check("present_cell", cell is not None)
    check("opcode_then_operand", r[0] == cell and le.is_le(r[1:], v, WIDTH[eff]))
    check("length_agreement", op.supposed_length(vn, size) == len(r))


MODES = ["none", "immediate", "direct", "direct_indexed", "indirect", "indirect_indexed", "indirect_long", "indirect_indexed_long",
         "dp_or_sr_indirect_indexed", "stack_indexed_indirect_indexed"]
INDEXED_MODES = ("direct_indexed", "indirect_indexed", "indirect_indexed_long", "dp_or_sr_indirect_indexed", "stack_indexed_indirect_indexed")


def indexes_of(mode_name):
    """Index registers an OpcodeNode of this mode can carry (generate_opcode passes the index for indexed modes only)."""
    if mode_name in INDEXED_MODES:
        return (None, "x", "y", "s")
    return (None,)


def table_mnemonic_contract(mnemonic, expr, resolver, tok, addr, v):
    """Every cell of the cross product mode x index x width for one mnemonic, on the live table, through the real
    OpcodeNode._get_emitter / emit: either exactly the ISA instruction + operand, or rejected; never another instruction;
    every cell of the frozen supported set is accepted."""
    assume(0 <= v and v < 0x1000000)
    for mode_name in MODES:
        mode = AddressingMode[mode_name]
        for index in indexes_of(mode_name):
            for size in ("b", "w", "l"):
                form = isa65816.form_of(mode_name, index, size)
                expected = isa65816.opcode(mnemonic, form, size)
                if mode_name == "none":
                    node = OpcodeNode(mnemonic, addressing_mode=mode, index=index, file_info=tok, resolver=resolver)
                    if size != "b":
                        continue
                else:
                    node = OpcodeNode(mnemonic, size=size, addressing_mode=mode, index=index, value_node=ExpressionNode(expr, resolver, tok),
                                      file_info=tok, resolver=resolver)
                try:
                    r = node.emit(addr)
                except (NodeError, KeyError):
                    check("supported_cell_accepted", (mnemonic, mode_name, index, None if mode_name == "none" else size) not in SUPPORTED)
                    continue
                check("only_isa_instructions", expected is not None)
                check("opcode_byte", r[0] == expected)
                if mode_name == "none":
                    check("implied_is_one_byte", len(r) == 1)
                else:
                    check("operand_le", le.is_le(r[1:], v, WIDTH[size]))
                # C02 clause S for every cell: the size given while labels are resolved is the number of bytes emitted
                check("label_pass_size_is_emitted_size", node.pc_after(addr).physical == addr.physical + len(r))


def table_mnemonic_nosuffix_contract(mnemonic, expr, resolver, tok, addr, v):
    """Without a suffix the width is the smallest of 1/2/3 bytes that holds the (non-negative) value: the statement
    assembled is the one with that explicit suffix, or it is rejected like that one."""
    assume(0 <= v and v < 0x1000000)
    eff = smallest_width(v)
    for mode_name in MODES[1:]:
        mode = AddressingMode[mode_name]
        for index in indexes_of(mode_name):
            form = isa65816.form_of(mode_name, index, eff)
            expected = isa65816.opcode(mnemonic, form, eff)
            node = OpcodeNode(mnemonic, addressing_mode=mode, index=index, value_node=ExpressionNode(expr, resolver, tok), file_info=tok, resolver=resolver)
            try:
                r = node.emit(addr)
            except (NodeError, KeyError):
                check("supported_cell_accepted_nosuffix", (mnemonic, mode_name, index, eff) not in SUPPORTED)
                continue
            check("only_isa_instructions_nosuffix", expected is not None)
            check("opcode_byte_nosuffix", r[0] == expected)
            check("operand_le_nosuffix", le.is_le(r[1:], v, WIDTH[eff]))
            check("label_pass_size_is_emitted_size_nosuffix", node.pc_after(addr).physical == addr.physical + len(r))


def lower_size(c):
    if c == "B" or c == "b":
        return "b"
    if c == "W" or c == "w":
        return "w"
    return "l"


def statement_tokens_contract(p, resolver, shape, size_text, mnemonic, operand_value):
    """Operand syntax -> addressing mode (the link between the source text's tokens and the table obligations): for each
    operand shape of the statement, with or without a size suffix in either letter case, the real parse_opcode and
    generate_opcode yield ONE OpcodeNode whose (mode, index) denotes -- through isa65816.form_of, the same function the table
    obligations use -- exactly the 65c816 form the syntax denotes (vf/specs/syntax.py) at every width, or nothing at all
    (such a node is rejected: table obligations `only_isa_instructions`); the suffix is carried lower-cased, the mnemonic
    lower-cased, and the operand evaluates to the value of the expression written between the brackets / after the `#`."""
    try:
        a = parse_opcode(p)
    except (ParserSyntaxError, KeyError):
        check("only_malformed_shapes_are_refused_by_the_parser", syntax.denotes_nothing(shape))
        return
    check("whole_statement_consumed", p.pos == len(p.tokens) - 1)
    code = generate_opcode(a, resolver, {}, a.file_info)
    check("one_node", len(code) == 1 and isinstance(code[0], OpcodeNode))
    node = code[0]
    check("mnemonic_lower_cased", node.opcode == mnemonic)
    if size_text is None or shape == "implied":
        check("no_suffix_no_size", node.size is None)  # an implied instruction has no operand: a suffix has nothing to size
    else:
        check("suffix_is_the_size", node.size == lower_size(size_text))
    for w in ("b", "w", "l"):
        check("mode_denotes_the_syntax_form", isa65816.form_of(node.addressing_mode.name, node.index, w) == syntax.form(shape, w))
    if shape == "implied" or node.value_node is None:
        check("no_operand", shape == "implied" and node.value_node is None)  # only the implied form has no operand
    else:
        # the operand is the expression written in the statement: its value (real eval_expression, e and f bound to ANY integers)
        check("operand_value_is_the_written_expression", node.value_node.get_value() == operand_value)


def statement_bytes_contract(p, resolver, addr, shape, size_text, mnemonic, v):
    """END TO END from the token list of one instruction statement (any mnemonic of the live table, any operand shape of the
    statement, optional suffix in either case, operand `e` bound to ANY value 0 <= v < 2**24): the real parse_opcode ->
    generate_opcode -> OpcodeNode.emit either produce exactly the ISA opcode of the form the SYNTAX denotes at the explicit /
    inferred width followed by the little-endian operand, or reject the statement -- and a statement of the supported set is
    never rejected.  (No appeal to the assembler's own addressing-mode names.)"""
    assume(0 <= v and v < 0x1000000)
    w = lower_size(size_text) if size_text is not None else smallest_width(v)
    form = syntax.form(shape, w)
    expected = isa65816.opcode(mnemonic, form, w)
    try:
        a = parse_opcode(p)
        code = generate_opcode(a, resolver, {}, a.file_info)
        r = code[0].emit(addr)
    except (ParserSyntaxError, KeyError, NodeError):
        check("supported_statement_accepted", (mnemonic, form, None if form == "imp" else w) not in SUPPORTED_FORMS)
        return
    check("only_isa_instructions", expected is not None)
    check("opcode_of_the_denoted_form", r[0] == expected)
    if shape == "implied":
        check("implied_is_one_byte", len(r) == 1)
    else:
        check("operand_le_at_the_width", le.is_le(r[1:], v, WIDTH[w]))


def opcode_node_size_agreement_contract(node, addr, v):
    """OpcodeNode.pc_after advances by exactly the number of bytes OpcodeNode.emit produces (C02 clause S), for any emitter
    of the live table reachable from the node, any suffix and any operand value -- or one of them rejects the statement."""
    assume(0 <= v and v < 0x1000000)
    try:
        r = node.emit(addr)
    except (NodeError, KeyError):
        return
    after = node.pc_after(addr)
    check("size_agreement", after.physical == addr.physical + len(r))


def get_operand_size_spec(self):
    """Functional contract of ValueNodeProtocol.get_operand_size (established by operand_size_contract)."""
    v = self.get_value()
    require("non_negative_operand", 0 <= v)
    return smallest_width(v)


# ------------------------------------------------------------------------------------------- data directives (C07)
def data_node_contract(kind, vn, v, addr):
    """ByteNode/WordNode/LongNode/PointerNode: value truncated to 1/2/3/3 bytes little-endian (two's complement),
    for every integer; the node occupies exactly that many bytes in the layout."""
    if kind == "db":
        node = ByteNode(vn)
        k = 1
    elif kind == "dw":
        node = WordNode(vn)
        k = 2
    elif kind == "dl":
        node = LongNode(vn)
        k = 3
    else:
        node = PointerNode(vn)
        k = 3
    r = node.emit(addr)
    check("le_truncation", le.is_le(r, v, k))
    after = node.pc_after(addr)
    check("occupies_k_bytes", after.physical == addr.physical + k)


def data_statement_bytes_contract(p, resolver, addr, kind, values):
    """END TO END from the token list of one data directive (`.db a, b, ...` etc., identifiers bound to ANY integers): the real
    parse_decl -> _code_gen -> real eval_expression -> emit yield, concatenated, the listed values in order, each truncated to the
    directive's width, little-endian; each node occupies its width in the layout."""
    k = {"db": 1, "dw": 2, "dl": 3, "pointer": 3}[kind]
    a = parse_decl(p)
    check("whole_directive_consumed", p.pos == len(p.tokens) - 1)
    code = _code_gen([a], resolver, {})
    check("one_node_per_value", len(code) == len(values))
    i = 0
    for node in code:
        r = node.emit(addr)
        check("value_in_list_order_le_truncated", le.is_le(r, values[i], k))
        check("occupies_its_width", node.pc_after(addr).physical == addr.physical + k)
        i = i + 1


def generate_data_contract(kind, node, resolver, tok, exprs):
    """generate_db/dw/dl and the 'pointer' generator: one node per listed expression, in order, of the directive's width."""
    from a816.parse.codegen import generators
    code = generators[kind](node, resolver, {}, tok)
    check("one_node_per_expression", len(code) == len(exprs))
    i = 0
    for n in code:
        if kind == "db":
            check("node_kind", isinstance(n, ByteNode))
        elif kind == "dw":
            check("node_kind", isinstance(n, WordNode))
        else:
            check("node_kind", isinstance(n, LongNode) or isinstance(n, PointerNode))
        check("in_order", n.value_node.expression is exprs[i] and n.value_node.resolver is resolver)
        i = i + 1


def binary_node_contract(node, resolver, addr, content):
    """BinaryNode: emits the file's bytes verbatim; defines <file>_<ext> = its start address and <file>_<ext>__size = its length;
    occupies exactly len(content) bytes (bank-crossing lengths go through Address.__add__'s contract)."""
    scope = resolver.current_scope
    n = len(content)
    r = node.emit(addr)
    check("verbatim", r == content)
    after = node.pc_after(addr)
    check("occupies_len_bytes", after.physical == addr.physical + n)
    check("start_symbol", scope.symbols[node.symbol_base] == addr.logical_value and scope.labels[node.symbol_base] == addr.logical_value)
    check("size_symbol", scope.symbols[node.symbol_base + "__size"] == n)
    # ... defined in the scope the directive is written in, and nowhere else (two inclusions of one file from two scopes keep their own start symbols)
    outer = scope.parent
    check("symbols_local_to_the_directive_scope", outer is None or (node.symbol_base not in outer.symbols and node.symbol_base + "__size" not in outer.symbols
                                                                  and node.symbol_base not in outer.labels))


def binary_node_init_contract(path, resolver, content):
    """BinaryNode.__init__: the node's content is the named file's content at the time the directive is expanded."""
    from a816.parse.nodes import BinaryNode
    ghost("fs", {path: content})
    node = BinaryNode(path, resolver)
    check("content_is_file_content", node.binary_content == content)
    check("symbol_base", node.symbol_base == "data_file_bin" and node.file_path == path and node.resolver is resolver)


# ------------------------------------------------------------------------------------------- relative branches (C05)
def bus_entry(bus, bank):
    try:
        return bus.get_mapping_for_bank(bank)
    except KeyError:
        return None


def branch_contract(op, vn, resolver, t, expected_opcode):
    """RelativeJumpOpcode.emit.  Precondition P (established by Program.emit, C03): when the run address is ROM-mapped,
    resolver.pc is its file offset.  ROM -> ROM in the same bank, both in the bank window: opcode + two's-complement
    (t - (a + 2)) with -128 <= t - (a + 2) <= 127, anything else is rejected; a RAM run address or RAM/unmapped target is rejected."""
    from vf.specs import busmath
    a_addr = resolver.reloc_address
    a = a_addr.logical_value
    bus = resolver.get_bus()
    assume(0 <= a and a < 0x1000000)
    assume(0 <= t and t < 0x1000000)
    run_rom = a_addr.mapping.writable is False
    if run_rom:
        assume(busmath.in_window(a_addr.mapping.mask, a))
        assume(resolver.pc == a_addr.physical)
    te = bus_entry(bus, busmath.bank_of(t))
    target_rom = te is not None and te.writable is False
    same_bank = busmath.bank_of(t) == busmath.bank_of(a)
    d = t - (a + 2)
    try:
        r = op.emit(vn, resolver, None)
    except (RuntimeError, struct.error, KeyError):
        if run_rom and target_rom and same_bank and busmath.in_window(te.mask, t):
            check("in_range_branch_accepted", d < -128 or d > 127)
        return
    check("ram_run_address_rejected", run_rom)
    check("ram_or_unmapped_target_rejected", target_rom)
    if same_bank and busmath.in_window(te.mask, t):
        check("never_wraps", -128 <= d and d <= 127)
        check("opcode_and_displacement", len(r) == 2 and r[0] == expected_opcode and r[1] == d % 256)
    check("two_bytes", len(r) == 2 and op.supposed_length(vn, None) == 2)


def quoted_string_directive_contract(p):
    """The helper shared by every directive that takes a quoted string (.ascii, .text, .include, .incbin, .table, .include_ips): for a QUOTED_STRING token of
    ANY text, exactly the two delimiters are dropped -- the first and the last character -- and everything between them is returned unchanged (also a
    quote that is part of the text, e.g. the escaped quote ending `'say \\'hi\\''`)."""
    from a816.parse.parser_states import parse_directive_with_quoted_string
    v = p.current().value
    n = len(v)
    r = parse_directive_with_quoted_string(p)
    check("only_the_two_delimiters_are_dropped", len(r) == n - 2)
    check("first_and_last_character_of_the_text_kept", len(r) == 0 or (r[0] == v[1] and r[len(r) - 1] == v[n - 2]))
    check("token_consumed", p.pos == 1)
