"""Contracts for C18: script.Table.to_bytes against the reference longest-match semantics; Scope.get_table; TextNode."""
from script import Table
from vf.contracts.rt import assume, check
from vf.specs import table_ref


def build_table(lines):
    t = Table()
    for line in lines:
        t.parse_table_line(line)
    t.max_bytes_length = len(max(t.lookup.values(), key=len))
    t.max_text_length = len(max(t.lookup.keys(), key=len))
    return t


def to_bytes_contract(lines, entries, text):
    """Table.to_bytes on a table built by the real parse_table_line from `lines`, for EVERY text of the given length over the
    table alphabet + escape characters + unknown characters: exactly the reference encoding (longest match at each
    position, '[0xNN]' -> raw byte, unknown characters skipped)."""
    t = build_table(lines)
    check("table_parsed", len(t.lookup) == len(entries))
    try:
        expected = table_ref.encode(entries, text)
    except ValueError:
        return
    ok = True
    for b in expected:
        ok = ok and 0 <= b and b <= 255
    assume(ok)  # an escape above 0xFF is not a byte: the directive is rejected (ValueError), nothing claimed
    r = t.to_bytes(text)
    check("longest_match_encoding", list(r) == expected)


def get_table_contract(scope, own, parent_kind, parent_table):
    """Scope.get_table: the scope's own table if it loaded one, else the nearest enclosing scope's, else none."""
    r = scope.get_table()
    if own is not None:
        check("own_table_first", r is own)
    elif parent_kind == "top-level":
        check("no_table", r is None)
    else:
        check("enclosing_table", r is parent_table)


def text_node_contract(node, addr, table, text):
    """TextNode: emits table.to_bytes(text) and occupies exactly that many bytes (same bytes in the layout pass and at emission)."""
    b1 = node.emit(addr)
    n = len(b1)
    after = node.pc_after(addr)
    check("occupies_emitted_length", after.physical == addr.physical + n)
    check("emission_repeatable", node.emit(addr) == b1)


def table_node_contract(resolver, inner, outer, outer_table):
    """`.table` loads the table INTO THE SCOPE IT IS WRITTEN IN -- a block, a named scope, a loop iteration, a macro application alike -- and leaves the
    enclosing scope's table alone (so text after the construct still uses the enclosing table: "nested scopes use the enclosing scope's table unless they
    load their own")."""
    from a816.parse.nodes import TableNode
    from script import Table
    previous = inner.table
    n = TableNode("font.tbl", resolver)
    check("loaded_into_the_current_scope", isinstance(inner.table, Table) and inner.table is not outer_table)
    # a scope that already loaded a table gets a NEW table object: the earlier table (which text nodes expanded before it still hold) is neither
    # modified nor merged into the new one
    check("a_second_table_replaces_the_first", previous is None or (inner.table is not previous and len(previous.lookup) == 1 and len(inner.table.lookup) == 0))
    check("enclosing_scope_keeps_its_table", outer.table is outer_table)
    check("scope_unchanged", resolver.current_scope is inner)
