"""C17, the parser/codegen hop: which token a node error is attributed to.

For a token list that is an ARBITRARY prefix (any length, any tokens) followed by one statement with an undefined symbol in
its operand / data expression, the real parse_decl -> _code_gen -> emit raises a NodeError whose file_info is a token
of that statement (so: on the statement's line, in the statement's file), whatever lines the preceding tokens are on: the
attribution does not depend on what precedes the statement.
Together with the scanner obligations (a token's Position is the line/column of its first character, taken while the token
start is on the line being scanned) and NodeError.__str__ (prints file_info.position's file, line and that line's text)
this is the statement's claim for undefined-symbol errors."""
from a816.parse.codegen import _code_gen
from a816.parse.nodes import NodeError
from a816.parse.parser_states import parse_decl
from vf.contracts.rt import check


def on_statement_line(tok, line, file):
    return tok is not None and tok.position is not None and tok.position.line == line and tok.position.file is file


def statement_error_token_contract(p, resolver, addr, line, file, n_statement_tokens):
    """every token of the statement is on `line` of `file`; the tokens before it are anywhere"""
    pos0 = p.pos
    a = parse_decl(p)
    check("statement_consumed_exactly", p.pos == pos0 + n_statement_tokens)
    check("ast_attributed_to_the_statement_line", on_statement_line(a.file_info, line, file))
    code = _code_gen([a], resolver, {})
    check("some_node", len(code) >= 1)
    raised = 0
    # the label pass sees the statement first (an operand without a size suffix is evaluated there to guess its width): whatever it raises about
    # the statement is a NodeError carrying the statement's location too -- never a bare SymbolNotDefined without file and line
    for node in code:
        try:
            node.pc_after(addr)
        except NodeError as e:
            check("label_pass_error_attributed_to_the_statement_line", on_statement_line(e.file_info, line, file))
    for node in code:
        try:
            node.emit(addr)
        except NodeError as e:
            raised += 1
            check("error_attributed_to_the_statement_line", on_statement_line(e.file_info, line, file))
    check("undefined_symbol_is_reported", raised >= 1)


def symbol_node_contract(node, addr, v, defined, outer_scope):
    """`name = expr` / a deferred macro argument in the label pass: when the expression can be evaluated the name is bound to its value in the
    scope the node runs in; when it mentions an undefined symbol the failure ESCAPES (C14: this is the only place the expression is evaluated,
    so swallowing it here reports a source that cannot be assembled as a success) -- and the evaluation scope switch is undone either way."""
    r = node.resolver
    scope0 = r.current_scope
    try:
        a = node.pc_after(addr)
    except Exception:
        check("fails_only_for_an_undefined_symbol", not defined)
        check("binding_scope_current_again_after_a_failure", r.current_scope is scope0)
        return
    check("undefined_symbol_is_reported", defined)
    check("address_unchanged", a is addr)
    check("bound_in_the_binding_scope", scope0.symbols.get(node.symbol_name) == v)
    check("binding_scope_current_again", r.current_scope is scope0)


def macro_body_error_contract(p, resolver, addr, line, file, n_statement_tokens, app_line):
    """The same statement written as a line of a MACRO BODY, the macro applied on another line: the error raised for it -- in the label pass or at
    emission -- is attributed to a token on the statement's own line (where it is written), not to the application."""
    from a816.parse.ast.nodes import BlockAstNode, MacroApplyAstNode, MacroAstNode
    from a816.parse.tokens import Position, Token, TokenType
    from vf.contracts.rt import assume
    assume(app_line != line)
    a = parse_decl(p)
    mtok = Token(TokenType.IDENTIFIER, "m", Position(app_line, 0, file))
    mdef = MacroAstNode("m", [], BlockAstNode([a], mtok), mtok)
    app = MacroApplyAstNode("m", [], mtok)
    code = _code_gen([mdef, app], resolver, {})
    raised = 0
    # each pass replays the scopes from the top-level scope (what Program.resolver_reset does between the passes)
    resolver.last_used_scope = 0
    resolver.current_scope = resolver.scopes[0]
    for node in code:
        try:
            node.pc_after(addr)
        except NodeError as e:
            check("label_pass_error_attributed_to_the_body_line", on_statement_line(e.file_info, line, file))
    resolver.last_used_scope = 0
    resolver.current_scope = resolver.scopes[0]
    for node in code:
        try:
            node.emit(addr)
        except NodeError as e:
            raised += 1
            check("error_attributed_to_the_body_line", on_statement_line(e.file_info, line, file))
    check("undefined_symbol_is_reported", raised >= 1)
