"""Contracts for C02: labels equal real emission addresses (Program.resolve_labels + Program.emit, label nodes, export)."""
from a816.parse.nodes import CodePositionNode, LabelNode
from vf.contracts.rt import assume, check, ghost, ghost_get
from vf.specs import busmath, busmodel
from vf.specs.progmodel import MarkerNode, RecordingWriter, TwoPhaseNode


def entry_of(bus, bank):
    try:
        return bus.get_mapping_for_bank(bank)
    except KeyError:
        return None


def phase_agreement_contract(program, star_node, start, size1, data, label_name):
    """[*= start, X, label:, marker] with X ANY node -- even one whose predicted size (while labels are resolved) differs from
    the number of bytes it emits: the label equals the run address of the first byte emitted after it, or the assembly fails."""
    assume(0 <= size1 and size1 <= 4)
    assume(len(data) <= 4)
    e = entry_of(program.resolver.get_bus(), busmath.bank_of(start))
    # the statement's domain: code placed inside the bank window (below it the address is folded, see C04)
    assume(e is None or e.writable is not False or busmath.in_window(e.mask, start))
    x = TwoPhaseNode(size1, data)
    lab = LabelNode(label_name, program.resolver)
    marker = MarkerNode()
    nodes = [star_node, x, lab, marker]
    w = RecordingWriter()
    try:
        program.resolve_labels(nodes)
        program.emit(nodes, w)
    except KeyError:
        return  # start address unmapped / the code runs off the mapped range: rejected for that reason
    except RuntimeError:
        check("fails_only_on_disagreement", size1 != len(data))
        return
    value = program.resolver.scopes[0].symbols[label_name]
    check("label_is_next_emission_address", value == marker.seen)
    check("no_silent_shift", size1 == len(data))


def label_node_contract(node, addr):
    """LabelNode.pc_after defines the label as the current address (symbol and label table of the current scope) and does
    not advance; emit produces nothing."""
    scope = node.resolver.current_scope
    enclosing = []
    e = scope.parent
    while e is not None:
        enclosing.append((e, dict(e.symbols), dict(e.labels)))
        e = e.parent
    r = node.pc_after(addr)
    check("label_is_current_address", scope.symbols[node.symbol_name] == addr.logical_value and scope.labels[node.symbol_name] == addr.logical_value)
    # ... of the current scope ONLY: an enclosing scope (a named one included) that has a label of the same name keeps its own
    for e, syms, labels in enclosing:
        check("enclosing_scopes_untouched", dict(e.symbols) == syms and dict(e.labels) == labels)
    check("address_not_advanced", r is addr)
    check("emits_nothing", node.emit(addr) == b"")


def restore_scope_export_contract(resolver, named, exports):
    """Leaving a named scope with exports: the parent gains scopename.k = v for every symbol of the scope (same value), nothing
    else changes; without exports (or for an anonymous scope) nothing is exported; the current scope becomes the parent."""
    parent = named.parent
    before = dict(parent.symbols)
    inner = dict(named.symbols)
    resolver.restore_scope(exports)
    check("current_scope_is_parent", resolver.current_scope is parent)
    if exports:
        for k in inner:
            check("exported_same_value", parent.symbols[named.name + "." + k] == inner[k])
        check("only_exports_added", len(parent.symbols) == len(before) + len(inner))
    else:
        check("nothing_exported", dict(parent.symbols) == before)
    for k in before:
        check("parent_symbols_kept", parent.symbols[k] == before[k])
    check("scope_symbols_unchanged", dict(named.symbols) == inner)


def expression_node_reevaluates_contract(expression, resolver, tok, v1, v2):
    """An operand / data value node holds an EXPRESSION, not a value: every get_value() evaluates it against the scopes as they are at that moment.  The
    label pass asks for the value early (width guess) when forward labels and deferred macro arguments are not bound yet or an enclosing name of the same
    spelling still shows through; emission must see the final binding, not what an earlier call saw."""
    from a816.parse.nodes import ExpressionNode
    node = ExpressionNode(expression, resolver, tok)
    scope = resolver.current_scope
    scope.add_symbol("e", v1)
    check("first_value", node.get_value() == v1)
    w1 = node.get_value_string_len()
    scope.add_symbol("e", v2)
    check("value_follows_the_binding_at_the_time_of_the_call", node.get_value() == v2)
    # ... and so does the width guess derived from it (the same source operand expanded twice -- macro body, loop body -- with values of different size)
    w2 = node.get_value_string_len()
    if 0 <= v1 and v1 < 0x100 and 0x100 <= v2 and v2 < 0x10000:
        check("width_guess_follows_the_binding", w1 <= 2 and 3 <= w2 and w2 <= 4)
    inner_scope = resolver.scopes[1]
    resolver.current_scope = inner_scope
    check("value_follows_the_current_scope", node.get_value() == inner_scope.symbols["e"])
