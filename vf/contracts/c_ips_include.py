"""Contracts on IncludeIpsNode (a816/parse/nodes.py) -- C13: the patch reader against the IPS format definition."""
import struct

from a816.parse.codegen import generate_include_ips
from a816.parse.nodes import IncludeIpsNode
from vf.contracts.rt import assume, check, ghost


def u16(c, p):
    return c[p] * 256 + c[p + 1]


def u24(c, p):
    return c[p] * 65536 + c[p + 1] * 256 + c[p + 2]


def is_eof_at(c, p):
    return p + 3 <= len(c) and c[p] == 0x45 and c[p + 1] == 0x4F and c[p + 2] == 0x46


def include_ips_header_contract(path, resolver, content):
    """A file that does not start with PATCH is rejected."""
    ghost("fs", {path: content})
    assume(len(content) < 5 or not (content[0] == 0x50 and content[1] == 0x41 and content[2] == 0x54 and content[3] == 0x43 and content[4] == 0x48))
    try:
        node = IncludeIpsNode(path, resolver, None)
        check("missing_header_rejected", False)
    except RuntimeError:
        check("missing_header_rejected", True)


def include_ips_exact_contract(path, resolver, delta_expr, delta, content):
    """Whole-file postcondition for files of zero, one or two records (reader loop unrolled on the real code; every record
    kind, size, offset and signed delta symbolic): blocks == the records in order, offsets shifted by delta, run-length records expanded."""
    ghost("fs", {path: content})
    n = len(content)
    assume(n >= 8 and content[0] == 0x50 and content[1] == 0x41 and content[2] == 0x54 and content[3] == 0x43 and content[4] == 0x48)
    p = 5
    if is_eof_at(content, p):
        assume(n == p + 3)
        node = IncludeIpsNode(path, resolver, delta_expr)
        check("no_records", len(node.blocks) == 0)
        return
    assume(n >= p + 5)
    size1 = u16(content, p + 3)
    off1 = u24(content, p)
    if size1 == 0:
        assume(n >= p + 8)
        q = p + 8
    else:
        assume(n >= p + 5 + size1)
        q = p + 5 + size1
    assume(is_eof_at(content, q) and n == q + 3)
    node = IncludeIpsNode(path, resolver, delta_expr)
    check("one_record", len(node.blocks) == 1)
    check("offset_plus_delta", node.blocks[0][0] == off1 + delta)
    if size1 == 0:
        run = u16(content, p + 5)
        check("rle_expanded", len(node.blocks[0][1]) == run and (run == 0 or (node.blocks[0][1][0] == content[p + 7] and node.blocks[0][1][run - 1] == content[p + 7])))
    else:
        check("plain_record_bytes", node.blocks[0][1] == content[p + 5:q])
    check("delta_kept", node.delta == delta)


def include_ips_any_contract(path, resolver, delta_expr, delta, content):
    """Reader loop for any number of records: loop contract in vf/props/C13.py (step: one record consumed and appended,
    or the end marker detected, or a truncated file rejected)."""
    ghost("fs", {path: content})
    ghost("delta", delta)
    try:
        node = IncludeIpsNode(path, resolver, delta_expr)
    except (RuntimeError, struct.error):
        return  # rejected; that only malformed files are rejected is the loop's step contract and the exact cases
    check("delta_kept", node.delta == delta)


def include_ips_loop_inv(ips_file, g):
    # position inside the file; a truncated record may only be 'accepted' by consuming the whole rest of the file,
    # after which the next header read must fail (doomed => nothing left)
    return 5 <= ips_file.pos and ips_file.pos <= len(ips_file.data)


def include_ips_loop_variant(ips_file):
    return len(ips_file.data) - ips_file.pos + 1


def include_ips_loop_step(self, ips_file, g):
    """One iteration that started at position p = g['pos_pre'] with no end marker there."""
    c = ips_file.data
    n = len(c)
    p = g["pos_pre"]
    blocks = self.blocks
    if n - p < 5:
        return False  # a truncated header must have raised
    size = u16(c, p + 3)
    off = u24(c, p)
    if size == 0:
        if n - p < 8:
            return False
        run = u16(c, p + 5)
        return (ips_file.pos == p + 8 and len(blocks) == 1 and blocks[0][0] == off + g["delta"] and len(blocks[0][1]) == run
                and (run == 0 or (blocks[0][1][0] == c[p + 7] and blocks[0][1][run - 1] == c[p + 7])))
    if n - p < 5 + size:
        # truncated data: tolerated only if everything was consumed (the next header read then fails)
        return ips_file.pos == n
    return ips_file.pos == p + 5 + size and len(blocks) == 1 and blocks[0][0] == off + g["delta"] and blocks[0][1] == c[p + 5:p + 5 + size]


def include_ips_neutral_contract(node, addr):
    """The directive itself emits nothing and does not move the surrounding program's addresses."""
    check("emits_nothing", node.emit(addr) == b"")
    check("address_unchanged", node.pc_after(addr) is addr)


def include_ips_per_expansion_contract(node, resolver, tok, path, content, offset, d1, d2):
    """The same `.include_ips` directive expanded twice (a loop body, a macro body) with its delta expression evaluating differently: every
    expansion reads the patch with ITS delta -- nothing of an earlier expansion is reused."""
    ghost("fs", {path: content})
    c1 = generate_include_ips(node, resolver, {}, tok)
    resolver.current_scope.add_symbol("k", d2)
    c2 = generate_include_ips(node, resolver, {}, tok)
    check("one_node_per_expansion", len(c1) == 1 and len(c2) == 1 and c1[0] is not c2[0])
    check("first_expansion_uses_its_delta", len(c1[0].blocks) == 1 and c1[0].blocks[0][0] == offset + d1)
    check("second_expansion_uses_its_delta", len(c2[0].blocks) == 1 and c2[0].blocks[0][0] == offset + d2)
