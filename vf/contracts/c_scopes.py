"""Contracts on a816/symbols.py scopes and the scope nodes (C08): lexical lookup, isolation (frames), replay of scopes."""
from a816.exceptions import SymbolNotDefined
from a816.parse.nodes import LabelNode, PopScopeNode, ScopeNode
from vf.contracts.rt import assume, check


def value_for_contract(scope, name, own_symbol, own_block, in_symbols, in_blocks, parent_kind, parent_value):
    """Scope.value_for: the innermost scope that defines the name answers (a code block shadows a value in the same scope);
    otherwise the answer is exactly the enclosing chain's answer; at the top level an unknown name is SymbolNotDefined."""
    try:
        r = scope.value_for(name)
    except SymbolNotDefined:
        check("undefined_only_when_nobody_defines", not in_symbols and not in_blocks and parent_kind != "defines")
        return
    if in_blocks:
        check("own_block_shadows", r is own_block)
    elif in_symbols:
        check("own_definition_wins", r == own_symbol)
    else:
        check("falls_back_to_enclosing", parent_kind == "defines" and r == parent_value)


def add_symbol_frame_contract(scope, parent, sibling, name, value, as_label, addr):
    """Defining a name in a scope changes that scope's tables only (isolation: invisible to enclosing and sibling scopes)."""
    p_syms, p_labels, p_blocks = dict(parent.symbols), dict(parent.labels), dict(parent.code_symbols)
    s_syms, s_labels = dict(sibling.symbols), dict(sibling.labels)
    own_before = dict(scope.symbols)
    if as_label:
        scope.add_label(name, addr)
        check("label_defined_here", scope.symbols[name] == addr.logical_value and scope.labels[name] == addr.logical_value)
    else:
        scope.add_symbol(name, value)
        check("symbol_defined_here", scope.symbols[name] == value)
    check("enclosing_scope_unchanged", dict(parent.symbols) == p_syms and dict(parent.labels) == p_labels and dict(parent.code_symbols) == p_blocks)
    check("sibling_scope_unchanged", dict(sibling.symbols) == s_syms and dict(sibling.labels) == s_labels)
    for k in own_before:
        if k != name:
            check("other_names_kept", scope.symbols[k] == own_before[k])
    check("visible_from_here", scope.value_for(name) == (addr.logical_value if as_label else value))
    check("sibling_does_not_see_it", sibling.symbols.get(name) is None)


def scope_nodes_contract(resolver, addr, emit_pass):
    """ScopeNode activates the NEXT scope in creation order; PopScopeNode returns to the parent (exporting a named scope's
    symbols in the label/symbol passes only); resolver_reset rewinds to the top-level scope."""
    scopes = resolver.scopes
    k0 = resolver.last_used_scope
    assume(k0 + 1 < len(scopes))
    sn = ScopeNode(resolver)
    pn = PopScopeNode(resolver)
    if emit_pass:
        b = sn.emit(addr)
        check("scope_node_emits_nothing", b == b"")
    else:
        a = sn.pc_after(addr)
        check("scope_node_keeps_address", a is addr)
    check("next_scope_activated", resolver.last_used_scope == k0 + 1 and resolver.current_scope is scopes[k0 + 1])
    inner = resolver.current_scope
    if emit_pass:
        check("pop_emits_nothing", pn.emit(addr) == b"")
    else:
        check("pop_keeps_address", pn.pc_after(addr) is addr)
    check("back_to_parent", resolver.current_scope is inner.parent)
    check("position_in_creation_order_kept", resolver.last_used_scope == k0 + 1)


def scope_replay_contract(program, code_nodes, expected):
    """End to end on the real generators and the real label pass: the node list produced for  { a: .scope s { b: { c: } } d: } e:
    is replayed so that every label lands in the scope it was written in, names re-used in inner scopes do not collide, and the
    named scope's labels are exported to ITS enclosing scope as s.name."""
    program.resolve_labels(code_nodes)
    scopes = program.resolver.scopes
    i = 0
    for want in expected:
        check("labels_land_in_their_scope", sorted(scopes[i].labels.keys()) == want)
        i = i + 1
    check("export_to_enclosing_scope", "s.x" in scopes[1].symbols and scopes[1].symbols["s.x"] == scopes[2].symbols["x"])
    check("no_export_to_top_level", "s.x" not in scopes[0].symbols and "x" not in scopes[0].symbols)
    check("top_level_current_again", program.resolver.current_scope is scopes[0] and program.resolver.last_used_scope == 0)


def scope_replay_wrapper_contract(program, ast, expected):
    from a816.parse.codegen import code_gen
    code = code_gen(ast, program.resolver)
    scope_replay_contract(program, code, expected)


def forward_shadowing_contract(program, ast, outer_addr, inner_addr):
    """target: .db 0  { ptr = target  .db 1  target: }  -- a label is visible in its WHOLE scope, also before its definition: inside the block
    `target` means the block's own (forward) label, not the enclosing scope's earlier one, and `ptr` is bound to it once the labels are resolved;
    the same for a deferred macro argument `m(target)` whose application sits before the inner label."""
    from a816.parse.codegen import code_gen
    code = code_gen(ast, program.resolver)
    program.resolve_labels(code)
    scopes = program.resolver.scopes
    check("outer_label_address", scopes[0].symbols.get("target") == outer_addr)
    check("inner_label_address", scopes[1].symbols.get("target") == inner_addr)
    check("symbol_bound_to_the_nearest_label_also_forward", scopes[1].symbols.get("ptr") == inner_addr)
    check("enclosing_scope_unaffected", "ptr" not in scopes[0].symbols)


def scope_creation_contract(resolver, kind, name):
    """append_scope / append_internal_scope / append_named_scope create a FRESH scope every time -- also when a sibling scope of the same name
    exists already (two `.scope s { }` blocks, two applications, two iterations are different scopes) -- of the right class, empty, whose parent
    is the current scope, appended last; nothing else changes (the current scope stays: ScopeNode activates the new one later)."""
    from a816.symbols import InternalScope, NamedScope, Scope
    before = list(resolver.scopes)
    cur = resolver.current_scope
    cursor = resolver.last_used_scope
    if kind == "named":
        resolver.append_named_scope(name)
    elif kind == "internal":
        resolver.append_internal_scope()
    else:
        resolver.append_scope()
    check("one_scope_appended", len(resolver.scopes) == len(before) + 1)
    new = resolver.scopes[len(before)]
    i = 0
    for old in before:
        check("earlier_scopes_kept_in_place", resolver.scopes[i] is old)
        check("the_new_scope_is_a_fresh_object", new is not old)
        i = i + 1
    check("class_of_the_new_scope", type(new) is (NamedScope if kind == "named" else InternalScope if kind == "internal" else Scope))
    check("parent_is_the_current_scope", new.parent is cur)
    check("new_scope_is_empty", len(new.symbols) == 0 and len(new.code_symbols) == 0 and len(new.labels) == 0 and new.table is None)
    check("own_containers", all(new.symbols is not o.symbols and new.code_symbols is not o.code_symbols and new.labels is not o.labels for o in before))
    if kind == "named":
        check("name_recorded", new.name == name)
    check("current_scope_and_cursor_unchanged", resolver.current_scope is cur and resolver.last_used_scope == cursor)


def value_for_chain_contract(inner, value, depth):
    """A name defined `depth` scopes further out is found from the innermost scope whatever the scopes in between hold -- in particular when they hold
    NOTHING (a bare `{ }` block, the scope of a macro without parameters, a loop iteration before its variable is bound); an unknown name is SymbolNotDefined."""
    check("found_through_empty_scopes", inner.value_for("n") == value)
    raised = False
    try:
        inner.value_for("missing")
    except SymbolNotDefined:
        raised = True
    check("unknown_name_is_undefined", raised)


def qualified_lookup_contract(inner, plain_value, qualified_value):
    """A dotted name `s.n` is an ordinary name: looked up through the chain as it is written, from any kind of scope -- also from inside a (second) scope
    called `s` that does not define `n` itself: it finds what an earlier `.scope s` exported to the enclosing scope, never the unrelated plain `n`."""
    check("qualified_name_found_as_written", inner.value_for("s.n") == qualified_value)
    check("plain_name_unaffected", inner.value_for("n") == plain_value)
