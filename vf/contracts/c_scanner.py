"""Contracts on a816/parse/scanner.py and scanner_states.py (C15 termination, C17 positions) over a SYMBOLIC input string
(symbolic length and content)."""
from a816.parse.errors import ScannerException
from a816.parse.scanner_states import lex_initial
from vf.contracts.rt import assume, check, ghost


def scan_wf(s):
    return 0 <= s.start and s.start <= s.pos and s.pos <= len(s.input)


def remaining(s):
    """Variant of every scanner loop: characters left (+1 so that it stays non-negative at end of input)."""
    return len(s.input) - s.pos + 1


# ---- loop contracts: invariant = inside the input and never before the position at loop entry; variant = characters left ----
def inv_self(self, g):
    return g["pos0"] <= self.pos and self.pos <= len(self.input) and 0 <= self.start and self.start <= len(self.input)


def var_self(self):
    return len(self.input) - self.pos + 1


def inv_s(s, g):
    return g["pos0"] <= s.pos and s.pos <= len(s.input) and 0 <= s.start and s.start <= len(s.input)


def var_s(s):
    return len(s.input) - s.pos + 1


def var_quoted(s, c):
    # lexicographic (characters left, "the last read returned a character"): at end of input next() returns None without
    # advancing, and the following iteration raises
    return 2 * (len(s.input) - s.pos) + (0 if c is None else 1)


# ---- contracts -------------------------------------------------------------------------------------------------------
def lex_initial_progress_contract(s):
    """lex_initial, called by the scan loop with at least one character left: every loop it runs (directly or through the
    sub-lexers) has a decreasing variant, and it returns having consumed at least one character -- or reports a scanner error."""
    n = len(s.input)
    p0 = s.pos
    assume(scan_wf(s))
    assume(p0 < n)
    try:
        lex_initial(s)
    except ScannerException:
        check("error_position_inside_input", True)
        return
    check("progress", s.pos > p0)
    check("stays_inside_input", s.pos <= n and 0 <= s.start)


def scan_loop_contract(s, name, text):
    """Scanner.scan: the driver loop terminates (variant: characters left) given that the state function makes progress
    (lex_initial_progress_contract); it ends with an EOF token or propagates the scanner error."""
    try:
        toks = s.scan(name, text)
    except ScannerException:
        return
    check("ends_with_EOF_token", len(toks) >= 1)


def sublexer_contract(s, fn, kind):
    """A sub-lexer called on a well-formed scanner (with the precondition of its kind): all its loops have decreasing variants;
    it returns inside the input and not before the position it was called at, or raises ScannerException."""
    p0 = s.pos
    n = len(s.input)
    assume(scan_wf(s))
    if kind == "after-first-digit":
        assume(p0 >= 1 and s.input[p0 - 1] in "0123456789")
    first_is_identifier_char = p0 < n and s.input[p0] in "_ABCEDFGHIJKLMNOPQRSTUVWXYZabcedfghijklmnopqrstuvwxyz"
    try:
        fn(s)
    except ScannerException:
        check("may_raise", kind != "after-first-digit" and kind != "identifier")
        return
    check("stays_inside_input", 0 <= s.pos and s.pos <= n)
    check("monotone", s.pos >= p0)
    check("start_inside_input", 0 <= s.start and s.start <= n)
    if kind == "identifier" and first_is_identifier_char:
        check("identifier_strict_progress", s.pos > p0)


# ------------------------------------------------------------------------------------------------ positions (C17)
def lines_wf(s):
    return 0 <= s.line_offset and s.line_offset <= s.start and s.start <= s.pos and s.pos <= len(s.input)


def newline_consumable(candidates, negate):
    return ("\n" in candidates) != negate


def inv_accept_run_lines(self, candidates, negate, g):
    """accept_run: the token start is untouched; the line bookkeeping only moves when the run can consume line ends."""
    base = g["pos0"] <= self.pos and self.pos <= len(self.input) and self.start == g["start0"] and g["line_offset0"] <= self.line_offset
    if newline_consumable(candidates, negate):
        return base and (self.line_offset == g["line_offset0"] or self.line_offset <= self.pos)
    return base and self.line_offset == g["line_offset0"] and self.current_line == g["current_line0"]


def inv_comment_loop_lines(s, g):
    """';' comment: until the guard reads the line end nothing moves; '/* */': line ends may be consumed, the start stays."""
    return g["pos0"] <= s.pos and s.pos <= len(s.input) and s.start == g["start0"] and g["line_offset0"] <= s.line_offset \
        and (s.line_offset == g["line_offset0"] or s.line_offset <= s.pos)


def inv_quoted_lines(s, c, g):
    """quoted string: a consumed line end is the character just read (the next iteration raises); otherwise nothing moved."""
    return g["pos0"] <= s.pos and s.pos <= len(s.input) and s.start == g["start0"] and (s.line_offset == g["line_offset0"] or c == "\n") \
        and g["line_offset0"] <= s.line_offset and (s.current_line == g["current_line0"] or c == "\n")


def inv_expression_lines(s, g):
    """lex_expression: blanks, numbers, identifiers, operators, parentheses: never a line end."""
    return g["pos0"] <= s.pos and s.pos <= len(s.input) and g["start0"] <= s.start and s.start <= s.pos and s.line_offset == g["line_offset0"] \
        and s.current_line == g["current_line0"]


def positions_contract(s, fn, kind):
    """A lexer function run from a well-formed scanner (token start on the current line): every Position it creates -- for the
    tokens it emits (COMMENT excepted) and for every ScannerException it raises -- is taken while the token start is still
    on the current line (the obligations are the call-site preconditions of get_position / get_token); a sub-lexer consumes
    no line end and leaves the start between its old value and the position."""
    assume(lines_wf(s))
    lo0 = s.line_offset
    cl0 = s.current_line
    st0 = s.start
    ghost("fn_line_offset", lo0)
    ghost("fn_current_line", cl0)
    if kind == "after-first-digit":
        assume(s.start < s.pos and s.input[s.pos - 1] in "0123456789")
    if kind == "state":
        assume(s.pos < len(s.input))
    try:
        fn(s)
    except ScannerException:
        return
    check("returns_well_formed", lines_wf(s))
    if kind != "state":
        check("no_line_end_consumed", s.line_offset == lo0 and s.current_line == cl0)
        check("start_moves_forward", st0 <= s.start)


def next_line_bookkeeping_contract(s):
    """Scanner.next: consuming a line end closes the line: the line count grows by exactly one and the next line starts right
    after it; any other character leaves the line bookkeeping alone; the closed line's text is recorded."""
    assume(lines_wf(s))
    n = len(s.input)
    p0 = s.pos
    lo0 = s.line_offset
    cl0 = s.current_line
    nlines = len(s.file.lines)
    c = s.next()
    if p0 >= n:
        check("end_of_input", c is None and s.pos == p0 and s.line_offset == lo0 and s.current_line == cl0)
    elif c == "\n":
        check("line_closed", s.pos == p0 + 1 and s.line_offset == p0 + 1 and s.current_line == cl0 + 1)
        check("line_text_recorded", len(s.file.lines) == nlines + 1 and s.file.lines[nlines] == s.input[lo0:p0])
    else:
        check("same_line", s.pos == p0 + 1 and s.line_offset == lo0 and s.current_line == cl0 and len(s.file.lines) == nlines)


# ------------------------------------------------------------------------------------------------ exact token positions after any layout (C17)
def scan_positions_contract(s, name, text, expected_types, expected_lines, expected_columns, error_line, error_column):
    """The real Scanner.scan on a text made of ANY number of blank lines, ANY indentation, an optional preceding statement with a comment of
    ANY text, then the statement of interest: every token carries the zero-based line (= number of line ends before it) and the column
    (= offset in its line) of its first character, in the scanned file; when the statement is lexically wrong, the ScannerException carries
    the position of the offending character."""
    try:
        toks = s.scan(name, text)
    except ScannerException as e:
        check("error_expected", error_line is not None)
        if error_line is not None:
            check("error_line", e.position.line == error_line)
            check("error_column", e.position.column == error_column)
            check("error_file", e.position.file is s.file)
        return
    check("no_error_expected", error_line is None)
    check("same_number_of_tokens", len(toks) == len(expected_types))
    if len(toks) != len(expected_types):
        return
    i = 0
    for t in toks:
        check("token_type", t.type == expected_types[i])
        if expected_lines[i] is not None:
            check("token_line", t.position.line == expected_lines[i])
            check("token_column", t.position.column == expected_columns[i])
            check("token_file", t.position.file is s.file)
        i = i + 1
