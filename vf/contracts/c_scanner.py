"""Contracts on a816/parse/scanner.py and scanner_states.py (C15 termination, C17 positions) over a SYMBOLIC input string
(symbolic length and content)."""
from a816.parse.errors import ScannerException
from a816.parse.scanner_states import lex_initial
from vf.contracts.rt import assume, check


def scan_wf(s):
    return 0 <= s.start and s.start <= s.pos and s.pos <= len(s.input)


def remaining(s):
    """Variant of every scanner loop: characters left (+1 so that it stays non-negative at end of input)."""
    return len(s.input) - s.pos + 1


# ---- loop contracts: invariant = inside the input and never before the position at loop entry; variant = characters left ----
def inv_self(self, g):
    return g["pos0"] <= self.pos and self.pos <= len(self.input) and 0 <= self.start and self.start <= len(self.input)


def var_self(self):
    return len(self.input) - self.pos + 1


def inv_s(s, g):
    return g["pos0"] <= s.pos and s.pos <= len(s.input) and 0 <= s.start and s.start <= len(s.input)


def var_s(s):
    return len(s.input) - s.pos + 1


def var_quoted(s, c):
    # lexicographic (characters left, "the last read returned a character"): at end of input next() returns None without
    # advancing, and the following iteration raises
    return 2 * (len(s.input) - s.pos) + (0 if c is None else 1)


# ---- contracts -------------------------------------------------------------------------------------------------------
def lex_initial_progress_contract(s):
    """lex_initial, called by the scan loop with at least one character left: every loop it runs (directly or through the
    sub-lexers) has a decreasing variant, and it returns having consumed at least one character -- or reports a scanner error."""
    n = len(s.input)
    p0 = s.pos
    assume(scan_wf(s))
    assume(p0 < n)
    try:
        lex_initial(s)
    except ScannerException:
        check("error_position_inside_input", True)
        return
    check("progress", s.pos > p0)
    check("stays_inside_input", s.pos <= n and 0 <= s.start)


def scan_loop_contract(s, name, text):
    """Scanner.scan: the driver loop terminates (variant: characters left) given that the state function makes progress
    (lex_initial_progress_contract); it ends with an EOF token or propagates the scanner error."""
    try:
        toks = s.scan(name, text)
    except ScannerException:
        return
    check("ends_with_EOF_token", len(toks) >= 1)


def sublexer_contract(s, fn, kind):
    """A sub-lexer called on a well-formed scanner (with the precondition of its kind): all its loops have decreasing variants;
    it returns inside the input and not before the position it was called at, or raises ScannerException."""
    p0 = s.pos
    n = len(s.input)
    assume(scan_wf(s))
    if kind == "after-first-digit":
        assume(p0 >= 1)
    first_is_identifier_char = p0 < n and s.input[p0] in "_ABCEDFGHIJKLMNOPQRSTUVWXYZabcedfghijklmnopqrstuvwxyz"
    try:
        fn(s)
    except ScannerException:
        check("may_raise", kind != "after-first-digit" and kind != "identifier")
        return
    check("stays_inside_input", 0 <= s.pos and s.pos <= n)
    check("monotone", s.pos >= p0)
    check("start_inside_input", 0 <= s.start and s.start <= n)
    if kind == "identifier" and first_is_identifier_char:
        check("identifier_strict_progress", s.pos > p0)
