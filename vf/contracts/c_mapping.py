"""Contracts (harnesses) on a816/cpu/mapping.py -- properties C04 (bus laws), used by C02/C03/C05/C20."""
from a816.cpu.mapping import Address, Bus, Mapping
from a816.parse.parser_states import parse_map
from vf.contracts.rt import assume, check, ghost
from vf.specs import busmath, busmodel


def mapping_wf(m):
    return (m.mask == 0x8000 or m.mask == 0x10000) and 0 <= m.bank_range[0] and m.bank_range[0] <= m.bank_range[1] and m.bank_range[1] <= 0xFF


def physical_address_contract(m, value):
    assume(mapping_wf(m))
    assume(0 <= value and value < 0x1000000)
    r = m.physical_address(value)
    # ROM = not writable, however that was said: False / omitted for the built-in buses, the NUMBER 0 for a `.map ... writable=0`; RAM = True / 1
    if not m.writable:
        assume(busmath.in_window(m.mask, value))
        check("rom_offset", r == busmath.rom_offset(m.bank_range[0], m.mask, value))
    else:
        check("ram_none", r is None)


def mapping_from_directive_contract(lo, hi, mask, writable, value):
    """A mapping built the way the `.map` directive builds it -- through Mapping(...) with the attribute values as PARSED (the numbers 0 / 1 for
    writable) -- obeys the same law: writable=0 is ROM (file offsets), writable=1 is RAM (none)."""
    from a816.cpu.mapping import Mapping
    assume(0 <= lo and lo <= hi and hi <= 0xFF)
    m = Mapping((lo, hi), (0, 0xFFFF), mask, writable)
    physical_address_contract(m, value)
    check("writable_flag_reads_as_declared", bool(m.writable) == (writable != 0))


def physical_address_out_of_window_contract(m, value):
    """Below the bank window the statement assigns no offset; the code folds the address into the window
    (same offset as the address with the window bit set).  Pinned so that a change is noticed, labelled 'from code'."""
    assume(mapping_wf(m))
    assume(m.writable is False)
    assume(0 <= value and value < 0x1000000)
    assume(not busmath.in_window(m.mask, value))
    r = m.physical_address(value)
    check("folds_into_window", r == busmath.rom_offset(m.bank_range[0], m.mask, value + busmath.window_start(m.mask)))


def logical_address_contract(m, p):
    assume(mapping_wf(m))
    assume(m.writable is False)
    assume(0 <= p)
    r = m.logical_address(p)
    check("is_rom_address_of_offset", r == busmath.rom_address(m.bank_range[0], m.mask, p))
    check("in_window", busmath.in_window(m.mask, r))
    check("bank", busmath.bank_of(r) == m.bank_range[0] + p // m.mask)
    check("inverse", busmath.rom_offset(m.bank_range[0], m.mask, r) == p)
    check("physical_of_logical", m.physical_address(r) == p)


def entry_for(bus, bank):
    """Bus view: the Mapping a bank resolves to, None when the bank is unmapped."""
    try:
        return bus.get_mapping_for_bank(bank)
    except KeyError:
        return None


def resolves_to(bus, bank, m):
    """Bus-view well-formedness at one bank: the bank resolves to entry m and lies in m's declared bank range
    (what Bus.map establishes for every bank it registers)."""
    return entry_for(bus, bank) is m and m.bank_range[0] <= bank and bank <= m.bank_range[1]


def address_add_contract(bus, a, n):
    """C04 advance law on an arbitrary bus view (any `.map` configuration): a is a well-formed Address of `bus`."""
    m = a.mapping
    v = a.logical_value
    assume(mapping_wf(m))
    assume(0 <= v and v < 0x1000000)
    assume(entry_for(bus, busmath.bank_of(v)) is m)
    assume(m.bank_range[0] <= busmath.bank_of(v) and busmath.bank_of(v) <= m.bank_range[1])
    if m.writable is False:
        assume(busmath.in_window(m.mask, v))
        assume(n >= 0)
        off = busmath.rom_offset(m.bank_range[0], m.mask, v)
        target = busmath.rom_address(m.bank_range[0], m.mask, off + n)
        # the quantifier: increments that stay inside the mapped range (phrased on the bus view, DESIGN C04 note)
        assume(entry_for(bus, busmath.bank_of(target)) is m)
        r = a + n
        check("offset_advances", r.physical == off + n)
        check("same_range", r.mapping is m)
        check("in_window", busmath.in_window(m.mask, r.logical_value))
        check("is_target", r.logical_value == target)
        check("same_bus", r.bus is bus)
        check("operand_unchanged", a.logical_value == v and a.mapping is m)
    else:
        assume(entry_for(bus, busmath.bank_of(v + n)) is m)
        r = a + n
        check("ram_adds", r.logical_value == v + n)
        check("ram_no_offset", r.physical is None)
        check("ram_same_range", r.mapping is m)


def address_add_leaves_range_contract(bus, a, n):
    """An advance whose target bank is unmapped is rejected (KeyError), never wrapped into some other range."""
    m = a.mapping
    v = a.logical_value
    assume(mapping_wf(m))
    assume(m.writable is False)
    assume(0 <= v and v < 0x1000000)
    assume(entry_for(bus, busmath.bank_of(v)) is m)
    assume(busmath.in_window(m.mask, v))
    assume(n >= 0)
    off = busmath.rom_offset(m.bank_range[0], m.mask, v)
    target = busmath.rom_address(m.bank_range[0], m.mask, off + n)
    assume(entry_for(bus, busmath.bank_of(target)) is None)
    try:
        r = a + n
        check("unmapped_target_rejected", False)
    except KeyError:
        check("unmapped_target_rejected", True)


def address_add_non_int_contract(bus, a):
    try:
        r = a + "1"
        check("non_int_rejected", False)
    except ValueError:
        check("non_int_rejected", True)


def get_address_contract(bus, v):
    assume(0 <= v and v < 0x1000000)
    e = entry_for(bus, busmath.bank_of(v))
    if e is None:
        try:
            a = bus.get_address(v)
            check("unmapped_rejected", False)
        except KeyError:
            check("unmapped_rejected", True)
    else:
        a = bus.get_address(v)
        check("address_fields", a.bus is bus and a.logical_value == v and a.mapping is e)
        check("writable_is_mapping_writable", a.writable is e.writable)


def add_laws_contract(bus, a, m_, n):
    """Lemmas of the statement's last sentence, proved on the real code: +0 is the identity, (+m)+n == +(m+n)."""
    m = a.mapping
    v = a.logical_value
    assume(mapping_wf(m))
    assume(m.writable is False)
    assume(0 <= v and v < 0x1000000)
    assume(entry_for(bus, busmath.bank_of(v)) is m)
    assume(busmath.in_window(m.mask, v))
    assume(m_ >= 0 and n >= 0)
    off = busmath.rom_offset(m.bank_range[0], m.mask, v)
    t1 = busmath.rom_address(m.bank_range[0], m.mask, off + m_)
    t2 = busmath.rom_address(m.bank_range[0], m.mask, off + m_ + n)
    assume(resolves_to(bus, busmath.bank_of(t1), m))
    assume(resolves_to(bus, busmath.bank_of(t2), m))
    z = a + 0
    check("add_zero_identity", z.logical_value == v and z.mapping is m)
    s1 = (a + m_) + n
    s2 = a + (m_ + n)
    check("add_add", s1.logical_value == s2.logical_value and s1.mapping is s2.mapping)


def lorom_bus_contract(bus, v):
    """Built-in LoROM bus (the live object of a816.symbols): bank sets pinned from the definition, offsets textbook."""
    assume(0 <= v and v < 0x1000000)
    bank = busmath.bank_of(v)
    check("frozen", bus.editable is False)
    try:
        a = bus.get_address(v)
    except KeyError:
        check("unmapped_banks", not (bank <= 0x6F or (0x7E <= bank and bank <= 0x7F) or (0x80 <= bank and bank <= 0xCF)))
        return
    if 0x7E <= bank and bank <= 0x7F:
        check("ram_no_offset", a.physical is None and a.writable is True)
    else:
        check("rom_banks", bank <= 0x6F or (0x80 <= bank and bank <= 0xCF))
        if busmath.low16(v) >= 0x8000:
            check("lorom_offset", a.physical == busmath.lorom_offset(v))
        if bank >= 0x80:
            check("mirror_same_offset", a.physical == bus.get_address(v - 0x800000).physical)


def beyond_bus_contract(bus, v):
    """An address beyond the 24-bit bus has no bank (banks are 0x00..0xFF): it is rejected like any unmapped bank -- it never aliases a
    mapped bank through its low bits."""
    assume(v >= 0x1000000)
    rejected = False
    try:
        a = bus.get_address(v)
        a.physical
    except KeyError:
        rejected = True
    check("addresses_beyond_the_24_bit_bus_are_unmapped", rejected)


def hirom_bus_contract(bus, v):
    assume(0 <= v and v < 0x1000000)
    bank = busmath.bank_of(v)
    check("frozen", bus.editable is False)
    try:
        a = bus.get_address(v)
    except KeyError:
        check("unmapped_banks", bank < 0x40 or (0x80 <= bank and bank <= 0xBF))
        return
    if 0x7E <= bank and bank <= 0x7F:
        check("ram_no_offset", a.physical is None and a.writable is True)
    else:
        check("rom_banks", (0x40 <= bank and bank <= 0x7D) or bank >= 0xC0)
        check("hirom_offset", a.physical == busmath.hirom_offset(v))
        if bank >= 0xC0 and bank <= 0xFD:
            check("mirror_same_offset", a.physical == bus.get_address(v - 0x800000).physical)


def address_add_refines_spec_contract(bus, a, n):
    """Address.__add__ refines its functional contract busmodel.address_add_spec (same result or same exception class).
    Callers (Program.emit, node.pc_after, the add laws) are verified against the spec, not the body."""
    try:
        expected = busmodel.address_add_spec(a, n)
    except KeyError:
        try:
            r = a + n
            check("refines_spec_keyerror", False)
        except KeyError:
            check("refines_spec_keyerror", True)
        return
    r = a + n
    check("refines_spec", r.logical_value == expected.logical_value and r.mapping is expected.mapping and r.bus is expected.bus)


# ------------------------------------------------------------------------------------------- Bus.map (whole view)
def lookup_at(bus, b):
    return bus.lookup.get(b)


def in_range(r, b):
    return r[0] <= b and b <= r[1]


def bus_map_loop0_inv(self, identifier, bank_range, bank, g):
    """Primary loop of Bus.map, pointwise at the arbitrary bank g['b']: banks already visited resolve to the new
    identifier, every other bank is unchanged."""
    b = g["b"]
    if bank_range[0] <= b and b < bank:
        return lookup_at(self, b) == identifier
    return lookup_at(self, b) == g["lookup0"].get(b)


def bus_map_loop1_inv(self, identifier, mirror_identifier, bank_range, mirror_bank_range, bank, g):
    b = g["b"]
    if mirror_bank_range[0] <= b and b < bank:
        return lookup_at(self, b) == mirror_identifier
    if in_range(bank_range, b):
        return lookup_at(self, b) == identifier
    return lookup_at(self, b) == g["lookup0"].get(b)


def bus_map_contract(bus, identifier, bank_range, mask, writeable, mirror, b):
    """Whole-view postcondition of Bus.map at an arbitrary bank b: primary banks -> the new entry, mirror banks -> the
    mirror entry (its own first bank, same window and kind), every other bank unchanged; a frozen bus refuses and changes nothing."""
    old = bus.lookup.get(b)
    old_entry = entry_for(bus, b)
    ghost("b", b)
    assume(bank_range[0] <= bank_range[1])
    if mirror is not None:
        assume(mirror[0] <= mirror[1])
    if bus.editable is not True:
        try:
            bus.map(identifier, bank_range, (0, 0xFFFF), mask, writeable, mirror)
            check("frozen_refuses", False)
        except RuntimeError:
            check("frozen_refuses", True)
        check("frozen_unchanged", bus.lookup.get(b) == old and entry_for(bus, b) is old_entry)
        return
    bus.map(identifier, bank_range, (0, 0xFFFF), mask, writeable, mirror)
    e = entry_for(bus, b)
    if mirror is not None and in_range(mirror, b):
        check("mirror_entry", e is bus.mappings[identifier + "_mirror"])
        check("mirror_attrs", e.bank_range == mirror and e.mask == mask and e.writable is writeable)
        check("mirror_wf", e.bank_range[0] <= b and b <= e.bank_range[1])
    elif in_range(bank_range, b):
        check("primary_entry", e is bus.mappings[identifier])
        check("primary_attrs", e.bank_range == bank_range and e.mask == mask and e.writable is writeable)
        check("primary_wf", e.bank_range[0] <= b and b <= e.bank_range[1])
    else:
        check("others_unchanged", bus.lookup.get(b) == old)
        if old != identifier and old != identifier + "_mirror":
            check("others_same_entry", e is old_entry)
    check("still_editable", bus.editable is True)


def parse_map_literals_contract(p, expected):
    """`.map` attributes from tokens: every number is read as the literal it is -- decimal, 0x hexadecimal or 0b binary -- a pair `a,b` as the pair."""
    node = parse_map(p)
    check("attributes_are_the_literal_values", dict(node.args) == expected)
