"""C18 - table-encoded text follows the table and round-trips."""
from vf.framework import Case, Mutant
from vf.props import shapes as S

PROP = "C18"
LEVEL = "other"
H = "vf.contracts.c_table."
T = "script.Table."
FUNCTIONS = [T + "to_bytes", T + "parse_table_line", T + "transform_byte_matches_to_int", T + "add_lookup", T + "add_inverted_lookup", "a816.symbols.Scope.get_table",
             "a816.parse.nodes.TextNode.binary_text", "a816.parse.nodes.AbstractTextNode.pc_after", "a816.parse.nodes.AbstractTextNode.emit", "a816.parse.nodes.TableNode.__init__"]
MIN_OBLIGATIONS = 40
EXPLANATION = ("Table.to_bytes is executed symbolically on tables built by the real parse_table_line (single/multi-character texts, single/multi-byte "
               "codes, overlapping prefixes a/b/ab/abc) for EVERY text of length 0..5 (and escape-bearing texts up to 7) over the table alphabet, "
               "escape characters and unknown characters, and proved equal to the reference longest-match encoding -- unbounded in characters, "
               "bounded in text length and in the table.  Scope.get_table is proved by induction with an abstract enclosing chain; TextNode's "
               "layout size equals its emitted length.  Table files and the decode round trip are the bounded part."
               "  `.table` loads into the scope it is written in (block, loop iteration, named scope) and leaves the enclosing scope's table alone; the escape wins over a table entry `[`.")
TRUSTED = ["vf/specs/table_ref.py (reference encoder from the statement)", "regex model: concrete subjects go through Python's re; symbolic subjects only for the "
           "escape pattern ^\\[0x(?P<byte>[0-9a-fA-F]+)]"]
ASSUMPTIONS = ["bounded in structure: 3 fixed tables, text length <= 5 (7 with an escape)", "Address.__add__ through its contract (C04)",
               "bounded: generated tables (unique prefix-free codes) and strings: to_text(to_bytes(s)) round trip, .table files through the real directive, nested scopes"]

TABLES = {
    "overlap": (["41=a", "42=b", "4344=ab", "45=abc"], {"a": b"\x41", "b": b"\x42", "ab": b"\x43\x44", "abc": b"\x45"}, "abc?"),
    "single": (["00=x", "FF=y", "10=["], {"x": b"\x00", "y": b"\xff", "[": b"\x10"}, "xy[0]"),
    "multi": (["0102=hello", "03=he", "04=l"], {"hello": b"\x01\x02", "he": b"\x03", "l": b"\x04"}, "helo"),
}


def setup_engine(E):
    S.use_address_add_contract(E)
    E.I.overrides[T + "transform_byte_matches_to_int"] = "vf.specs.stubs.pairs_of_hex_model"


def shape_text(tname, n, alphabet=None):
    def sh(B):
        lines, entries, alpha = TABLES[tname]
        return {"lines": B.list(lines), "entries": B.dict(entries), "text": B.symstr("text", n, alphabet or alpha)}
    return sh


def shape_escape(tname, n):
    def sh(B):
        import z3
        lines, entries, alpha = TABLES[tname]
        t = B.symstr("text", n, alpha[:2] + "[0x19aF]")
        # texts that begin like an escape (the interesting region); everything after is free
        B.assume(z3.And(B.symbols["text[0]"] == ord("["), B.symbols["text[1]"] == ord("0"), B.symbols["text[2]"] == ord("x")))
        return {"lines": B.list(lines), "entries": B.dict(entries), "text": t}
    return sh


def shape_get_table(own, parent_kind):
    def sh(B):
        res = S.resolver(B)
        mine = B.inst("script.Table", lookup=B.dict({}), inverted_lookup=B.dict({}), max_bytes_length=0, max_text_length=0) if own else None
        ptab = B.inst("script.Table", lookup=B.dict({}), inverted_lookup=B.dict({}), max_bytes_length=0, max_text_length=0) if parent_kind == "has table" else None
        parent = None if parent_kind == "top-level" else B.inst("vf.specs.progmodel.AbstractScope", defined=False, value=0, symbols=B.dict({}), code_symbols=B.dict({}),
                                                                 table=ptab, parent=None)
        sc = B.inst("a816.symbols.Scope", symbols=B.dict({}), code_symbols=B.dict({}), parent=parent, resolver=res, table=mine, labels=B.dict({}))
        return {"scope": sc, "own": mine, "parent_kind": parent_kind, "parent_table": ptab}
    return sh


def shape_table_node(cls, outer_has, inner_has=False):
    def sh(B):
        res = S.resolver(B)
        root = B.I.hget(B.st, res).fields["current_scope"]
        ot = B.inst("script.Table", lookup=B.dict({}), inverted_lookup=B.dict({}), max_bytes_length=0, max_text_length=0) if outer_has else None
        B.I.hmut(B.st, root).fields["table"] = ot
        inner = S.scope(B, res, root, cls="a816.symbols." + cls, **({"name": "s"} if cls == "NamedScope" else {}))
        if inner_has:
            B.I.hmut(B.st, inner).fields["table"] = B.inst("script.Table", lookup=B.dict({"q": b"\x99"}), inverted_lookup=B.dict({}), max_bytes_length=1, max_text_length=1)
        B.I.hmut(B.st, B.I.hget(B.st, res).fields["scopes"]).items.append(inner)
        B.I.hmut(B.st, res).fields["current_scope"] = inner
        return {"resolver": res, "inner": inner, "outer": root, "outer_table": ot}
    return sh


def shape_text_node(B):
    res = S.resolver(B)
    lines, entries, alpha = TABLES["overlap"]
    table = B.inst("script.Table", lookup=B.dict(entries), inverted_lookup=B.dict({}), max_bytes_length=2, max_text_length=3)
    text = B.symstr("text", 3, alpha)
    node = B.inst("a816.parse.nodes.TextNode", text=text, resolver=res, table=table, file_info=S.token(B, "KEYWORD", "text"))
    return {"node": node, "addr": S.lorom_address(B), "table": table, "text": text}


def cases(E):
    import os
    thorough = os.environ.get("VERIF_TIER") == "thorough"
    cs = []
    for tname in TABLES:
        for n in range(0, 6 if thorough else 5):
            cs.append(Case(H + "to_bytes_contract", f"table {tname}, every text of length {n}", shape_text(tname, n), target=[T + "to_bytes", T + "parse_table_line"], timeout_ms=30000))
    for n in (5, 6, 7) if thorough else (5, 6):
        cs.append(Case(H + "to_bytes_contract", f"table overlap, texts starting with [0x, length {n}", shape_escape("overlap", n), target=[T + "to_bytes"], timeout_ms=30000))
    # a table in which `[` is itself an entry: the escape still wins at a position where both apply
    for n in (5, 6):
        cs.append(Case(H + "to_bytes_contract", f"table single (has an entry `[`), texts starting with [0x, length {n}", shape_escape("single", n), target=[T + "to_bytes"], timeout_ms=30000))
    for own in (False, True):
        for pk in ("top-level", "has table", "no table"):
            cs.append(Case(H + "get_table_contract", f"own table={own}, enclosing chain {pk}", shape_get_table(own, pk), target=["a816.symbols.Scope.get_table"]))
    cs.append(Case(H + "text_node_contract", "overlap table, every text of length 3", shape_text_node, target=FUNCTIONS[6:9]))
    # the string a .text directive hands to the table encoder is the quoted text minus its two delimiters, whatever it ends with (C07's contract)
    from vf.props import C07 as c07
    cs.append(Case(c07.H + "quoted_string_directive_contract", "a QUOTED_STRING token of any text (quotes and backslashes inside included)", c07.shape_quoted,
                   target=["a816.parse.parser_states.parse_directive_with_quoted_string"]))
    cs.append(Case(H + "table_node_contract", "a second .table in a scope that already loaded one", shape_table_node("Scope", True, True),
                   target=["a816.parse.nodes.TableNode.__init__"], overrides={"script.Table.__init__": "vf.specs.stubs.table_init_model"}))
    for cls in ("Scope", "InternalScope", "NamedScope"):
        for outer_has in (True, False):
            cs.append(Case(H + "table_node_contract", f".table inside a {cls}, enclosing scope {'has' if outer_has else 'has no'} table", shape_table_node(cls, outer_has),
                           target=["a816.parse.nodes.TableNode.__init__"], overrides={"script.Table.__init__": "vf.specs.stubs.table_init_model"}))
    return cs


OPTIONAL_CHECKS = {"table_node_contract": ["a_second_table_replaces_the_first"], "get_table_contract": ["own_table_first", "no_table", "enclosing_table"]}


QUICK_MUTANTS = 2


def bounded(tier, seed):
    from vf.framework import native_call
    return native_call("b_C18.py", {"tier": tier, "seed": seed}, timeout=3000)


def mutants():
    from vf.pyvc.mutate import textual
    return [
        Mutant("to_bytes:shortest-match", T + "to_bytes", textual("range(min(len(text), self.max_text_length), 0, -1)", "range(1, min(len(text), self.max_text_length) + 1)"), only_harness="to_bytes", max_cases=8),
        Mutant("to_bytes:escape-masked-7bit", T + "to_bytes", textual("int(matches.group('byte'), 16)", "int(matches.group('byte'), 16) & 127"), only_harness="to_bytes"),
        Mutant("to_bytes:unknown-char-emitted", T + "to_bytes", textual("            current_position += 1", "            binary_text += b'?'\n            current_position += 1"), only_harness="to_bytes", max_cases=8),
        Mutant("get_table:no-fallback", "a816.symbols.Scope.get_table", textual("return self.parent.get_table()", "return None"), only_harness="get_table"),
    ]
