"""Shared cases: every code generator and _code_gen against the common generator contract (vf/specs/genmodel.py).
Used by C08 (scope discipline for every AST), C09/C10 (macro application / .for open and leave exactly their own scope) and
C15 (shape of the expansion recursion)."""
from vf.framework import Case
from vf.props import shapes as S

G = "a816.parse.codegen."
A = "a816.parse.ast.nodes."
H = "vf.contracts.c_expansion."
M = "vf.specs.genmodel."
GENERATORS = ["generate_block", "generate_scope", "generate_map", "generate_compound", "generate_macro", "generate_macro_application", "generate_code_lookup", "generate_if",
              "generate_for", "generate_at_eq", "generate_star_eq", "generate_table", "generate_text", "generate_ascii", "generate_db", "generate_dw", "generate_dl",
              "generate_symbol", "generate_assign", "generate_label", "generate_opcode", "generate_incbin", "generate_include_ips"]
FUNCTIONS = [G + "_code_gen"] + [G + g for g in GENERATORS]
# constructors that read files: their effect is on the new node and the file only (contents proved in C07 / C13 / C18)
STUBS = {"a816.parse.nodes.BinaryNode.__init__": "vf.specs.stubs.file_reading_constructor_model", "a816.parse.nodes.IncludeIpsNode.__init__": "vf.specs.stubs.file_reading_constructor_model",
         "script.Table.__init__": "vf.specs.stubs.file_reading_constructor_model", "a816.cpu.mapping.Bus.map": "vf.specs.stubs.bus_map_frame_model",
         "a816.parse.ast.expression.eval_expression": "vf.specs.stubs.eval_expression_model"}
ASSUMED = ["BinaryNode / IncludeIpsNode / Table constructors and Bus.map are replaced by frame stubs (they do not touch the resolver's scope list or cursor; their own behaviour is C07 / C13 / C18 / C04)",
           "sub-trees are lists of unknown length that are never inspected (the callee contract stands for their expansion); macro applications are checked with 0, 1 and 2 arguments",
           "macro application and code-block lookup recurse on a tree that is not a sub-tree of their node (the macro's body, the bound block): depth is bounded only by CPython's recursion limit"]


def _expr(B, name):
    return S.expression(B, B.int(name), defined=B.bool(name + "_defined"))


def _tok(B):
    return S.tok(B, "KEYWORD", "k")


def _kinds(B):
    """one arbitrary AST node of every kind the parser can produce, sub-trees unknown: (kind, node, sub_trees, explicit_recursion)"""
    out = []
    body = B.symlist("body")
    out.append(("block", B.inst(A + "BlockAstNode", kind="block", file_info=_tok(B), body=body), [body], False))
    body = B.symlist("cbody")
    out.append(("compound", B.inst(A + "CompoundAstNode", kind="compound", file_info=_tok(B), body=body), [body], False))
    body = B.symlist("sbody")
    out.append(("scope", B.inst(A + "ScopeAstNode", kind="scope", file_info=_tok(B), name="s", body=B.inst(A + "BlockAstNode", kind="block", file_info=_tok(B), body=body)), [body], False))
    out.append(("map", B.inst(A + "MapAstNode", kind="map", file_info=_tok(B), args=B.dict({"identifier": 1, "bank_range": (0, 1), "addr_range": (0, 1), "mask": 1})), [], False))
    mb = B.symlist("mbody")
    out.append(("macro", B.inst(A + "MacroAstNode", kind="macro", file_info=_tok(B), name="m", args=B.list(["a"]), block=B.inst(A + "BlockAstNode", kind="block", file_info=_tok(B), body=mb)), [], False))
    out.append(("code_lookup", S.ast_code_lookup(B, "blk"), [], True))
    tb, eb = B.symlist("then_body"), B.symlist("else_body")
    out.append(("if", B.inst(A + "IfAstNode", kind="if", file_info=_tok(B), expression=_expr(B, "cond"), block=B.inst(A + "CompoundAstNode", kind="compound", file_info=_tok(B), body=tb),
                             else_block=B.inst(A + "CompoundAstNode", kind="compound", file_info=_tok(B), body=eb)), [tb, eb], False))
    tb2 = B.symlist("then_body2")
    out.append(("if", B.inst(A + "IfAstNode", kind="if", file_info=_tok(B), expression=_expr(B, "cond2"), block=B.inst(A + "CompoundAstNode", kind="compound", file_info=_tok(B), body=tb2),
                             else_block=None), [tb2], False))
    fb = B.symlist("for_body")
    out.append(("for", B.inst(A + "ForAstNode", kind="for", file_info=_tok(B), symbol="i", min_value=_expr(B, "lo"), max_value=_expr(B, "hi"),
                              body=B.inst(A + "CompoundAstNode", kind="compound", file_info=_tok(B), body=fb)), [fb], False))
    out.append(("at_eq", B.inst(A + "CodeRelocationAstNode", kind="at_eq", file_info=_tok(B), expression=_expr(B, "e1")), [], False))
    out.append(("star_eq", B.inst(A + "CodePositionAstNode", kind="star_eq", file_info=_tok(B), expression=_expr(B, "e2")), [], False))
    out.append(("table", B.inst(A + "TableAstNode", kind="table", file_info=_tok(B), file_path="t.tbl"), [], False))
    out.append(("text", B.inst(A + "TextAstNode", kind="text", file_info=_tok(B), text="abc"), [], False))
    out.append(("ascii", B.inst(A + "AsciiAstNode", kind="ascii", file_info=_tok(B), text="abc"), [], False))
    for kind in ("db", "dw", "dl", "pointer"):
        out.append((kind, B.inst(A + "DataNode", kind=kind, file_info=_tok(B), data=B.symlist("data_" + kind)), [], False))
    out.append(("symbol", S.ast_symbol(B, "s", _expr(B, "e3")), [], False))
    out.append(("assign", S.ast_assign(B, "a", _expr(B, "e4")), [], False))
    out.append(("label", S.ast_label(B, "l"), [], False))
    mode = B.symenum("mode", "a816.cpu.cpu_65c816.AddressingMode")
    out.append(("opcode", B.inst(A + "OpcodeAstNode", kind="opcode", file_info=_tok(B), addressing_mode=mode, opcode="lda", value_size=None, operand=_expr(B, "e5"), index=None), [], False))
    out.append(("incbin", B.inst(A + "IncludeBinaryAstNode", kind="incbin", file_info=_tok(B), file_path="f.bin"), [], False))
    out.append(("include_ips", B.inst(A + "IncludeIpsAstNode", kind="include_ips", file_info=_tok(B), file_path="f.ips", expression=_expr(B, "e6")), [], False))
    out.append(("struct", B.inst(A + "StructAstNode", kind="struct", file_info=_tok(B), name="st", fields=B.dict({})), [], False))
    return out


KIND_TO_GEN = {"block": "generate_block", "scope": "generate_scope", "map": "generate_map", "compound": "generate_compound", "macro": "generate_macro",
               "code_lookup": "generate_code_lookup", "if": "generate_if", "for": "generate_for", "at_eq": "generate_at_eq", "star_eq": "generate_star_eq", "table": "generate_table",
               "text": "generate_text", "ascii": "generate_ascii", "db": "generate_db", "dw": "generate_dw", "dl": "generate_dl", "pointer": "generate_dl", "symbol": "generate_symbol",
               "assign": "generate_assign", "label": "generate_label", "opcode": "generate_opcode", "incbin": "generate_incbin", "include_ips": "generate_include_ips"}


def _resolver(B):
    """a resolver in the middle of an expansion: any number of scopes already created, cursor consistent"""
    res = S.resolver(B)
    o = B.I.hget(B.st, res)
    scopes = o.fields["scopes"]
    from vf.pyvc.values import HSymList, Opaque
    root = B.I.hget(B.st, scopes).items[0]
    n = B.int("scopes_before", 0)
    B.st.heap[scopes.oid] = HSymList(n, lambda I, st, idx: Opaque("earlier scope"), prefix=(root,), what="scopes")
    B.I.hmut(B.st, res).fields["last_used_scope"] = n  # == len(scopes) - 1
    return res


def shape_generator(index):
    def sh(B):
        kind, node, subs, explicit = _kinds(B)[index]
        res = _resolver(B)
        defs = B.dict({})
        if kind == "code_lookup":
            blk = B.inst(A + "BlockAstNode", kind="block", file_info=_tok(B), body=B.symlist("bound_block"))
            root = B.I.hget(B.st, res).fields["current_scope"]
            B.I.hmut(B.st, B.I.hget(B.st, root).fields["code_symbols"]).items["blk"] = blk
        return {"gen": B.func(G + KIND_TO_GEN[kind]), "node": node, "resolver": res, "defs": defs, "tok": _tok(B), "sub_trees": B.list(subs), "explicit_recursion": explicit,
                "own_scopes": {"compound": 1, "scope": 1, "for": None}.get(kind, 0)}
    return sh


def shape_macro_application(nargs, kinds):
    def sh(B):
        res = _resolver(B)
        params = ["p%d" % i for i in range(nargs)]
        mbody = B.symlist("macro_body")
        mdef = B.inst(A + "MacroAstNode", kind="macro", file_info=_tok(B), name="m", args=B.list(params), block=B.inst(A + "BlockAstNode", kind="block", file_info=_tok(B), body=mbody))
        args = []
        for i, k in enumerate(kinds):
            if k == "block":
                args.append(B.inst(A + "BlockAstNode", kind="block", file_info=_tok(B), body=B.symlist("arg_block%d" % i)))
            else:
                args.append(_expr(B, "arg%d" % i))
        node = S.ast_apply(B, "m", args)
        return {"gen": B.func(G + "generate_macro_application"), "node": node, "resolver": res, "defs": B.dict({"m": mdef}), "tok": _tok(B), "sub_trees": B.list([]), "explicit_recursion": True, "own_scopes": 1}
    return sh


def shape_if_selection(with_else):
    def sh(B):
        res = _resolver(B)
        v, d = B.int("v"), B.bool("defined")
        tb = B.symlist("then_body")
        eb = B.symlist("else_body") if with_else else None
        node = B.inst(A + "IfAstNode", kind="if", file_info=_tok(B), expression=S.expression(B, v, defined=d), block=B.inst(A + "CompoundAstNode", kind="compound", file_info=_tok(B), body=tb),
                      else_block=B.inst(A + "CompoundAstNode", kind="compound", file_info=_tok(B), body=eb) if with_else else None)
        return {"node": node, "resolver": res, "defs": B.dict({}), "tok": _tok(B), "v": v, "defined": d, "then_tree": tb, "else_tree": eb}
    return sh


def c07_cases(E):
    """data directives with expression lists of ARBITRARY length (loop contract: one node of the directive's width per expression, in order)"""
    return [c for c in cases(E) if any(k in c.label for k in ("generate_db", "generate_dw", "generate_dl"))]


def c10_cases(E):
    """the .for / .if cases (arbitrary bounds, arbitrary condition, arbitrary sub-trees)"""
    L, C = loop_specs(E), contracts()
    cs = [c for c in cases(E) if "generate_for" in c.label or "generate_if" in c.label]
    for we in (True, False):
        cs.append(Case(H + "generate_if_selection_contract", f"arbitrary condition and sub-trees, else={we}", shape_if_selection(we), target=[G + "generate_if"], overrides=STUBS, contracts=C,
                       loop_specs=L, group="expansion", replay=False))
    return cs


def shape_code_gen(B):
    res = _resolver(B)
    return {"ast_nodes": B.symlist("statements"), "resolver": res, "defs": B.dict({})}


def _code_gen_items(I, st):
    """the arbitrary statement of _code_gen's loop: one node of every kind (sub-trees unknown), and one of an unknown kind"""
    from vf.pyvc.harness import Builder
    B = Builder(ENGINE[0], st)
    return [node for _k, node, _s, _e in _kinds(B)]


ENGINE = [None]


def _havoc_expansion(code_local):
    def havoc(I, st):
        from vf.pyvc.values import HSymList, Opaque
        from vf.pyvc.models import symlist_concat
        res = st.env["resolver"]
        o = I.hmut(st, res)
        scopes = o.fields["scopes"]
        n = I.fresh_int("scopes_added")
        st.pc.append(n >= 0)
        st.heap[scopes.oid] = symlist_concat(I, I.hget(st, scopes), HSymList(n, lambda I2, s2, idx: Opaque("scope"), what="scopes"), st)
        o.fields["last_used_scope"] = I.fresh_int("last_used_scope")
        m = I.fresh_int(code_local + "_len")
        st.pc.append(m >= 0)
        st.heap[st.env[code_local].oid] = HSymList(m, lambda I2, s2, idx: Opaque("node"), what=code_local)
    return havoc


def _havoc_code_only(I, st):
    from vf.pyvc.values import HSymList, Opaque
    m = I.fresh_int("code_len")
    st.pc.append(m >= 0)
    st.heap[st.env["code"].oid] = HSymList(m, lambda I2, s2, idx: Opaque("node"), what="code")
    st.ghost["code_len_before_iteration"] = m


def _ghost_expansion(I, st):
    o = I.hget(st, st.env["resolver"]).fields
    return {"scope0": o["current_scope"], "n0": I.models.builtin_len(I, o["scopes"], st)[0][1]}


def _modifies(code_local):
    def m(I, st):
        res = st.env["resolver"]
        return {res.oid, I.hget(st, res).fields["scopes"].oid, st.env[code_local].oid}
    return m


def _data_items(I, st):
    from vf.pyvc.values import HInst, Opaque
    mk = lambda cls: I.alloc(st, HInst(A + cls, {"kind": Opaque("kind"), "file_info": Opaque("token"), "tokens": Opaque("tokens"), "body": Opaque("body")}))
    return [mk("ExpressionAstNode"), mk("BlockAstNode")]


def loop_specs(E):
    from vf.pyvc.loops import LoopSpec
    ENGINE[0] = E
    L = {}
    L[(G + "_code_gen", 0)] = LoopSpec("_code_gen", H + "inv_expansion", havoc=_havoc_expansion("code"), item=_code_gen_items, modifies=_modifies("code"), ghost=_ghost_expansion)
    L[(G + "generate_for", 0)] = LoopSpec("generate_for", H + "inv_expansion", havoc=_havoc_expansion("code"), modifies=_modifies("code"), ghost=_ghost_expansion, step=H + "step_for")
    for g in ("generate_db", "generate_dw", "generate_dl"):
        L[(G + g, 0)] = LoopSpec(g, H + "inv_true", havoc=_havoc_code_only, item=_data_items, modifies=lambda I, st: {st.env["code"].oid}, step=H + "step_" + g[len("generate_"):])
    return L


def contracts():
    c = {G + "_code_gen": M + "code_gen_model", "a816.parse.nodes.ScopeNode.__init__": M + "scope_node_init_model", "a816.parse.nodes.PopScopeNode.__init__": M + "pop_scope_node_init_model"}
    for g in GENERATORS:
        c[G + g] = M + "generator_model"
    return c


def cases(E):
    L = loop_specs(E)
    C = contracts()
    cs = []
    from vf.pyvc.harness import Builder
    from vf.pyvc.interp import State
    kinds = [(k, KIND_TO_GEN.get(k)) for k, _n, _s, _e in _kinds(Builder(E, State()))]
    seen = {}
    for i, (k, g) in enumerate(kinds):
        if g is None:
            continue
        seen[k] = seen.get(k, 0) + 1
        cs.append(Case(H + "generator_contract", f"{g} on an arbitrary `{k}` node" + (f" #{seen[k]}" if seen[k] > 1 else ""), shape_generator(i), target=[G + g], overrides=STUBS, contracts=C, loop_specs=L,
                       group="expansion", replay=False))
    for nargs, kinds_ in ((0, ()), (1, ("expr",)), (1, ("block",)), (2, ("expr", "block")), (2, ("expr", "expr")), (2, ("expr",))):
        cs.append(Case(H + "generator_contract", f"generate_macro_application, {nargs} parameters, arguments {kinds_}", shape_macro_application(nargs, kinds_),
                       target=[G + "generate_macro_application"], overrides=STUBS, contracts=C, loop_specs=L, group="expansion", replay=False))
    cs.append(Case(H + "code_gen_contract", "any statement list, any statement kinds", shape_code_gen, target=[G + "_code_gen"], overrides=STUBS, contracts=C, loop_specs=L, group="expansion", replay=False))
    return cs


def mutants():
    from vf.framework import Mutant
    from vf.pyvc.mutate import textual
    return [
        Mutant("generate_compound:scope-not-left", G + "generate_compound", textual("    code.append(PopScopeNode(resolver))\n    resolver.restore_scope()", "    code.append(PopScopeNode(resolver))"), only_harness="generator_contract"),
        Mutant("generate_for:scope-not-left", G + "generate_for", textual("        code.append(PopScopeNode(resolver))\n        resolver.restore_scope()", "        code.append(PopScopeNode(resolver))"), only_harness="generator_contract"),
        Mutant("generate_if:expands-itself", G + "generate_if", textual("code += _code_gen(if_branch_true.body, resolver, macro_definitions)", "code += _code_gen([node], resolver, macro_definitions)"), only_harness="generator_contract"),
        Mutant("generate_scope:next-scope-not-entered", G + "generate_scope", textual("    resolver.use_next_scope()\n", ""), only_harness="generator_contract"),
    ]
