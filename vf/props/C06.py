"""C06 - expressions evaluate to their conventional integer value."""
import itertools

from vf.framework import Case, Mutant
from vf.props import shapes

PROP = "C06"
LEVEL = "other"
H = "vf.contracts.c_expr."
X = "a816.parse.ast.expression."
FUNCTIONS = [X + "eval_expression", X + "shunting_yard", X + "eval_number", X + "reverse_find_token", "a816.symbols.Scope.value_for", "a816.symbols.Scope.__getitem__",
             "a816.parse.parser_states.parse_expression", "a816.parse.parser_states._parse_expression"]
MIN_OBLIGATIONS = 1500
EXPLANATION = ("For every expression tree shape over unary - ~, binary * + - << >> & | and parentheses up to a structural bound (quick: 3 operators; "
               "thorough: 4), the REAL parse_expression (tokens -> prefix/infix classification), shunting_yard and eval_expression are executed symbolically on the shape's TOKEN list with identifier operands "
               "of arbitrary integer value, and the result is proved equal to the reference semantics (precedence, associativity, complement width) "
               "for ALL operand values -- unbounded in values, bounded in structure.  Literal bases, the precedence table and undefined names are "
               "separate obligations.  Text -> tokens (two lexing contexts, spacing) -> value is the bounded part.")
TRUSTED = ["vf/specs/expr_ref.py (reference semantics written from the statement)"]
ASSUMPTIONS = ["structure bound: quick = every expression tree with at most 2 operators and a fixed eighth of those with 3; thorough = every tree with at most 3 operators and a fixed quarter of those with 4; each with and without redundant parentheses",
               "x << y, x >> y with a symbolic shift count use an uninterpreted power function on both sides (equal by congruence)",
               "x & y, x | y of two symbolic ints: uninterpreted bitand on both sides", "int.bit_length / ctypes.c_uintN models",
               "bounded: expression texts in both lexing contexts (operand / directive) with spacing variants, literals in all bases, through the real pipeline"]

BIN = ["*", "+", "-", "<<", ">>", "&", "|"]
UN = ["-", "~"]
NAMES = ["a", "b", "c", "d", "e"]


def gen_trees(nops, leaves):
    """All trees with exactly nops operators whose leaves are taken left to right from `leaves`."""
    def go(n, start):
        # -> list of (tree, next_leaf_index)
        if n == 0:
            return [(("id", leaves[start]), start + 1)]
        out = []
        for op in UN:
            for t, nx in go(n - 1, start):
                out.append((("un", op, t), nx))
        for op in BIN:
            for k in range(n):
                for l, nx in go(k, start):
                    for r, nx2 in go(n - 1 - k, nx):
                        out.append((("bin", op, l, r), nx2))
        return out
    return [t for t, _ in go(nops, 0)]


def needs_paren(child, parent_op, side):
    from vf.specs.expr_ref import LEVEL
    if child[0] == "bin":
        if parent_op is None:
            return False
        if parent_op == "un":
            return True
        cl, pl = LEVEL[child[1]], LEVEL[parent_op]
        return cl > pl or (cl == pl and side == "r")
    if child[0] == "un":
        return False
    return False


def parenthesise(t, parent_op=None, side=None, extra=False):
    """Insert ("par", .) nodes where the conventional reading needs them (and everywhere when extra)."""
    k = t[0]
    if k == "id":
        return t
    if k == "un":
        inner = parenthesise(t[2], "un", "r", extra)
        r = ("un", t[1], inner)
    else:
        r = ("bin", t[1], parenthesise(t[2], t[1], "l", extra), parenthesise(t[3], t[1], "r", extra))
    if needs_paren(t, parent_op, side) or (extra and parent_op is not None):
        return ("par", r)
    return r


def build_node(B, tree):
    from vf.specs.expr_ref import tokens_of
    toks = tokens_of(tree)
    nodes = []
    prev = None
    for tx in toks:
        if tx == "(" or tx == ")":
            tt, cls = ("LPAREN" if tx == "(" else "RPAREN"), "Parenthesis"
        elif tx in NAMES:
            tt, cls = "IDENTIFIER", "Term"
        else:
            unary = prev is None or prev in BIN or prev in ("(",) or prev in UN
            tt, cls = "OPERATOR", ("UnaryOp" if unary and tx in UN else "BinOp")
        tok = B.inst("a816.parse.tokens.Token", type=B.enum("a816.parse.tokens.TokenType", tt), value=tx, position=None)
        nodes.append(B.inst("a816.parse.ast.nodes." + cls, token=tok))
        prev = tx
    first = B.I.hget(B.st, nodes[0]).fields["token"]
    return B.inst("a816.parse.ast.nodes.ExpressionAstNode", kind="expression", file_info=first, tokens=B.list(nodes))


def build_parser(B, tree):
    from vf.specs.expr_ref import tokens_of
    toks = []
    for tx in tokens_of(tree):
        tt = "LPAREN" if tx == "(" else "RPAREN" if tx == ")" else "IDENTIFIER" if tx in NAMES else "OPERATOR"
        toks.append(B.inst("a816.parse.tokens.Token", type=B.enum("a816.parse.tokens.TokenType", tt), value=tx, position=None))
    toks.append(B.inst("a816.parse.tokens.Token", type=B.enum("a816.parse.tokens.TokenType", "EOF"), value="", position=None))
    return B.inst("a816.parse.parser.Parser", tokens=B.list(toks), pos=0, initial_state=None)


def lift_tree(B, t):
    return tuple(lift_tree(B, x) if isinstance(x, tuple) else x for x in t)


def shape_tree(tree):
    def sh(B):
        env = {n: B.int(n) for n in NAMES}
        res = shapes.resolver(B)
        root = B.I.hget(B.st, res).fields["current_scope"]
        B.I.hmut(B.st, B.I.hget(B.st, root).fields["symbols"]).items.update(env)
        return {"p": build_parser(B, tree), "resolver": res, "tree": tree, "env": B.dict(env)}
    return sh


def all_shapes(max_ops):
    seen = set()
    for n in range(0, max_ops + 1):
        for t in gen_trees(n, NAMES):
            for extra in (False, True):
                p = parenthesise(t, extra=extra)
                if p not in seen:
                    seen.add(p)
                    yield p


def label(t):
    from vf.specs.expr_ref import tokens_of
    return " ".join(tokens_of(t))


def cases(E):
    import os
    import zlib
    thorough = os.environ.get("VERIF_TIER") == "thorough"
    max_ops = 4 if thorough else 3
    cs = []
    for t in all_shapes(max_ops):
        nops = sum(1 for x in label(t).split() if x in BIN + UN)
        h = zlib.crc32(label(t).encode())
        # quick: every shape up to 2 operators + a fixed eighth of the 3-operator shapes;
        # thorough: every shape up to 3 operators + a fixed quarter of the 4-operator shapes
        if (not thorough and nops == 3 and h % 8) or (thorough and nops == 4 and h % 4):
            continue
        cs.append(Case(H + "eval_shape_from_tokens_contract", label(t), shape_tree(t), target=[X + "eval_expression", X + "shunting_yard", "a816.parse.parser_states.parse_expression",
                                                                                                   "a816.parse.parser_states._parse_expression"], group="shapes", timeout_ms=20000))
    cs.append(Case(H + "precedence_table_contract", "live table", lambda B: {}, target=[]))
    for text, val in (("0", 0), ("255", 255), ("0xff", 255), ("0xFF", 255), ("0xAbCd", 0xABCD), ("0b1010", 10), ("0x10000", 65536), ("0b0", 0), ("1000000", 1000000), ("007", 7)):
        cs.append(Case(H + "eval_number_contract", text, lambda B, text=text, val=val: {"text": text, "value": val}, target=[X + "eval_number"]))
    cs.append(Case(H + "undefined_identifier_contract", "a + nope", lambda B: _undef(B), target=[X + "eval_expression"]))
    return cs


def _undef(B):
    res = shapes.resolver(B)
    root = B.I.hget(B.st, res).fields["current_scope"]
    B.I.hmut(B.st, B.I.hget(B.st, root).fields["symbols"]).items.update({"a": B.int("a")})
    tree = ("bin", "+", ("id", "a"), ("id", "b"))
    return {"node": build_node(B, tree), "resolver": res}


OPTIONAL_CHECKS = {"eval_shape_from_tokens_contract": ["refuses_like_reference", "negative_shift_refused", "value_is_conventional"]}


QUICK_MUTANTS = 4


def bounded(tier, seed):
    from vf.framework import native_call
    return native_call("b_C06.py", {"tier": tier, "seed": seed}, timeout=3000)


def mutants():
    from vf.pyvc.mutate import textual
    return [
        Mutant("_parse_expression:prefix-minus-classified-as-infix", "a816.parse.parser_states._parse_expression", textual("tokens.append(UnaryOp(current_token))", "tokens.append(BinOp(current_token))"), only_harness="eval_shape", max_cases=400),
        Mutant("eval_expression:operands-swapped", X + "eval_expression", textual("r = v1 - v2", "r = v2 - v1"), only_harness="eval_shape", max_cases=400),
        Mutant("shunting_yard:<=-to-<", X + "shunting_yard", textual("<= current_precedence", "< current_precedence"), only_harness="eval_shape", max_cases=400),
        Mutant("eval_expression:complement-16bit-threshold", X + "eval_expression", textual("v1.bit_length() <= 16", "v1.bit_length() <= 15"), only_harness="eval_shape", max_cases=400),
        Mutant("eval_expression:complement-keeps-sign", X + "eval_expression", textual("ctypes.c_uint8(~v1).value", "(v1 ^ 255)"), only_harness="eval_shape", max_cases=400),
    ]
