"""C01 - accepted instructions encode exactly as the 65c816 ISA defines."""
from vf.framework import Case, Mutant
from vf.props import shapes

PROP = "C01"
LEVEL = "other"
H = "vf.contracts.c_cpu."
CPU = "a816.cpu.cpu_65c816."
N = "a816.parse.nodes."
FUNCTIONS = [CPU + "Opcode.emit_value", CPU + "Opcode.get_opcode_byte", CPU + "Opcode.emit", CPU + "Opcode.supposed_length",
             CPU + "OpcodeWithoutOperand.emit", CPU + "OpcodeWithoutOperand.supposed_length", CPU + "guess_value_size",
             N + "ValueNodeProtocol.get_operand_size", N + "ExpressionNode.get_value_string_len", N + "ExpressionNode.get_value",
             N + "OpcodeNode.__init__", N + "OpcodeNode._get_emitter", N + "OpcodeNode.emit", N + "OpcodeNode.pc_after",
             "a816.parse.parser_states.parse_opcode", "a816.parse.parser_states.parse_operand_and_addressing", "a816.parse.parser_states._parse_expression",
             "a816.parse.parser_states.parse_expression", "a816.parse.codegen.generate_opcode"]
MIN_OBLIGATIONS = 5000
EXPLANATION = ("From tokens on: per mnemonic of the live opcode table, the real OpcodeNode._get_emitter/emit/pc_after are executed symbolically "
               "for the full cross product addressing mode x index x width (present and absent cells) with a symbolic operand value; each "
               "cell must yield exactly the ISA opcode (independent matrix vf/specs/isa65816.py) followed by the little-endian operand, or be "
               "rejected, and every cell of the frozen supported set must be accepted.  Width inference and Opcode.emit on arbitrary cell "
               "definitions are proved for all values.  Operand SYNTAX -> addressing mode is proved on the real parse_opcode / parse_operand_and_addressing / "
               "generate_opcode for every operand shape of the statement (29 token patterns incl. the malformed index combinations and parenthesised "
               "sub-expressions), with and without a size suffix, letter case symbolic: the (mode, index) chosen denotes -- through the same form_of the table "
               "obligations use -- exactly the ISA form the syntax denotes at each width, or nothing (then the table obligations reject it).  END TO END: for every mnemonic x "
               "single-term operand shape x suffix presence (a deterministic quarter in the quick tier, all ~4 000 in the thorough tier) the token list is run through the real "
               "parse_opcode -> generate_opcode -> real eval_expression -> OpcodeNode.emit with the operand bound to ANY value: the bytes are the ISA opcode of the form the SYNTAX "
               "denotes at the explicit / inferred width + the little-endian operand, or the statement is rejected, never so for a supported one.  "
               "Characters -> tokens (scanner) for instruction statements is the bounded part.")
TRUSTED = ["vf/specs/isa65816.py (65c816 matrix, flat table cross-checked against the aaabbbcc group rule at start-up)", "vf/specs/le.py",
           "vf/specs/supported_set.py (frozen at the pinned commit)"]
ASSUMPTIONS = ["eval_expression modelled as a function of (expression, environment) (vf/specs/stubs.py); verified separately in C06",
               "hex()/len(hex(v)) model: 2 + number of hex digits, threshold axioms d <= k <=> v < 16**k", "struct.pack model",
               "operand values 0 <= v < 2**24 for the table obligations (the statement's widths are 1-3 bytes); wider .l operands may be refused",
               "syntax obligations: operand terms are identifier tokens (the value of an expression is C06's subject); the composition syntax -> node -> bytes is machine-checked "
               "end to end by statement_bytes_contract for single-term operands (quick tier: a deterministic quarter of mnemonic x shape x suffix; thorough: all)",
               "bounded: characters -> tokens -> (mode, index, size) for each operand shape x suffix x case x spacing through the real scanner/parser"]


def setup_engine(E):
    shapes.use_eval_model(E)
    shapes.use_address_add_contract(E)
    E.I.contracts[N + "ValueNodeProtocol.get_operand_size"] = H + "get_operand_size_spec"


def _common(B, v):
    res = shapes.resolver(B)
    return res, shapes.expression(B, v), shapes.token(B), shapes.lorom_address(B)


def shape_table(mnemonic):
    def sh(B):
        v = B.int("v")
        res, expr, tok, addr = _common(B, v)
        return {"mnemonic": mnemonic, "expr": expr, "resolver": res, "tok": tok, "addr": addr, "v": v}
    return sh


def shape_opcode(defn, size):
    def sh(B):
        v = B.int("v")
        res = shapes.resolver(B)
        cells = [None if c is None else B.int(f"cell{i}", 0, 255) for i, c in enumerate(defn)]
        op = B.inst(CPU + "Opcode", opcode_def=B.list(cells), is_a=False, is_x=False, size_opcode_map=B.dict({"b": 0, "w": 1, "l": 2}))
        return {"op": op, "vn": shapes.value_node(B, v, res), "size": size, "v": v, "resolver": res}
    return sh


def shape_node(m, mode, idx, size):
    def sh(B):
        v = B.int("v")
        res, expr, tok, addr = _common(B, v)
        vn = None if mode == "none" else B.inst(N + "ExpressionNode", expression=expr, resolver=res, file_info=tok)
        node = B.inst(N + "OpcodeNode", opcode=m, addressing_mode=B.enum(CPU + "AddressingMode", mode), index=idx, value_node=vn, size=size,
                      file_info=tok, resolver=res)
        return {"node": node, "addr": addr, "v": v}
    return sh


def _toks(B, items):
    return [B.inst("a816.parse.tokens.Token", type=B.enum("a816.parse.tokens.TokenType", tt), value=val, position=None) for tt, val in items]


def shape_statement(shape, with_size):
    """token list of `MNEMONIC[.size] <operand shape>`: size letter and index letters symbolic in case; operand terms are identifiers"""
    def sh(B):
        size = B.symstr("size", 1, "bBwWlL") if with_size else None
        reg = lambda name, letters: B.symstr(name, 1, letters)
        e, f = ("IDENTIFIER", "e"), ("IDENTIFIER", "f")
        plus, minus = ("OPERATOR", "+"), ("OPERATOR", "-")
        LP, RP, LB, RB, SH = ("LPAREN", "("), ("RPAREN", ")"), ("LBRAKET", "["), ("RBRAKET", "]"), ("SHARP", "#")
        ix = lambda name, letters: ("ADDRESSING_MODE_INDEX", reg(name, letters))
        X, Y, S_ = "xX", "yY", "sS"
        pat = {
            "implied": lambda: [], "#e": lambda: [SH, e], "e": lambda: [e], "e,x": lambda: [e, ix("i", X)], "e,y": lambda: [e, ix("i", Y)], "e,s": lambda: [e, ix("i", S_)],
            "(e)": lambda: [LP, e, RP], "(e),y": lambda: [LP, e, RP, ix("i", Y)], "(e),x": lambda: [LP, e, RP, ix("i", X)], "(e),s": lambda: [LP, e, RP, ix("i", S_)],
            "[e]": lambda: [LB, e, RB], "[e],y": lambda: [LB, e, RB, ix("i", Y)], "[e],x": lambda: [LB, e, RB, ix("i", X)],
            "(e,x)": lambda: [LP, e, ix("j", X), RP], "(e,s),y": lambda: [LP, e, ix("j", S_), RP, ix("i", Y)], "(e,y)": lambda: [LP, e, ix("j", Y), RP], "(e,s)": lambda: [LP, e, ix("j", S_), RP],
            "(e,x),y": lambda: [LP, e, ix("j", X), RP, ix("i", Y)], "(e,y),y": lambda: [LP, e, ix("j", Y), RP, ix("i", Y)], "(e,x),x": lambda: [LP, e, ix("j", X), RP, ix("i", X)],
            "(e,s),x": lambda: [LP, e, ix("j", S_), RP, ix("i", X)], "#e,x": lambda: [SH, e, ix("i", X)], "#e,y": lambda: [SH, e, ix("i", Y)],
            "(e)+f": lambda: [LP, e, RP, plus, f], "(e)+f,x": lambda: [LP, e, RP, plus, f, ix("i", X)], "e+f": lambda: [e, plus, f], "(e+f),y": lambda: [LP, e, plus, f, RP, ix("i", Y)],
            "[e+f]": lambda: [LB, e, plus, f, RB], "#-e": lambda: [SH, minus, e],
            "<nothing>": lambda: [], "<nothing> }": lambda: [("RBRACE", "}")], "<nothing> nop": lambda: [("OPCODE_NAKED", "nop")],
        }[shape]()
        head = [("OPCODE_NAKED" if shape == "implied" else "OPCODE", "NoP" if shape == "implied" else ("InX" if shape.startswith("<nothing>") and with_size else "LdA"))]
        if with_size:
            head.append(("OPCODE_SIZE", size))
        toks = _toks(B, head + pat + [("EOF", "")])
        ve, vf = B.int("e"), B.int("f")
        value = {"e+f": ve + vf, "(e)+f": ve + vf, "(e)+f,x": ve + vf, "(e+f),y": ve + vf, "[e+f]": ve + vf, "#-e": -ve}.get(shape, ve)
        res = shapes.resolver(B)
        shapes.root_symbols(B, res, {"e": ve, "f": vf})
        p = B.inst("a816.parse.parser.Parser", tokens=B.list(toks), pos=0, initial_state=None)
        return {"p": p, "resolver": res, "shape": shape, "size_text": size, "mnemonic": "nop" if shape == "implied" else ("inx" if shape.startswith("<nothing>") and with_size else "lda"), "operand_value": value}
    return sh


SINGLE_TERM_SHAPES = ["implied", "#e", "e", "e,x", "e,y", "e,s", "(e)", "(e),y", "(e),x", "(e),s", "[e]", "[e],y", "[e],x", "(e,x)", "(e,s),y", "(e,y)", "(e,s)",
                      "(e,x),y", "(e,y),y", "(e,x),x", "(e,s),x", "#e,x", "#e,y"]


def shape_statement_bytes(mnemonic, shape, with_size):
    base = shape_statement(shape, with_size)

    def sh(B):
        d = base(B)
        v = B.int("v")
        shapes.root_symbols(B, d["resolver"], {"e": v})
        toks = B.I.hget(B.st, B.I.hget(B.st, d["p"]).fields["tokens"]).items
        B.I.hmut(B.st, toks[0]).fields["value"] = mnemonic
        return {"p": d["p"], "resolver": d["resolver"], "addr": shapes.lorom_address(B), "shape": shape, "size_text": d["size_text"], "mnemonic": mnemonic, "v": v}
    return sh


LITERALS = [("0x10", 0x10), ("0x0010", 0x10), ("0x000010", 0x10), ("0xFF", 0xFF), ("0x00FF", 0xFF), ("0x100", 0x100), ("0x0100", 0x100), ("0x000100", 0x100), ("0xFFFF", 0xFFFF),
            ("0x00FFFF", 0xFFFF), ("0x10000", 0x10000), ("0x010000", 0x10000), ("0b00010000", 0x10), ("0b0000000100000000", 0x100), ("16", 16), ("256", 256), ("65536", 65536)]


def shape_literal(mnemonic, shape, text, value):
    """the operand is ONE literal token, possibly written with leading zeros: the width follows the VALUE, not the spelling"""
    base = shape_statement(shape, False)

    def sh(B):
        d = base(B)
        toks = B.I.hget(B.st, B.I.hget(B.st, d["p"]).fields["tokens"]).items
        B.I.hmut(B.st, toks[0]).fields["value"] = mnemonic
        for t in toks:
            o = B.I.hget(B.st, t)
            if o.fields["value"] == "e":
                m = B.I.hmut(B.st, t)
                m.fields["value"] = text
                m.fields["type"] = B.enum("a816.parse.tokens.TokenType", "NUMBER")
        return {"p": d["p"], "resolver": d["resolver"], "addr": shapes.lorom_address(B), "shape": shape, "size_text": None, "mnemonic": mnemonic, "v": value}
    return sh


def literal_cases(E):
    cs = []
    for m, shp in (("lda", "e"), ("lda", "#e"), ("lda", "(e),y"), ("adc", "e,x"), ("jmp", "e"), ("sta", "[e]")):
        for text, value in LITERALS:
            cs.append(Case(H + "statement_bytes_contract", f"{m} {shp} with e written {text}", shape_literal(m, shp, text, value),
                           target=["a816.parse.parser_states.parse_opcode", "a816.parse.codegen.generate_opcode", N + "OpcodeNode.emit", N + "ExpressionNode.get_value_string_len"], group="literal-spelling",
                           drop_overrides=["a816.parse.ast.expression.eval_expression"], no_contracts=True))
    return cs


def end_to_end_cases(E, tier):
    import zlib
    table = E.lifter.module("a816.cpu.cpu_65c816").snes_opcode_table
    from vf.specs import isa65816
    cs = []
    for m in sorted(table):
        if m in isa65816.BRANCHES:
            continue
        naked = set(table[m]) == {E.lifter.module("a816.cpu.cpu_65c816").AddressingMode.none}
        for shp in SINGLE_TERM_SHAPES:
            if (shp == "implied") != naked and not (shp == "implied" and E.lifter.module("a816.cpu.cpu_65c816").AddressingMode.none in table[m]):
                if shp == "implied" or naked:
                    continue
            for ws in (False, True):
                # quick tier: a deterministic quarter of the cross product (all of it in the thorough tier)
                if tier != "thorough" and zlib.crc32(f"{m}/{shp}/{ws}".encode()) % 4 != 0:
                    continue
                cs.append(Case(H + "statement_bytes_contract", f"{m} {shp}{' with size suffix' if ws else ''}", shape_statement_bytes(m, shp, ws),
                               target=["a816.parse.parser_states.parse_opcode", "a816.parse.codegen.generate_opcode", N + "OpcodeNode.emit"], group="end-to-end",
                               drop_overrides=["a816.parse.ast.expression.eval_expression"]))
    return cs


def cases(E):
    import os
    cs = end_to_end_cases(E, os.environ.get("VERIF_TIER", "quick")) + literal_cases(E)
    # the inferred width is that of the value the operand has WHEN it is asked for (the same source operand is expanded many times with other bindings)
    from vf.props import C02 as c02
    cs += c02.value_node_cases(E)
    from vf.specs import syntax
    for shp in syntax.SHAPES:
        for ws in (False, True):
            cs.append(Case(H + "statement_tokens_contract", f"{shp}{' with size suffix' if ws else ''}", shape_statement(shp, ws),
                           target=["a816.parse.parser_states.parse_opcode", "a816.parse.parser_states.parse_operand_and_addressing", "a816.parse.codegen.generate_opcode"], group="syntax",
                           drop_overrides=["a816.parse.ast.expression.eval_expression"]))
    table = E.lifter.module("a816.cpu.cpu_65c816").snes_opcode_table
    from vf.specs import isa65816
    for m in sorted(table):
        if m in isa65816.BRANCHES:
            continue  # relative branches: C05
        cs.append(Case(H + "table_mnemonic_contract", m, shape_table(m), target=FUNCTIONS, group="table"))
        cs.append(Case(H + "table_mnemonic_nosuffix_contract", m, shape_table(m), target=FUNCTIONS, group="table-nosuffix"))
    for size in ("b", "w", "l"):
        cs.append(Case(H + "emit_value_contract", f"size={size}", shape_opcode([1, 1, 1], size), target=[CPU + "Opcode.emit_value"]))
    cs.append(Case(H + "operand_size_contract", "v>=0", lambda B: (lambda v, res: {"vn": shapes.value_node(B, v, res), "v": v})(B.int("v"), shapes.resolver(B)),
                   target=[N + "ValueNodeProtocol.get_operand_size", CPU + "guess_value_size"]))
    # size agreement at node level on representative live cells (the generic statement is opcode_emit_contract#length_agreement)
    for m, mode, idx in (("lda", "direct", None), ("lda", "direct_indexed", "y"), ("jmp", "direct", None), ("rep", "immediate", None),
                         ("nop", "none", None), ("sta", "indirect_indexed_long", "y"), ("pea", "direct", None)):
        for size in (None, "b", "w", "l"):
            cs.append(Case(H + "opcode_node_size_agreement_contract", f"{m},{mode},{idx},{size}", shape_node(m, mode, idx, size),
                           target=[N + "OpcodeNode.pc_after", N + "OpcodeNode.emit"]))
    for defn in ([1], [1, 1], [1, 1, 1], [None, 1], [None, 1, None], [None, 1, 1], [1, None, None]):
        for size in (None, "", "b", "w", "l"):
            cs.append(Case(H + "opcode_emit_contract", f"def={''.join('x' if c else '-' for c in defn)},size={size!r}", shape_opcode(defn, size),
                           target=[CPU + "Opcode.emit", CPU + "Opcode.supposed_length", CPU + "Opcode.get_opcode_byte"]))
    return cs


OPTIONAL_CHECKS = {"statement_bytes_contract": ["supported_statement_accepted", "only_isa_instructions", "opcode_of_the_denoted_form", "implied_is_one_byte", "operand_le_at_the_width"],
                   "statement_tokens_contract": ["only_malformed_shapes_are_refused_by_the_parser", "whole_statement_consumed", "one_node", "mnemonic_lower_cased", "no_suffix_no_size",
                                                 "suffix_is_the_size", "mode_denotes_the_syntax_form", "no_operand", "operand_value_is_the_written_expression"],
                   "table_mnemonic_contract": ["supported_cell_accepted", "only_isa_instructions", "opcode_byte", "implied_is_one_byte", "operand_le", "label_pass_size_is_emitted_size"],
                   "table_mnemonic_nosuffix_contract": ["supported_cell_accepted_nosuffix", "only_isa_instructions_nosuffix", "opcode_byte_nosuffix", "operand_le_nosuffix", "label_pass_size_is_emitted_size_nosuffix"],
                   "opcode_node_size_agreement_contract": ["size_agreement"],
                   "opcode_emit_contract": ["absent_cell_refused", "refusal_only_for_long_out_of_range", "present_cell", "opcode_then_operand", "length_agreement"],
                   "emit_value_contract": ["refusal_only_for_long_out_of_range"]}


def bounded(tier, seed):
    from vf.framework import native_call
    return native_call("b_C01.py", {"tier": tier, "seed": seed}, timeout=3000)


def mutants():
    from vf.pyvc.mutate import textual
    return [
        Mutant("parse_opcode:index-does-not-change-the-mode (end to end)", "a816.parse.parser_states.parse_opcode", textual("addressing_mode = index_map[addressing_mode]", "pass"), only_harness="statement_bytes", max_cases=200),
        Mutant("parse_operand:inner-index-mode-for-any-register", "a816.parse.parser_states.parse_opcode", textual("if addressing_mode == AddressingMode.dp_or_sr_indirect_indexed and inner_index != 's':", "if False:"), only_harness="statement_tokens"),
        Mutant("parse_operand:brackets-parsed-as-parentheses", "a816.parse.parser_states.parse_operand_and_addressing", textual("addressing_mode = AddressingMode.indirect_long", "addressing_mode = AddressingMode.indirect"), only_harness="statement_tokens"),
        Mutant("generate_opcode:index-dropped", "a816.parse.codegen.generate_opcode", textual("index=node.index, ", ""), only_harness="statement_tokens"),
        Mutant("parse_opcode:size-suffix-ignored", "a816.parse.parser_states.parse_opcode", textual("value_size=size if size is not None and is_value_size(size) else None", "value_size=None"), only_harness="statement_tokens"),
        Mutant("emit_value:word-big-endian", CPU + "Opcode.emit_value", textual("'<H', value & 65535", "'>H', value & 65535"), only_harness="emit_value"),
        Mutant("get_operand_size:<=2 -> <2", N + "ValueNodeProtocol.get_operand_size", textual("value_length <= 2", "value_length < 2"), only_harness="operand_size"),
        Mutant("get_opcode_byte:None-cell-falls-through", CPU + "Opcode.get_opcode_byte", textual("if opcode_byte is None:", "if opcode_byte is None and False:"), only_harness="opcode_emit"),
        Mutant("emit_value:byte-mask-dropped", CPU + "Opcode.emit_value", textual("value & 255", "value"), only_harness="emit_value"),
        Mutant("supposed_length:ignores-suffix", CPU + "Opcode.supposed_length", textual("guess_value_size(value_node, size)", "guess_value_size(value_node, None)"), only_harness="opcode_emit"),
    ]
