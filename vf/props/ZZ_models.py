"""Not a property: lemmas about the engine's models of sequence methods (run by tools/test_models.py and vf/selftest.py ZZ_models)."""
from vf.framework import Case

PROP = "ZZ_models"
LEVEL = "other"
H = "vf.contracts.c_models."
FUNCTIONS = []
MIN_OBLIGATIONS = 1
EXPLANATION = "engine model lemmas"
TRUSTED = []
ASSUMPTIONS = []
ALPHA = " \t;abx\n"


def _text(B, pinned=False):
    import random
    import z3
    t = B.text("text", [("run", "r", ALPHA, 0)])[0]
    B.assume(B.symbols["r"] <= 12)
    if pinned:
        # differential runs: most characters fixed at random, so that the pinned inputs are varied texts (the solver's own choice is monotonous)
        arr = B.symbols["text"]
        for i in range(12):
            if random.random() < 0.85:
                B.assume(z3.Select(arr, i) == ord(random.choice(ALPHA)))
    return t


def _bytes(B, pinned):
    import random
    import z3
    d = B.symseq("data", maxlen=12)
    if pinned:
        for i in range(12):
            if random.random() < 0.85:
                B.assume(z3.Select(B.symbols["data"], i) == random.choice([0, 0, 0xFF, 0xFF, 1, 0x80]))
    return d


def cases(E):
    pinned = [Case(H + "find_lemma", "random texts", lambda B: {"text": _text(B, True), "start": B.int("start", 0, 6)}, target=[]),
              Case(H + "strip_lemma", "random texts", lambda B: {"text": _text(B, True)}, target=[]),
              Case(H + "prefix_lemma", "random texts", lambda B: {"text": _text(B, True)}, target=[]),
              Case(H + "bytes_strip_lemma", "random bytes", lambda B: {"data": _bytes(B, True)}, target=[])]
    return pinned + [Case(H + "find_lemma", "any text over a small alphabet, any start", lambda B: {"text": _text(B), "start": B.int("start", 0, 6)}, target=[]),
            Case(H + "strip_lemma", "any text over a small alphabet", lambda B: {"text": _text(B)}, target=[]),
            Case(H + "prefix_lemma", "any text over a small alphabet", lambda B: {"text": _text(B)}, target=[]),
            Case(H + "bytes_strip_lemma", "any bytes", lambda B: {"data": _bytes(B, False)}, target=[])]
