"""C10 - conditional and loop directives equal the hand-expanded program."""
from vf.framework import Case, Mutant
from vf.props import shapes as S

PROP = "C10"
LEVEL = "other"
H = "vf.contracts.c_codegen."
G = "a816.parse.codegen."
FUNCTIONS = [G + "generate_if", G + "generate_for", G + "_code_gen", G + "generate_label", G + "generate_db", G + "generate_assign"]
MIN_OBLIGATIONS = 40
EXPLANATION = ("generate_if is executed on the real code for every condition value (symbolic integer: zero / non-zero / negative; undefined name), with "
               "and without else, and must return exactly the selected block's statements without opening a scope.  generate_for is executed for "
               "a grid of bounds (empty, single, many; loop unrolled on the real code) with bodies containing labels, a nested .if on the loop "
               "variable and a nested .for bounded by it: iteration order, one loop scope per iteration under the enclosing scope, the variable "
               "bound during expansion, enclosing scope restored.  FOR ARBITRARY BOUNDS AND BODIES (vf/contracts/c_expansion.py): generate_for's loop is cut at an invariant "
               "(enclosing scope current, scope cursor consistent) and its per-iteration contract is proved for the arbitrary value k of the variable in [lo, hi): the body -- an "
               "unknown sub-tree, its expansion replaced by _code_gen's contract -- is expanded exactly once, in a fresh loop scope under the enclosing scope, with the variable "
               "bound to k while it is expanded; range() gives the iteration values lo..hi-1 in order and none when hi <= lo.  generate_if on unknown sub-trees expands exactly "
               "the selected block once, in the enclosing scope.  Equality with the hand-expanded program is the bounded twin comparison."
               "  Also proved: compound conditions mentioning an undefined name are false as a whole (real eval_expression), `:=` in a loop body binds in the iteration's scope, iteration scopes are fresh objects, names are found through scopes that hold nothing.")
TRUSTED = ["the real eval_expression is used on one-term expressions (proved in C06)"]
ASSUMPTIONS = ["the concrete-shape cases unroll the loop for bounds from a grid 0..4; the loop-contract case covers arbitrary bounds (range() semantics: k takes lo..hi-1 in order -- "
               "built into the loop cut, not re-proved) with _code_gen replaced by its contract (proved in C08's expansion cases)",
               "bodies are label / data statements, nested .if and nested .for (statement kinds are handled by _code_gen's dispatch, proved per generator elsewhere)",
               "composition to 'equals the unrolled / selected program' is argued in DESIGN.md and cross-checked by bounded twins through the real pipeline"]


def shape_if(defined, with_else):
    def sh(B):
        res = S.resolver(B)
        v = B.int("v")
        if defined:
            S.root_symbols(B, res, {"c": v})
        node = S.ast_if(B, S.expr_ident(B, "c"), [S.ast_label(B, "t1"), S.ast_label(B, "t2")], [S.ast_label(B, "e1")] if with_else else None)
        return {"node": node, "resolver": res, "tok": S.tok(B, "KEYWORD", "if"), "v": v, "defined": defined, "then_names": B.list(["t1", "t2"]),
                "else_names": B.list(["e1"] if with_else else [])}
    return sh


def shape_if_compound_undefined(left, op, right, with_else):
    """a condition with more than one term, one of them an undefined name `u` (`d` is defined, any value): false as a whole, whatever the rest would evaluate to"""
    def sh(B):
        res = S.resolver(B)
        v = B.int("v")
        S.root_symbols(B, res, {"d": v})
        node = S.ast_if(B, S.expr_binop(B, left, op, right), [S.ast_label(B, "t1"), S.ast_label(B, "t2")], [S.ast_label(B, "e1")] if with_else else None)
        return {"node": node, "resolver": res, "tok": S.tok(B, "KEYWORD", "if"), "v": v, "defined": False, "then_names": B.list(["t1", "t2"]),
                "else_names": B.list(["e1"] if with_else else [])}
    return sh


def shape_unselected_definitions(how):
    def sh(B):
        res = S.resolver(B)
        v = B.int("v")
        S.root_symbols(B, res, {"c": v})
        put = lambda val: S.ast_macro(B, "put", [], [S.ast_data(B, "db", [S.expr_num(B, val)])])
        if how == "if":
            guarded = S.ast_if(B, S.expr_ident(B, "c"), [put(0x22)], None)
        elif how == "else":
            guarded = S.ast_if(B, S.expr_ident(B, "c"), [S.ast_label(B, "x")], [put(0x22)])
        else:  # a loop that runs 0 times (for0) or twice (for2)
            n = int(how[3:])
            guarded = S.ast_for(B, "k", S.expr_num(B, 0), S.expr_num(B, n), [put(0x22)])
            B.assume(v == n)
        ast = [put(0x11), guarded, S.ast_apply(B, "put", [])]
        sel, dflt = (0x11, 0x22) if how == "else" else (0x22, 0x11)
        return {"ast": B.list(ast), "resolver": res, "v": v, "selected_value": sel, "default_value": dflt}
    return sh


def for_body(B):
    # l:  .if i { nz: } else { z: }   .for j := 0, i { inner: }
    return [S.ast_label(B, "l"), S.ast_if(B, S.expr_ident(B, "i"), [S.ast_label(B, "nz")], [S.ast_label(B, "z")]),
            S.ast_for(B, "j", S.expr_num(B, 0), S.expr_ident(B, "i"), [S.ast_label(B, "inner")])]


def expected_for(a, b):
    names = []
    for k in range(a, b):
        names += ["l", "nz" if k != 0 else "z"] + ["inner"] * max(0, k)
    return names


def shape_for(a, b, bounds_from_symbols):
    def sh(B):
        res = S.resolver(B)
        if bounds_from_symbols:
            S.root_symbols(B, res, {"lo": a, "hi": b})
            lo, hi = S.expr_ident(B, "lo"), S.expr_ident(B, "hi")
        else:
            lo, hi = S.expr_num(B, a), S.expr_num(B, b)
        node = S.ast_for(B, "i", lo, hi, for_body(B))
        return {"node": node, "resolver": res, "tok": S.tok(B, "KEYWORD", "for"), "a": a, "b": b, "expected_names": B.list(expected_for(a, b))}
    return sh


def cases(E):
    cs = []
    for defined in (True, False):
        for with_else in (True, False):
            cs.append(Case(H + "generate_if_contract", f"condition {'symbolic value' if defined else 'undefined name'}, else={with_else}", shape_if(defined, with_else),
                           target=[G + "generate_if"]))
    for left, op, right in ((("id", "u"), "+", ("num", 1)), (("num", 1), "-", ("id", "u")), (("id", "d"), "+", ("id", "u")), (("id", "u"), "|", ("id", "d")), (("num", 1), "<<", ("id", "u"))):
        for with_else in (True, False):
            cs.append(Case(H + "generate_if_contract", f"condition {left[1]} {op} {right[1]} with u undefined, else={with_else}", shape_if_compound_undefined(left, op, right, with_else),
                           target=[G + "generate_if"]))
    for a, b in ((0, 0), (0, 1), (0, 3), (1, 4), (2, 2), (3, 1), (0, 4)):
        for sym in (False, True):
            cs.append(Case(H + "generate_for_contract", f"{a}..{b}{' (bounds from symbols)' if sym else ''}", shape_for(a, b, sym), target=[G + "generate_for"]))
    for how in ("if", "else", "for0", "for2"):
        cs.append(Case(H + "unselected_definitions_contract", f"a .macro redefinition inside {'the else block' if how == 'else' else 'an .if block' if how == 'if' else 'a loop running ' + how[3:] + ' times'}",
                       shape_unselected_definitions(how), target=[G + "code_gen", G + "generate_macro", G + "generate_if", G + "generate_for"]))
    from vf.props import expansion
    cs += expansion.c10_cases(E)
    # "each iteration in its own scope": what the body assigns with `:=` is bound in the iteration's scope, not in the scope the loop was written in
    from vf.props import C08 as c08
    cs += c08.assign_frame_cases(E)
    # every block / named scope / application / iteration gets a scope object of its own (never an earlier sibling's)
    from vf.props import C08 as _c08
    cs += _c08.scope_creation_cases(E)
    # conditions and bounds read names defined any number of scopes further out, through scopes that define nothing themselves
    cs += _c08.chain_cases(E)
    # ... and a loop body may splice a code-block parameter of the macro it sits in (`.macro rep(n, code) { .for i := 0, n { {{ code }} } }`): the block
    # is found from a scope nested in the application's scope (C09's contract)
    from vf.props import C09 as _c09
    cs += [c for c in _c09.own_cases(E) if "code_block_argument_contract" in c.harness]
    # a named scope in a loop body exports its names to the ITERATION's scope (each iteration has its own `name.label`), as the unrolled blocks would
    from vf.props import C02 as _c02
    for kind, ex in (("named-in-loop", True), ("named", True)):
        cs.append(Case("vf.contracts.c_labels.restore_scope_export_contract", f"{kind},exports={ex}", _c02.shape_export(kind, ex), target=["a816.symbols.Resolver.restore_scope"]))
    return cs


OPTIONAL_CHECKS = {"restore_scope_export_contract": ["exported_same_value", "only_exports_added", "nothing_exported", "parent_symbols_kept"],
                   "generate_if_selection_contract": ["nonzero_expands_the_first_block_once", "zero_or_undefined_expands_the_else_block_once", "nothing_expanded_without_else", "expanded_in_the_enclosing_scope"],
                   "generator_contract": ["enclosing_scope_current_again", "scope_cursor_consistent", "scopes_only_appended", "returns_a_list"],
                   "generate_if_contract": ["undefined_counts_as_false", "nonzero_selects_first_block", "zero_selects_else_block"],
                   "generate_for_contract": ["iteration_scope_is_loop_scope", "loop_variable_bound_in_iteration_scope", "iteration_brackets"]}


def bounded(tier, seed):
    from vf.framework import native_call
    return native_call("b_C10.py", {"tier": tier, "seed": seed}, timeout=3000)


QUICK_MUTANTS = 8


def mutants():
    from vf.pyvc.mutate import textual
    return [
        Mutant("generate_for:variable-bound-after-expansion (loop contract)", G + "generate_for", textual("        resolver.current_scope.add_symbol(node.symbol, k)\n        code += _code_gen(node.body.body, resolver, macro_definitions)", "        code += _code_gen(node.body.body, resolver, macro_definitions)\n        resolver.current_scope.add_symbol(node.symbol, k)"), only_harness="generator_contract"),
        Mutant("generate_for:body-expanded-twice (loop contract)", G + "generate_for", textual("        code += _code_gen(node.body.body, resolver, macro_definitions)", "        code += _code_gen(node.body.body, resolver, macro_definitions)\n        code += _code_gen(node.body.body, resolver, macro_definitions)"), only_harness="generator_contract"),
        Mutant("generate_if:undefined-drops-else (arbitrary sub-trees)", G + "generate_if", textual("condition = False", "return code"), only_harness="generate_if_selection"),
        Mutant("generate_if:negative-is-false", G + "generate_if", textual("if condition:", "if condition > 0:"), only_harness="generate_if"),
        Mutant("generate_if:undefined-drops-else", G + "generate_if", textual("condition = False", "return code"), only_harness="generate_if"),
        Mutant("generate_for:inclusive-upper-bound", G + "generate_for", textual("range(from_val, to_val)", "range(from_val, to_val + 1)"), only_harness="generate_for"),
        Mutant("generate_for:shared-scope", G + "generate_for", textual("resolver.append_internal_scope()", "resolver.append_internal_scope() if k == from_val else None"), only_harness="generate_for"),
    ]
