"""C13 - including an IPS patch reproduces that patch's effect, shifted by delta."""
from vf.framework import Case, Mutant
from vf.props import shapes

PROP = "C13"
LEVEL = "other"
H = "vf.contracts.c_ips_include."
N = "a816.parse.nodes.IncludeIpsNode."
FUNCTIONS = [N + "__init__", N + "emit", N + "pc_after"]
MIN_OBLIGATIONS = 20
EXPLANATION = ("IncludeIpsNode.__init__ is run on a symbolic file (symbolic length and content) under the documented file-object contracts: "
               "missing header rejected; exact whole-file postconditions for 0/1 record files of either kind with the loop unrolled; and a loop "
               "contract for any number of records (per-iteration: one record consumed and appended with offset + delta, RLE expanded; end marker "
               "detected whenever present; truncated files cannot leave the loop normally; variant).  Program.emit's re-emission order is C03.")
TRUSTED = ["IPS format definition as written in the harness (PATCH, 3-byte BE offset, 2-byte BE size, size 0 = RLE with 2-byte run + value, EOF)"]
ASSUMPTIONS = ["file objects: read(n) returns min(n, remaining) bytes; peek(n) returns a non-empty prefix of UNSPECIFIED length of what remains "
               "(documented BufferedReader contract)", "eval_expression modelled (delta); verified in C06", "struct.unpack model",
               "bounded: generated patches through the real pipeline and real buffered files, incl. lengths that place EOF across the 8 KiB buffer edge"]


def _open_hook(I, args, kwargs, st, node):
    fn, mod, cls = I.index.functions["vf.specs.stubs.open_model"]
    return I.call_function(fn, mod, cls, list(args), dict(kwargs), st, "vf.specs.stubs.open_model")


OPEN = {"a816.parse.nodes.open": "vf.specs.stubs.open_model"}


def _havoc(I, st):
    f = st.env["ips_file"]
    fo = I.hmut(st, f)
    fo.fields["pos"] = I.fresh_int("pos")
    node = st.env["self"]
    blocks = I.hget(st, node).fields["blocks"]
    I.hmut(st, blocks).items = []
    g = I.hmut(st, st.env["g"])
    g.items["pos_pre"] = fo.fields["pos"]


def _ghost(I, st):
    return {"delta": st.ghost.get("delta", 0)}


def _modifies(I, st):
    f = st.env["ips_file"]
    node = st.env["self"]
    return {f.oid, I.hget(st, node).fields["blocks"].oid}


def setup_engine(E):
    from vf.pyvc.loops import LoopSpec
    shapes.use_eval_model(E)
    E.I.open_hook = _open_hook
    E.I.loop_specs[(N + "__init__", 0)] = LoopSpec("IncludeIpsNode.__init__#records", H + "include_ips_loop_inv", variant=H + "include_ips_loop_variant",
                                                   havoc=_havoc, modifies=_modifies, ghost=_ghost, step=H + "include_ips_loop_step")


def shape(with_delta):
    def sh(B):
        res = shapes.resolver(B)
        delta = B.int("delta") if with_delta else 0
        return {"path": "patch.ips", "resolver": res, "delta_expr": shapes.expression(B, delta) if with_delta else None, "delta": delta,
                "content": B.symseq("content")}
    return sh


def shape_twice(B):
    from vf.props import shapes as S
    res = shapes.resolver(B)
    d1, d2 = B.int("d1"), B.int("d2")
    S.root_symbols(B, res, {"k": d1})
    content = b"PATCH" + bytes([0x00, 0x12, 0x34, 0x00, 0x02, 0xAA, 0xBB]) + b"EOF"
    node = B.inst("a816.parse.ast.nodes.IncludeIpsAstNode", kind="include_ips", file_info=S.tok(B, "KEYWORD", "include_ips"), file_path="patch.ips", expression=S.expr_ident(B, "k"))
    return {"node": node, "resolver": res, "tok": S.tok(B, "KEYWORD", "include_ips"), "path": "patch.ips", "content": content, "offset": 0x1234, "d1": d1, "d2": d2}


def shape_node(B):
    res = shapes.resolver(B)
    node = B.inst("a816.parse.nodes.IncludeIpsNode", ips_file_path="p.ips", delta=B.int("delta"), blocks=B.list([]))
    return {"node": node, "addr": shapes.lorom_address(B)}


def cases(E):
    cs = [Case(H + "include_ips_header_contract", "any content without PATCH", lambda B: {"path": "p.ips", "resolver": shapes.resolver(B), "content": B.symseq("content")},
               target=[N + "__init__"], overrides=OPEN)]
    for wd in (False, True):
        cs.append(Case(H + "include_ips_exact_contract", f"0/1 record, delta={'symbolic' if wd else 'absent'}", shape(wd), target=[N + "__init__"], no_loop_specs=True, overrides=OPEN))
        cs.append(Case(H + "include_ips_any_contract", f"any records, delta={'symbolic' if wd else 'absent'}", shape(wd), target=[N + "__init__"], overrides=OPEN))
    cs.append(Case(H + "include_ips_neutral_contract", "any", shape_node, target=[N + "emit", N + "pc_after"]))
    cs.append(Case(H + "include_ips_per_expansion_contract", "the same directive expanded twice with different deltas", shape_twice, target=["a816.parse.codegen.generate_include_ips", N + "__init__"],
                   no_loop_specs=True, overrides=OPEN, drop_overrides=["a816.parse.ast.expression.eval_expression"]))
    # re-emission: Program.emit hands every record of the node to the writer, in order (C03's loop contract for the IncludeIpsNode branch)
    from vf.props import C03 as c03
    cs += c03.include_ips_emit_cases(E)
    return cs


OPTIONAL_CHECKS = {"include_ips_exact_contract": ["no_records", "one_record", "offset_plus_delta", "rle_expanded", "plain_record_bytes", "delta_kept"]}


def bounded(tier, seed):
    from vf.framework import native_call
    return native_call("b_C13.py", {"tier": tier, "seed": seed}, timeout=3000)


def mutants():
    from vf.pyvc.mutate import textual
    return [
        Mutant("__init__:delta-subtracted", N + "__init__", textual("block_addr += self.delta", "block_addr -= self.delta")),
        Mutant("__init__:offset-low-bytes-swapped", N + "__init__", textual("'>BH'", "'>HB'")),
        Mutant("__init__:header-not-checked", N + "__init__", textual("!= b'PATCH'", "== b'NOPE!'")),
    ]
