"""C04 - bus laws: contracts on a816/cpu/mapping.py and the live built-in buses of a816/symbols.py."""
import z3

from vf.framework import Case, Mutant

PROP = "C04"
LEVEL = "proof"
H = "vf.contracts.c_mapping."
FUNCTIONS = [
    "a816.cpu.mapping.Mapping.physical_address", "a816.cpu.mapping.Mapping.logical_address", "a816.cpu.mapping.Address.__add__",
    "a816.cpu.mapping.Address.__init__", "a816.cpu.mapping.Address._get_bank", "a816.cpu.mapping.Address._get_mapping",
    "a816.cpu.mapping.Address.physical", "a816.cpu.mapping.Address.writable", "a816.cpu.mapping.Bus.get_mapping_for_bank",
    "a816.cpu.mapping.Bus.get_address",
]
MIN_OBLIGATIONS = 40
EXPLANATION = ("Contract harnesses in vf/contracts/c_mapping.py call the real functions of a816/cpu/mapping.py on symbolic inputs "
               "(all 2^24 addresses, all increments, all bank ranges, both window sizes, arbitrary bus views with two generic entries); "
               "every check() is a VC discharged by z3 over unbounded integers.")
TRUSTED = ["vf/specs/busmath.py (textbook LoROM/HiROM formulas and the generic range formula, written from the statement)"]
ASSUMPTIONS = [
    "a bus view is modelled by a symbolic bank->entry map with two generic Mapping entries plus 'unmapped' (the laws mention at most the "
    "entry of the start bank and whatever the target bank resolves to)",
    "`.map` identifiers are distinct and do not end in _mirror (otherwise lookup entries go stale); taken from the code",
    "below the bank window the statement assigns no offset; the code's folding is pinned separately as 'from code'",
]



def S_addr_range(B):
    """the address window a `.map` declares (any 0 <= lo <= hi <= 0xFFFF; e.g. 0x8000-0xFFFF for the upper halves of banks 00-3F of a HiROM map): the
    offset law does not depend on it -- the position inside the bank is the address modulo the bank size"""
    import z3 as _z3
    k = getattr(B, "_addr_ranges", 0)
    B._addr_ranges = k + 1
    lo, hi = B.int(f"addr_lo{k}"), B.int(f"addr_hi{k}")
    B.assume(_z3.And(0 <= lo, lo <= hi, hi <= 0xFFFF))
    return (lo, hi)

def shape_mapping(mask, writable):
    def shape(B):
        lo = B.int("lo")
        hi = B.int("hi")
        m = B.inst("a816.cpu.mapping.Mapping", bank_range=(lo, hi), mirror=None, address_range=S_addr_range(B), mask=mask, writable=writable)
        return {"m": m, "value": B.int("value"), "p": B.int("p")}
    return shape


def shape_bus(mask, writable, mask2=0x10000, writable2=True):
    """Generic bus: bank -> {A: m, B: m2, absent}; `a` is an Address whose bank resolves to entry A."""
    def shape(B):
        lo, hi = B.int("lo"), B.int("hi")
        lo2, hi2 = B.int("lo2"), B.int("hi2")
        m = B.inst("a816.cpu.mapping.Mapping", bank_range=(lo, hi), mirror=None, address_range=S_addr_range(B), mask=mask, writable=writable)
        m2 = B.inst("a816.cpu.mapping.Mapping", bank_range=(lo2, hi2), mirror=None, address_range=S_addr_range(B), mask=mask2, writable=writable2)
        lookup = B.symmap("lookup", {1: "A", 2: "B"})
        bus = B.inst("a816.cpu.mapping.Bus", name=None, lookup=lookup, inverse_lookup=B.dict({}), mappings=B.dict({"A": m, "B": m2}),
                     editable=True, internal_id=0)
        v = B.int("v")
        a = B.inst("a816.cpu.mapping.Address", bus=bus, logical_value=v, mapping=m)
        return {"bus": bus, "a": a, "n": B.int("n"), "m_": B.int("m_"), "v": v}
    return shape


def shape_bus_map(identifier, mask, writeable, with_mirror, editable=True):
    def shape(B):
        lo2, hi2 = B.int("lo2"), B.int("hi2")
        m = B.inst("a816.cpu.mapping.Mapping", bank_range=(B.int("lo1"), B.int("hi1")), mirror=None, address_range=S_addr_range(B), mask=0x8000, writable=False)
        m2 = B.inst("a816.cpu.mapping.Mapping", bank_range=(lo2, hi2), mirror=None, address_range=S_addr_range(B), mask=0x10000, writable=True)
        # existing entries: A (with its mirror), B, and A2 -- an identifier that merely STARTS like A (identifiers are numbers in sources: 1 and 12)
        lookup = B.symmap("lookup", {1: "A", 2: "A_mirror", 3: "B", 4: "A2"})
        bus = B.inst("a816.cpu.mapping.Bus", name=None, lookup=lookup, inverse_lookup=B.dict({}),
                     mappings=B.dict({"A": m, "A_mirror": m, "B": m2, "A2": m2}), editable=editable, internal_id=0)
        return {"bus": bus, "identifier": identifier, "bank_range": (B.int("lo"), B.int("hi")), "mask": mask, "writeable": writeable,
                "mirror": (B.int("mlo"), B.int("mhi")) if with_mirror else None, "b": B.int("b")}
    return shape


def shape_builtin(attr):
    def shape(B):
        return {"bus": B.glob("a816.symbols", attr), "v": B.int("v")}
    return shape


def _bus_map_ghost(I, st):
    from vf.pyvc.values import HSymMap
    bus = st.env["self"]
    lk = I.hget(st, bus).fields["lookup"]
    o = I.hget(st, lk)
    snap = I.alloc(st, HSymMap(o.arr, o.values))
    return {"b": st.ghost["b"], "lookup0": snap} if "lookup0" not in st.ghost else {"b": st.ghost["b"], "lookup0": st.ghost["lookup0"]}


def _bus_map_ghost0(I, st):
    g = _bus_map_ghost(I, st)
    st.ghost["lookup0"] = g["lookup0"]
    return g


def _bus_map_havoc(which):
    def havoc(I, st):
        bus = st.env["self"]
        lk = I.hget(st, bus).fields["lookup"]
        m = I.hmut(st, lk)
        vals = dict(m.values)
        for name in ("identifier", "mirror_identifier"):
            ident = st.env.get(name)
            if ident is not None and ident not in vals.values():
                vals[max(vals, default=0) + 1] = ident
        m.values = vals
        m.arr = I.fresh_arr("lookup")
    return havoc


def _bus_map_modifies(I, st):
    bus = st.env["self"]
    return {I.hget(st, bus).fields["lookup"].oid}


def bus_map_loop_specs():
    from vf.pyvc.loops import LoopSpec
    q = "a816.cpu.mapping.Bus.map"
    return {(q, 0): LoopSpec("Bus.map#primary", H + "bus_map_loop0_inv", havoc=_bus_map_havoc(0), modifies=_bus_map_modifies, ghost=_bus_map_ghost0),
            (q, 1): LoopSpec("Bus.map#mirror", H + "bus_map_loop1_inv", havoc=_bus_map_havoc(1), modifies=_bus_map_modifies, ghost=_bus_map_ghost)}


def setup_engine(E):
    E.I.loop_specs.update(bus_map_loop_specs())
    # modular use: callers of Address.__add__ see its functional contract (established by address_add_refines_spec_contract)
    E.I.contracts["a816.cpu.mapping.Address.__add__"] = "vf.specs.busmodel.address_add_spec"


def shape_parse_map(style):
    def sh(B):
        f = {"hex": lambda v: f"{v:#x}", "dec": str, "bin": lambda v: f"{v:#b}"}[style]
        vals = {"identifier": 7, "bank_range": (0x10, 0x2f), "addr_range": (0x8000, 0xffff), "mask": 0x8000, "writable": 1, "mirror_bank_range": (0x90, 0xaf)}
        items = []
        for k, v in vals.items():
            items += [("IDENTIFIER", k), ("EQUAL", "=")]
            if isinstance(v, tuple):
                items += [("NUMBER", f(v[0])), ("COMMA", ","), ("NUMBER", f(v[1]))]
            else:
                items += [("NUMBER", f(v))]
        items.append(("EOF", ""))
        toks = [B.inst("a816.parse.tokens.Token", type=B.enum("a816.parse.tokens.TokenType", tt), value=v, position=None) for tt, v in items]
        p = B.inst("a816.parse.parser.Parser", tokens=B.list(toks), pos=0, initial_state=None)
        return {"p": p, "expected": B.dict(vals)}
    return sh


def live_bus_cases(E):
    return [Case(H + "lorom_bus_contract", "live low_rom_bus", shape_builtin("low_rom_bus")), Case(H + "hirom_bus_contract", "live high_rom_bus", shape_builtin("high_rom_bus"))]


def address_contract_cases(E):
    """the obligations that ESTABLISH the contract of Address.__add__ / the offset formula and its inverse -- properties that use that contract modularly
    (C02, C03) run them too, so that each check is self-contained"""
    cs = []
    for mask in (0x8000, 0x10000):
        for wr in (False, True):
            lab = f"window={mask:#x},{'RAM' if wr else 'ROM'}"
            cs.append(Case(H + "physical_address_contract", lab, shape_mapping(mask, wr), target=["a816.cpu.mapping.Mapping.physical_address"]))
        for wr in (0, 1, False, True):
            # a `.map` directive hands over the NUMBER it parsed (`writable=1` / `writable=0`), the built-in buses pass booleans: through the constructor
            cs.append(Case(H + "mapping_from_directive_contract", f"window={mask:#x}, writable given as {wr!r}",
                           lambda B, mask=mask, wr=wr: {"lo": B.int("lo"), "hi": B.int("hi"), "mask": mask, "writable": wr, "value": B.int("value")},
                           target=["a816.cpu.mapping.Mapping.__init__", "a816.cpu.mapping.Mapping.physical_address"]))
        lab = f"window={mask:#x},ROM"
        cs.append(Case(H + "logical_address_contract", lab, shape_mapping(mask, False), target=["a816.cpu.mapping.Mapping.logical_address"]))
        for mask2, wr2 in ((0x8000, False), (0x10000, True)):
            lab2 = f"window={mask:#x},ROM,other=({mask2:#x},{'RAM' if wr2 else 'ROM'})"
            cs.append(Case(H + "address_add_contract", lab2, shape_bus(mask, False, mask2, wr2), target=["a816.cpu.mapping.Address.__add__"]))
            cs.append(Case(H + "add_laws_contract", lab2, shape_bus(mask, False, mask2, wr2)))
            cs.append(Case(H + "address_add_refines_spec_contract", lab2, shape_bus(mask, False, mask2, wr2), target=["a816.cpu.mapping.Address.__add__"]))
        cs.append(Case(H + "address_add_leaves_range_contract", lab, shape_bus(mask, False), target=["a816.cpu.mapping.Address.__add__"]))
        cs.append(Case(H + "get_address_contract", lab, shape_bus(mask, False), target=["a816.cpu.mapping.Bus.get_address"]))
    cs.append(Case(H + "physical_address_out_of_window_contract", "window=0x8000,ROM", shape_mapping(0x8000, False)))
    cs.append(Case(H + "address_add_contract", "RAM", shape_bus(0x10000, True, 0x8000, False), target=["a816.cpu.mapping.Address.__add__"]))
    cs.append(Case(H + "address_add_refines_spec_contract", "RAM", shape_bus(0x10000, True, 0x8000, False), target=["a816.cpu.mapping.Address.__add__"]))
    cs.append(Case(H + "address_add_non_int_contract", "any", shape_bus(0x8000, False)))
    cs.append(Case(H + "get_address_contract", "RAM", shape_bus(0x10000, True), target=["a816.cpu.mapping.Bus.get_address"]))
    return cs


def bus_map_cases(E):
    """how a user `.map` becomes part of the active mapping (primary entry and mirror entry with the same window, size and ROM/RAM status)"""
    cs = []
    L = bus_map_loop_specs()
    for ident in ("X", "A"):
        for with_mirror in (False, True):
            for mask, wr in ((0x8000, False), (0x10000, True)):
                cs.append(Case(H + "bus_map_contract", f"id={ident},mirror={with_mirror},window={mask:#x},{'RAM' if wr else 'ROM'}",
                               shape_bus_map(ident, mask, wr, with_mirror), target=["a816.cpu.mapping.Bus.map"], loop_specs=L))
    cs.append(Case(H + "bus_map_contract", "frozen", shape_bus_map("X", 0x8000, False, True, editable=False), target=["a816.cpu.mapping.Bus.map"], loop_specs=L))
    return cs


def cases(E):
    cs = address_contract_cases(E)
    cs += bus_map_cases(E)
    cs += live_bus_cases(E)
    for style in ("hex", "dec", "bin"):
        cs.append(Case(H + "parse_map_literals_contract", f"numbers written in {style}", shape_parse_map(style), target=["a816.parse.parser_states.parse_map"]))
    for attr in ("low_rom_bus", "high_rom_bus"):
        cs.append(Case(H + "beyond_bus_contract", f"live {attr}", shape_builtin(attr), target=["a816.cpu.mapping.Address._get_bank", "a816.cpu.mapping.Address._get_mapping"]))
    # the consumer of the translation: `*=` sets the output offset to the translated file offset (offset 0 included), on every bus kind
    from vf.props import C03 as c03
    cs += c03.set_position_cases(E)
    return cs


OPTIONAL_CHECKS = {"set_position_contract": ["unmapped_rejected", "unmapped_changes_nothing", "mapped", "run_address_is_target", "rom_offset_set", "rom_pc_is_physical", "ram_offset_unchanged"]}


QUICK_MUTANTS = 3


def bounded(tier, seed):
    from vf.framework import native_call
    return native_call("b_C04.py", {"tier": tier, "seed": seed})


def mutants():
    from vf.pyvc.mutate import textual
    M = "a816.cpu.mapping."
    return [
        Mutant("logical_address:(value+1)//mask", M + "Mapping.logical_address", textual("value // self.mask", "(value + 1) // self.mask"), only_harness="logical_address"),
        Mutant("physical_address:window-bit-kept", M + "Mapping.physical_address", textual("value & ~self.mask & 65535", "value & 65535"), only_harness="physical_address"),
        Mutant("Bus.map:range(lo,hi)", M + "Bus.map", textual("bank_range[1] + 1", "bank_range[1]"), only_harness="bus_map"),
        Mutant("Bus.map:mirror-entry-with-primary-range", M + "Bus.map", textual("Mapping(mirror_bank_range,", "Mapping(bank_range,"), only_harness="bus_map"),
        Mutant("__add__:off-by-one", M + "Address.__add__", textual("physical_address + other", "physical_address + other + 1"), only_harness="address_add_contract"),
        Mutant("Bus.map:frozen-guard-dropped", M + "Bus.map", textual("self.editable is not True", "self.editable is None"), only_harness="bus_map"),
        Mutant("Bus.map:mirror-loop-writes-primary-id", M + "Bus.map", textual("self.lookup[bank] = mirror_identifier", "self.lookup[bank] = identifier"), only_harness="bus_map"),
        Mutant("physical_address:bank-not-rebased", M + "Mapping.physical_address", textual("bank - self.bank_range[0]", "bank"), only_harness="physical_address"),
        Mutant("__add__:ram-uses-physical-branch", M + "Address.__add__", textual("self.logical_value + other", "self.logical_value + other + 0 * 1 + (other > 65535)"), only_harness="address_add_contract"),
    ]
