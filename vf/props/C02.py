"""C02 - every label equals the address where the next byte is really emitted."""
import z3

from vf.framework import Case, Mutant
from vf.props import shapes
from vf.props import C03 as c03

PROP = "C02"
LEVEL = "other"
H = "vf.contracts.c_labels."
P = "a816.program.Program."
N = "a816.parse.nodes."
FUNCTIONS = [P + "resolve_labels", P + "emit", P + "resolver_reset", N + "LabelNode.pc_after", N + "LabelNode.emit", "a816.symbols.Resolver.restore_scope",
             "a816.symbols.Scope.add_label", "a816.symbols.Scope.add_symbol"]
MIN_OBLIGATIONS = 20
EXPLANATION = ("Phase agreement: the real resolve_labels + emit are executed on [*=, X, label, marker] where X is ANY node, including one whose "
               "predicted size differs from what it emits (protocol model of width inference from a symbol that changes between passes): the label "
               "equals the run address of the next emitted byte or the assembly fails -- for every start address on the live buses, every size pair. "
               "Size agreement within one environment is proved per node class (C01: every mnemonic x mode x index x width cell of the live table, "
               "`label_pass_size_is_emitted_size`; C05 branches; C07 data and binary nodes; C18 text nodes); label "
               "definition and named-scope export are under contract.  Whole programs (nesting, macros, loops, moves, bank crossings) are the bounded part."
               "  Also: every append_scope / append_internal_scope / append_named_scope creates a FRESH scope object with its own containers (labels of same-named sibling scopes never merge), and a value node re-evaluates its expression at every get_value() (the label pass's early width guess does not stick to emission).")
TRUSTED = ["vf/specs/progmodel.py (TwoPhaseNode / MarkerNode protocol models)"]
ASSUMPTIONS = ["the phase-agreement obligation is stated on a 4-node program shape with an arbitrary node X; that it extends to arbitrary node lists is the "
               "loop argument of C03 (same invariant) -- argued, not machine-checked here",
               "Address.__add__ through its contract (C04)", "eval_expression modelled; verified in C06",
               "bounded: generated programs vs the reference model's label values (refasm), incl. names re-used in inner scopes"]


def setup_engine(E):
    shapes.use_eval_model(E)
    shapes.use_address_add_contract(E)


def shape_phase(bus_case):
    def sh(B):
        rbus, active, mappings, rom_type = c03.make_bus(B, bus_case)
        res = shapes.resolver(B, rom_type=rom_type, bus=rbus, pc=0)
        m0 = mappings[bus_case[1]]
        B.I.hmut(B.st, res).fields["reloc_address"] = c03.fresh_address(B.I, B.st, active, m0, "ra_entry")
        prog = B.inst("a816.program.Program", resolver=res, logger=None, dump_symbols=False, parser=None, label_pass_addresses=B.list([]))
        start = B.int("start", 0, 0xFFFFFF)
        star = B.inst(N + "CodePositionNode", value_node=shapes.value_node(B, start, res), resolver=res)
        return {"program": prog, "star_node": star, "start": start, "size1": B.int("size1"), "data": B.symseq("data"), "label_name": "end"}
    return sh


def shape_label(B):
    # `here:` written in a block nested in a named scope that has its own `here`, nested in the top-level scope that has one too
    res = shapes.resolver(B)
    top = B.I.hget(B.st, res).fields["current_scope"]
    B.I.hmut(B.st, B.I.hget(B.st, top).fields["symbols"]).items["here"] = B.int("top_here")
    named = shapes.scope(B, res, top, symbols={"here": B.int("named_here")}, cls="a816.symbols.NamedScope", name="s")
    B.I.hmut(B.st, B.I.hget(B.st, named).fields["labels"]).items["here"] = B.I.hget(B.st, B.I.hget(B.st, named).fields["symbols"]).items["here"]
    block = shapes.scope(B, res, named)
    lst = B.I.hmut(B.st, B.I.hget(B.st, res).fields["scopes"])
    lst.items.append(named)
    lst.items.append(block)
    B.I.hmut(B.st, res).fields["current_scope"] = block
    node = B.inst(N + "LabelNode", symbol_name="here", resolver=res)
    return {"node": node, "addr": shapes.lorom_address(B)}


def shape_export(kind, exports):
    def sh(B):
        res = shapes.resolver(B)
        top = B.I.hget(B.st, res).fields["current_scope"]
        root = shapes.scope(B, res, top, symbols={"outer": B.int("outer"), "s.old": B.int("old")},  # the enclosing scope is NOT the top level
                            cls="a816.symbols.InternalScope" if kind == "named-in-loop" else "a816.symbols.Scope")
        if kind == "named-in-loop":
            kind_ = "named"
        else:
            kind_ = kind
        B.I.hmut(B.st, B.I.hget(B.st, res).fields["scopes"]).items.append(root)
        if kind_ == "named":
            sc = shapes.scope(B, res, root, symbols={"a": B.int("va"), "b": B.int("vb")}, cls="a816.symbols.NamedScope", name="s")
        else:
            sc = shapes.scope(B, res, root, symbols={"a": B.int("va")}, cls="a816.symbols.Scope" if kind == "anon" else "a816.symbols.InternalScope", name="s")
        B.I.hmut(B.st, res).fields["current_scope"] = sc
        B.I.hmut(B.st, B.I.hget(B.st, res).fields["scopes"]).items.append(sc)
        return {"resolver": res, "named": sc, "exports": exports if kind_ == "named" else False}
    return sh


def shape_reevaluates(B):
    from vf.props import shapes as S
    res = S.resolver(B)
    root = B.I.hget(B.st, res).fields["current_scope"]
    inner = S.scope(B, res, root, symbols={"e": B.int("v_inner")})
    B.I.hmut(B.st, B.I.hget(B.st, res).fields["scopes"]).items.append(inner)
    return {"expression": S.expr_ident(B, "e"), "resolver": res, "tok": S.tok(B, "IDENTIFIER", "e"), "v1": B.int("v1"), "v2": B.int("v2")}


def value_node_cases(E):
    return [Case(H + "expression_node_reevaluates_contract", "`e` rebound between two calls, then read from an inner scope that defines its own `e`", shape_reevaluates,
                 target=["a816.parse.nodes.ExpressionNode.get_value", "a816.parse.nodes.ExpressionNode.__init__", "a816.parse.nodes.ExpressionNode.get_value_string_len"],
                 drop_overrides=["a816.parse.ast.expression.eval_expression"])]


def cases(E):
    cs = value_node_cases(E)
    # `.incbin`'s start symbol is a label too: the address of the file's first byte, defined in the scope the directive is written in (C07's contract)
    from vf.props import C07 as c07
    cs.append(Case(c07.H + "binary_node_contract", ".incbin: any content, any in-window LoROM address, written in an inner scope", c07.shape_bin,
                   target=[c07.N + "BinaryNode.emit", c07.N + "BinaryNode.pc_after"]))
    for bc in [("lorom", "1"), ("lorom", "1_mirror"), ("hirom", "1"), ("lorom", "2")]:
        cs.append(Case(H + "phase_agreement_contract", f"{bc[0]}:{bc[1]}", shape_phase(bc), target=[P + "resolve_labels", P + "emit"], timeout_ms=40000))
    cs.append(Case(H + "label_node_contract", "any in-window address", shape_label, target=[N + "LabelNode.pc_after", N + "LabelNode.emit"]))
    for kind, ex in (("named", True), ("named", False), ("anon", True), ("internal", True), ("named-in-loop", True)):
        cs.append(Case(H + "restore_scope_export_contract", f"{kind},exports={ex}", shape_export(kind, ex), target=["a816.symbols.Resolver.restore_scope"]))
    # the address arithmetic the label pass and the emit pass rely on (through its contract) is established here too
    from vf.props import C04 as c04
    cs += c04.live_bus_cases(E) + c04.address_contract_cases(E)
    # scope discipline of the expansion (every scoped construct opens exactly its own scope, announced and closed by the position nodes the later
    # passes replay; errors of expanded statements propagate): labels and parameters live in those scopes
    from vf.props import expansion
    cs += expansion.cases(E)
    # every block / named scope / application / iteration gets a scope object of its own (never an earlier sibling's)
    from vf.props import C08 as _c08
    cs += _c08.scope_creation_cases(E)
    # a label passed to a macro by name (deferred argument) keeps denoting the CALL-SITE label, also when the body defines a label of the same name
    from vf.props import C09 as _c09
    for c in _c09.own_cases(E):
        if "deferred_application_contract" in c.harness:
            c.drop_overrides = list(c.drop_overrides) + ["a816.parse.ast.expression.eval_expression"]  # the real evaluator, as in C09's own engine
            cs.append(c)
    return cs


OPTIONAL_CHECKS = {"phase_agreement_contract": ["fails_only_on_disagreement", "label_is_next_emission_address", "no_silent_shift"],
                   "restore_scope_export_contract": ["exported_same_value", "only_exports_added", "nothing_exported", "parent_symbols_kept"]}


def bounded(tier, seed):
    from vf.framework import native_call
    return native_call("b_C02.py", {"tier": tier, "seed": seed}, timeout=3000)


def mutants():
    from vf.pyvc.mutate import textual
    return [
        Mutant("emit:phase-check-dropped", P + "emit", textual("if label_pass_address != self.resolver.reloc_address.logical_value:", "if False:"), only_harness="phase_agreement"),
        Mutant("resolve_labels:addresses-recorded-after-node", P + "resolve_labels", textual("            self.label_pass_addresses.append(previous_pc.logical_value)\n            if isinstance(node, SymbolNode):\n                continue\n            previous_pc = node.pc_after(previous_pc)", "            if isinstance(node, SymbolNode):\n                continue\n            previous_pc = node.pc_after(previous_pc)\n            self.label_pass_addresses.append(previous_pc.logical_value)"), only_harness="phase_agreement"),
        Mutant("LabelNode:label-after-next", N + "LabelNode.pc_after", textual("self.resolver.current_scope.add_label(self.symbol_name, current_pc)", "self.resolver.current_scope.add_label(self.symbol_name, current_pc + 1)"), only_harness="label_node"),
        Mutant("restore_scope:export-to-root", "a816.symbols.Resolver.restore_scope", textual("scope.parent.symbols |=", "self.scopes[0].symbols |="), only_harness="restore_scope"),
    ]
