"""C15 - every input terminates."""
from vf.framework import Case, Mutant
from vf.props import shapes as S

PROP = "C15"
LEVEL = "other"
H = "vf.contracts.c_scanner."
SC = "a816.parse.scanner.Scanner."
LX = "a816.parse.scanner_states."
FUNCTIONS = [SC + "scan", SC + "next", SC + "backup", SC + "peek", SC + "accept", SC + "accept_prefix", SC + "accept_run", SC + "ignore", SC + "ignore_run", SC + "emit",
             SC + "_handle_line", LX + "lex_initial", LX + "lex_identifier", LX + "lex_quoted_string", LX + "accept_opcode", LX + "lex_expression", LX + "lex_operand",
             LX + "lex_opcode_index", LX + "lex_opcode_size", LX + "lex_opcode", LX + "lex_keyword", LX + "lex_number"]
MIN_OBLIGATIONS = 300
EXPLANATION = ("Scanner termination is proved on the real code over a SYMBOLIC input (symbolic length and characters): every scanner loop "
               "(accept_run, the ';' and '/* */' comment loops, the quoted-string loop, lex_expression's loop) is cut at an invariant with the "
               "variant 'characters left' checked at every call site reached from lex_initial (so each candidates/negate combination is covered, "
               "including end of input where next() returns None without advancing); lex_initial is proved to consume at least one character or "
               "raise; Scanner.scan's driver loop is proved with that contract.  PARSER termination is proved on the real parser_states.py over a SYMBOLIC TOKEN LIST "
               "(arbitrary length, token types and texts): each of the 18 mutually recursive parse functions is verified against 'returns having consumed at least "
               "delta tokens or raises'; every call it makes is checked to decrease the well-founded measure (tokens left, rank) lexicographically "
               "(callsite_pre:termination_measure_decreases, the callee being replaced by its contract, recursion included) and every parser loop "
               "(parse_block, parse_initial, parse_map, parse_struct, parse_macro_definition_args, parse_expression_list_inner, DataNode's copy loop) has a decreasing variant.  "
               "EXPANSION: every generator is proved (vf/contracts/c_expansion.py) to call _code_gen only on sub-trees of its own AST node (call-site obligation "
               "expands_only_sub_trees_of_its_own_node), with .for a range loop over its two bounds and _code_gen / the data directives finite list loops: structural recursion on a "
               "finite tree.  Macro application and code-block lookup recurse on the macro's body / the bound block (explicit recursion): bounded by CPython's recursion limit "
               "only, covered by the bounded sweep, as is the token-level sweep.")
TRUSTED = ["vf/specs/lexmodel.py (state-function contract used for the driver loop; established by lex_initial_progress_contract)"]
ASSUMPTIONS = ["membership of a symbolic 3-character candidate in the opcode table is encoded exactly (one disjunct per mnemonic)",
               "File.append only records the line text (ghost for error messages); it is not tracked in these obligations",
               "macro / code-block recursion is bounded only by CPython's recursion limit (RecursionError is the reported error); covered by the bounded sweep",
               "parser: the `.include` branch of parse_keyword (open + nested scan + nested parse of another file) is excluded from parse_keyword's contract: its "
               "termination is by the nesting depth of the included files (a self-including file ends in CPython's RecursionError), not by the token measure",
               "parser: ast.literal_eval on a token text is modelled as 'any value or ValueError/SyntaxError'; token texts are strings shorter than 65536 characters",
               "parser: lists built by loops are abstracted to lists of arbitrary length with opaque elements (only lengths / emptiness are ever read back)", "lex_macro_args_def / lex_macro_arg are unreachable from the assembler's entry points (dead code) and not claimed"]


def scanner(B, with_lines=False):
    inp = B.symseq("input", kind="str")
    pos, start = B.int("pos"), B.int("start")
    f = B.inst("a816.parse.tokens.File", filename="t.s", lines=B.list([]))
    return B.inst("a816.parse.scanner.Scanner", initial_state=B.I.lookup_name.__self__ and None, tokens=B.list([]), line_offset=B.int("line_offset"), current_line=B.int("current_line"),
                  input=inp, pos=pos, start=start, file=f, state=None)


def _havoc_scanner(var="self", extra=None):
    def havoc(I, st):
        s = st.env[var]
        o = I.hmut(st, s)
        for fld in ("pos", "start", "line_offset", "current_line"):
            o.fields[fld] = I.fresh_int(fld)
        I.hmut(st, o.fields["tokens"]).items = []
        f = o.fields["file"]
        I.hmut(st, I.hget(st, f).fields["lines"]).items = []
        if extra:
            return extra(I, st)
    return havoc


def _modifies(var="self"):
    def m(I, st):
        s = st.env[var]
        o = I.hget(st, s)
        f = o.fields["file"]
        return {s.oid, o.fields["tokens"].oid, f.oid, I.hget(st, f).fields["lines"].oid}
    return m


def _havoc_quoted_c(I, st):
    """local `c` of lex_quoted_string: the character just read (arbitrary) or None at end of input"""
    from vf.pyvc.models import SymChar
    s1 = st.fork()
    st.env["c"] = SymChar(I.fresh_int("c"))
    s1.env["c"] = None
    s = s1.env["s"]
    # None is only returned by next() at end of input
    o = I.hget(s1, s)
    s1.pc.append(o.fields["pos"] >= I.models.seq_len(o.fields["input"]))
    return [st, s1]


def _ghost(var):
    def g(I, st):
        return {"pos0": I.hget(st, st.env[var]).fields.get("pos", 0)}
    return g


MODELS = {"lex_expression": "sublexer_model", "lex_number": "lex_number_model", "lex_identifier": "lex_identifier_model", "lex_quoted_string": "sublexer_model",
          "lex_keyword": "sublexer_model", "lex_opcode_index": "sublexer_model", "lex_operand": "sublexer_model", "lex_opcode_size": "sublexer_model", "lex_opcode": "sublexer_model"}


def setup_engine(E):
    from vf.pyvc.loops import LoopSpec
    for name, model in MODELS.items():
        E.I.contracts[LX + name] = "vf.specs.lexmodel." + model
    L = E.I.loop_specs
    L[(SC + "accept_run", 0)] = LoopSpec("Scanner.accept_run", H + "inv_self", variant=H + "var_self", havoc=_havoc_scanner("self"), modifies=_modifies("self"), ghost=_ghost("self"))
    L[(LX + "lex_initial", 0)] = LoopSpec("lex_initial#semicolon-comment", H + "inv_s", variant=H + "var_s", havoc=_havoc_scanner("s"), modifies=_modifies("s"), ghost=_ghost("s"))
    L[(LX + "lex_initial", 1)] = LoopSpec("lex_initial#block-comment", H + "inv_s", variant=H + "var_s", havoc=_havoc_scanner("s"), modifies=_modifies("s"), ghost=_ghost("s"))
    L[(LX + "lex_quoted_string", 0)] = LoopSpec("lex_quoted_string", H + "inv_s", variant=H + "var_quoted", havoc=_havoc_scanner("s", _havoc_quoted_c), modifies=_modifies("s"), ghost=_ghost("s"))
    L[(LX + "lex_expression", 0)] = LoopSpec("lex_expression", H + "inv_s", variant=H + "var_s", havoc=_havoc_scanner("s"), modifies=_modifies("s"), ghost=_ghost("s"))
    L[(SC + "scan", 0)] = LoopSpec("Scanner.scan#driver", H + "inv_self", variant=H + "var_self", havoc=_havoc_scanner("self"), modifies=_modifies("self"), ghost=_ghost("self"))


def shape_scanner(B):
    from vf.pyvc.values import FuncVal
    inp = B.symseq("input", kind="str")
    f = B.inst("a816.parse.tokens.File", filename="t.s", lines=B.list([]))
    sc = B.inst("a816.parse.scanner.Scanner", initial_state=FuncVal(LX + "lex_initial"), tokens=B.list([]), line_offset=B.int("line_offset"),
                current_line=B.int("current_line"), input=inp, pos=B.int("pos"), start=B.int("start"), file=f, state=FuncVal(LX + "lex_initial"))
    return {"s": sc}


def shape_scan(B):
    from vf.pyvc.values import FuncVal
    sc = B.inst("a816.parse.scanner.Scanner", initial_state=FuncVal(LX + "lex_initial"), tokens=B.list([]), line_offset=0, current_line=0, pos=0, start=0)
    return {"s": sc, "name": "t.s", "text": B.symseq("input", kind="str")}


SUBLEXERS = ["lex_identifier", "lex_quoted_string", "lex_number", "lex_keyword", "lex_opcode_index", "lex_expression", "lex_operand", "lex_opcode_size", "lex_opcode"]


def shape_sub(name):
    def sh(B):
        from vf.pyvc.values import FuncVal
        d = shape_scanner(B)
        d["fn"] = FuncVal(LX + name)
        d["kind"] = {"lex_number": "after-first-digit", "lex_identifier": "identifier"}.get(name, "any")
        return d
    return sh


# ------------------------------------------------------------------------------------------------- parser termination
PH = "vf.contracts.c_parser."
PSQ = "a816.parse.parser_states."
PM = "vf.specs.parsemodel."
# function -> (rank, delta, rejects end of input, lenient about the exception class)
PARSER_TABLE = {
    "_parse_expression": (0, 1, True, False), "parse_expression": (1, 1, True, False), "parse_expression_list_inner": (2, 0, False, False),
    "parse_expression_list": (3, 2, True, False), "parse_opcode": (3, 1, False, True), "parse_macro_application": (4, 3, True, False),
    "parse_symbol_affectation": (2, 3, True, False), "parse_code_position_keyword": (2, 1, True, False), "parse_code_relocation_keyword": (2, 1, True, False),
    "parse_include_ips": (2, 3, True, False), "parse_if": (2, 3, True, False), "parse_for": (2, 7, True, False), "parse_scope": (2, 3, True, False),
    "parse_macro": (2, 5, True, False), "parse_keyword": (5, 1, True, True), "parse_decl": (6, 1, True, True), "parse_block": (7, 1, True, True),
    "parse_initial": (8, 0, False, True),
}
# functions entered on a token their caller has classified already (second contract: error location)
FIRST_TOKEN_NOT_END = {"parse_opcode", "parse_symbol_affectation", "parse_keyword"}
PARSER_FUNCTIONS = [PSQ + n for n in PARSER_TABLE] + [PSQ + n for n in ("parse_operand_and_addressing", "parse_macro_definition_args", "parse_map", "parse_struct",
                    "parse_directive_with_quoted_string", "parse_label", "parse_code_lookup", "is_value_size")] + \
                   ["a816.parse.parser.Parser." + n for n in ("current", "peek", "next", "backup")] + ["a816.parse.parser." + n for n in ("expect_token", "expect_tokens", "accept_token", "accept_tokens")]


def _check_model_table(E):
    """the spec functions and the table the harness cases use must state the same clauses"""
    import ast as _ast
    for name, (rank, delta, eof, _len) in PARSER_TABLE.items():
        fn, _m, _c = E.index.functions[PM + name + "_model"]
        call = fn.body[0].value
        got = tuple(_ast.literal_eval(a) for a in call.args[1:4])
        if got != (rank, delta, eof) or (len(call.args) > 4) != (name in FIRST_TOKEN_NOT_END):
            raise RuntimeError(f"parsemodel.{name}_model states {got}, the case table {(rank, delta, eof)}")


def _havoc_parser(lists=(), dicts=()):
    def havoc(I, st):
        from vf.pyvc.values import HAbstract, HSymList, Opaque
        p = st.env["p"]
        I.hmut(st, p).fields["pos"] = I.fresh_int("pos")
        for name in lists:
            n = I.fresh_int(name + "_len")
            st.pc.append(n >= 0)
            st.heap[st.env[name].oid] = HSymList(n, lambda I2, s2, idx: Opaque("element"), what=name)
        for name in dicts:
            st.heap[st.env[name].oid] = HAbstract("dict")
    return havoc


def _modifies_parser(names=()):
    def m(I, st):
        return {st.env["p"].oid} | {st.env[n].oid for n in names}
    return m


def _ghost_parser(I, st):
    return {"pos0": I.hget(st, st.env["p"]).fields["pos"]}


def parser_specs(E):
    """-> (contracts, loop specs) of the parser proof, attached per case (so that other properties can run the same cases)"""
    from vf.pyvc.loops import LoopSpec
    _check_model_table(E)
    C = {PSQ + name: PM + name + "_model" for name in PARSER_TABLE}
    L = {}
    for fn, lists, dicts in (("parse_macro_definition_args", ("args",), ()), ("parse_expression_list_inner", ("expressions",), ()), ("parse_map", (), ("args",)),
                             ("parse_struct", (), ("fields",)), ("parse_block", ("decl",), ()), ("parse_initial", ("statements",), ())):
        L[(PSQ + fn, 0)] = LoopSpec(fn, PH + "inv_parser", variant=PH + "var_parser", havoc=_havoc_parser(lists, dicts), modifies=_modifies_parser(lists + dicts), ghost=_ghost_parser)
    L[("a816.parse.ast.nodes.DataNode.__init__", 0)] = LoopSpec("DataNode.__init__", PH + "inv_true", havoc=_havoc_datanode, item=_datanode_items,
                                                                 modifies=lambda I, st: {I.hget(st, st.env["self"]).fields["data"].oid})
    return C, L


def _datanode_items(I, st):
    """an element of the list handed to DataNode: an expression or (for `.db {...}`) a block, which its assert rejects"""
    from vf.pyvc.values import HInst, Opaque
    mk = lambda cls: I.alloc(st, HInst("a816.parse.ast.nodes." + cls, {"kind": Opaque("kind"), "file_info": Opaque("token")}))
    return [mk("ExpressionAstNode"), mk("BlockAstNode")]


def _havoc_datanode(I, st):
    from vf.pyvc.values import HSymList, Opaque
    lst = I.hget(st, st.env["self"]).fields["data"]
    n = I.fresh_int("data_len")
    st.pc.append(n >= 0)
    st.heap[lst.oid] = HSymList(n, lambda I2, s2, idx: Opaque("element"), what="data")


def shape_parser(name):
    rank, delta, eof, lenient = PARSER_TABLE[name]

    def sh(B):
        p = B.inst("a816.parse.parser.Parser", tokens=B.symtokens("tokens"), pos=B.int("pos"), initial_state=None)
        return {"p": p, "fn": B.func(PSQ + name), "rank": rank, "delta": delta, "eof_raises": eof, "no_include": name in ("parse_keyword",), "lenient": lenient,
                "consumes_all": name == "parse_initial"}
    return sh


def shape_parser_located(name):
    rank, delta, eof, lenient = PARSER_TABLE[name]

    def sh(B):
        import z3
        f = B.inst("a816.parse.tokens.File", filename="t.s", lines=B.list([]))
        toks = B.symtokens("tokens", file=f)
        n, types = B.symbols["tokens_len"], B.symbols["tokens_type"]
        members = B.engine.lifter.enum_members("a816.parse.tokens.TokenType")
        eof_code = list(members).index("EOF")
        i = z3.Int("i!shape")
        # the scanner's output shape: at least the end marker, which is the last token, the only EOF token, and has no text
        B.assume(z3.Select(B.symbols["tokens_vlen"], n - 1) == 0)
        B.assume(z3.And(n >= 1, z3.ForAll([i], z3.Implies(z3.And(0 <= i, i < n), (z3.Select(types, i) == eof_code) == (i == n - 1)))))
        p = B.inst("a816.parse.parser.Parser", tokens=toks, pos=B.int("pos"), initial_state=None)
        return {"p": p, "fn": B.func(PSQ + name), "rank": rank, "no_include": name in ("parse_keyword",), "first_token_not_end": name in FIRST_TOKEN_NOT_END}
    return sh


def parser_location_cases(E):
    """every ParserSyntaxError carries a token with a position (shared by C14 and C17)"""
    from vf.pyvc.loops import LoopSpec
    C, L = parser_specs(E)
    L = dict(L)
    for key, spec in list(L.items()):
        if key[0].startswith(PSQ):
            L[key] = LoopSpec(spec.name, PH + "inv_parser_located", variant=PH + "var_parser", havoc=spec.havoc, modifies=spec.modifies, ghost=spec.ghost)
    return [Case(PH + "parser_error_location_contract", name, shape_parser_located(name), target=[PSQ + name], timeout_ms=30000, group="parser-error-location", contracts=C, loop_specs=L)
            for name in PARSER_TABLE]


def parser_cases(E):
    C, L = parser_specs(E)
    return [Case(PH + "parser_function_contract", name, shape_parser(name), target=[PSQ + name], timeout_ms=30000, group="parser", contracts=C, loop_specs=L) for name in PARSER_TABLE]


from vf.props import expansion as _exp  # noqa: E402
FUNCTIONS = FUNCTIONS + PARSER_FUNCTIONS + ["a816.parse.ast.nodes.DataNode.__init__"] + _exp.FUNCTIONS
ASSUMPTIONS = ASSUMPTIONS + ["expansion contracts: " + a for a in _exp.ASSUMED]


def expansion_cases(E):
    from vf.props import expansion
    return expansion.cases(E)


def cases(E):
    return parser_cases(E) + expansion_cases(E) + [Case(H + "sublexer_contract", n, shape_sub(n), target=[LX + n], timeout_ms=30000) for n in SUBLEXERS] + [Case(H + "lex_initial_progress_contract", "any input, any position with a character left", shape_scanner, target=[LX + "lex_initial"], timeout_ms=30000),
            Case(H + "scan_loop_contract", "any input", shape_scan, target=[SC + "scan"], overrides={LX + "lex_initial": "vf.specs.lexmodel.state_function_model"})]


def bounded(tier, seed):
    from vf.framework import native_call
    return native_call("b_C15.py", {"tier": tier, "seed": seed}, timeout=3000)


def mutants():
    from vf.pyvc.mutate import textual
    from vf.props import expansion
    return [m for m in expansion.mutants() if "expands-itself" in m.name] + [
        Mutant("parse_decl:comment-not-consumed", PSQ + "parse_decl", textual("    if accept_token(current_token, TokenType.COMMENT):\n        return None", "    if accept_token(current_token, TokenType.COMMENT):\n        p.backup()\n        return None"), only_harness="parser_function"),
        Mutant("parse_struct:comment-not-consumed", PSQ + "parse_struct", textual("            p.next()\n            continue", "            continue"), only_harness="parser_function"),
        Mutant("_parse_expression:token-not-consumed", PSQ + "_parse_expression", textual("current_token = p.next()", "current_token = p.current()"), only_harness="parser_function"),
        Mutant("parse_macro_definition_args:loop-does-not-advance", PSQ + "parse_macro_definition_args", textual("            token = p.next()", "            token = p.current()"), only_harness="parser_function"),
        Mutant("Parser.next:does-not-advance-at-end", "a816.parse.parser.Parser.next", textual("self.pos += 1", "self.pos += 1 if self.pos < len(self.tokens) - 1 else 0"), only_harness="parser_function"),
        Mutant("lex_initial:unterminated-comment-spins", LX + "lex_initial", textual("            if s.next() is None:\n                raise ScannerException('Unterminated comment', comment_position)", "            s.next()"), only_harness="lex_initial"),
        Mutant("lex_opcode:negated-run-without-EOF-sentinel", LX + "lex_opcode", textual("s.accept_run('\\n\\x00', negate=True)", "s.accept_run('\\n', negate=True)"), only_harness="sublexer"),
        Mutant("lex_initial:unknown-character-not-consumed", LX + "lex_initial", textual("        if s.next() is not None:\n            raise", "        if s.peek() == 'never':\n            raise"), only_harness="lex_initial"),
        Mutant("lex_quoted_string:newline-not-an-error", LX + "lex_quoted_string", textual("if c == '\\n' or c is None:", "if c == '\\n':"), only_harness="sublexer"),
    ]
