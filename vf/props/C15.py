"""C15 - every input terminates."""
from vf.framework import Case, Mutant

PROP = "C15"
LEVEL = "other"
FUNCTIONS = []
MIN_OBLIGATIONS = 0
EXPLANATION = "under construction: scanner/parser variants"
TRUSTED = []
ASSUMPTIONS = []


def cases(E):
    return []


def bounded(tier, seed):
    from vf.framework import native_call
    return native_call("b_C15.py", {"tier": tier, "seed": seed}, timeout=3000)
