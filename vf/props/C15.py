"""C15 - every input terminates."""
from vf.framework import Case, Mutant
from vf.props import shapes as S

PROP = "C15"
LEVEL = "other"
H = "vf.contracts.c_scanner."
SC = "a816.parse.scanner.Scanner."
LX = "a816.parse.scanner_states."
FUNCTIONS = [SC + "scan", SC + "next", SC + "backup", SC + "peek", SC + "accept", SC + "accept_prefix", SC + "accept_run", SC + "ignore", SC + "ignore_run", SC + "emit",
             SC + "_handle_line", LX + "lex_initial", LX + "lex_identifier", LX + "lex_quoted_string", LX + "accept_opcode", LX + "lex_expression", LX + "lex_operand",
             LX + "lex_opcode_index", LX + "lex_opcode_size", LX + "lex_opcode", LX + "lex_keyword", LX + "lex_number"]
MIN_OBLIGATIONS = 30
EXPLANATION = ("Scanner termination is proved on the real code over a SYMBOLIC input (symbolic length and characters): every scanner loop "
               "(accept_run, the ';' and '/* */' comment loops, the quoted-string loop, lex_expression's loop) is cut at an invariant with the "
               "variant 'characters left' checked at every call site reached from lex_initial (so each candidates/negate combination is covered, "
               "including end of input where next() returns None without advancing); lex_initial is proved to consume at least one character or "
               "raise; Scanner.scan's driver loop is proved with that contract.  Parser and expansion termination, and the token-level sweep, are the bounded part.")
TRUSTED = ["vf/specs/lexmodel.py (state-function contract used for the driver loop; established by lex_initial_progress_contract)"]
ASSUMPTIONS = ["membership of a symbolic 3-character candidate in the opcode table is encoded exactly (one disjunct per mnemonic)",
               "File.append only records the line text (ghost for error messages); it is not tracked in these obligations",
               "parser loops (bounded by the EOF token) and expansion recursion (strict sub-ASTs, .for counts, CPython's recursion limit for macro recursion) are "
               "covered by the bounded sweep only", "lex_macro_args_def / lex_macro_arg are unreachable from the assembler's entry points (dead code) and not claimed"]


def scanner(B, with_lines=False):
    inp = B.symseq("input", kind="str")
    pos, start = B.int("pos"), B.int("start")
    f = B.inst("a816.parse.tokens.File", filename="t.s", lines=B.list([]))
    return B.inst("a816.parse.scanner.Scanner", initial_state=B.I.lookup_name.__self__ and None, tokens=B.list([]), line_offset=B.int("line_offset"), current_line=B.int("current_line"),
                  input=inp, pos=pos, start=start, file=f, state=None)


def _havoc_scanner(var="self", extra=None):
    def havoc(I, st):
        s = st.env[var]
        o = I.hmut(st, s)
        for fld in ("pos", "start", "line_offset", "current_line"):
            o.fields[fld] = I.fresh_int(fld)
        I.hmut(st, o.fields["tokens"]).items = []
        f = o.fields["file"]
        I.hmut(st, I.hget(st, f).fields["lines"]).items = []
        if extra:
            return extra(I, st)
    return havoc


def _modifies(var="self"):
    def m(I, st):
        s = st.env[var]
        o = I.hget(st, s)
        f = o.fields["file"]
        return {s.oid, o.fields["tokens"].oid, f.oid, I.hget(st, f).fields["lines"].oid}
    return m


def _havoc_quoted_c(I, st):
    """local `c` of lex_quoted_string: the character just read (arbitrary) or None at end of input"""
    from vf.pyvc.models import SymChar
    s1 = st.fork()
    st.env["c"] = SymChar(I.fresh_int("c"))
    s1.env["c"] = None
    s = s1.env["s"]
    # None is only returned by next() at end of input
    o = I.hget(s1, s)
    s1.pc.append(o.fields["pos"] >= I.models.seq_len(o.fields["input"]))
    return [st, s1]


def _ghost(var):
    def g(I, st):
        return {"pos0": I.hget(st, st.env[var]).fields.get("pos", 0)}
    return g


MODELS = {"lex_expression": "sublexer_model", "lex_number": "lex_number_model", "lex_identifier": "lex_identifier_model", "lex_quoted_string": "sublexer_model",
          "lex_keyword": "sublexer_model", "lex_opcode_index": "sublexer_model", "lex_operand": "sublexer_model", "lex_opcode_size": "sublexer_model", "lex_opcode": "sublexer_model"}


def setup_engine(E):
    from vf.pyvc.loops import LoopSpec
    for name, model in MODELS.items():
        E.I.contracts[LX + name] = "vf.specs.lexmodel." + model
    L = E.I.loop_specs
    L[(SC + "accept_run", 0)] = LoopSpec("Scanner.accept_run", H + "inv_self", variant=H + "var_self", havoc=_havoc_scanner("self"), modifies=_modifies("self"), ghost=_ghost("self"))
    L[(LX + "lex_initial", 0)] = LoopSpec("lex_initial#semicolon-comment", H + "inv_s", variant=H + "var_s", havoc=_havoc_scanner("s"), modifies=_modifies("s"), ghost=_ghost("s"))
    L[(LX + "lex_initial", 1)] = LoopSpec("lex_initial#block-comment", H + "inv_s", variant=H + "var_s", havoc=_havoc_scanner("s"), modifies=_modifies("s"), ghost=_ghost("s"))
    L[(LX + "lex_quoted_string", 0)] = LoopSpec("lex_quoted_string", H + "inv_s", variant=H + "var_quoted", havoc=_havoc_scanner("s", _havoc_quoted_c), modifies=_modifies("s"), ghost=_ghost("s"))
    L[(LX + "lex_expression", 0)] = LoopSpec("lex_expression", H + "inv_s", variant=H + "var_s", havoc=_havoc_scanner("s"), modifies=_modifies("s"), ghost=_ghost("s"))
    L[(SC + "scan", 0)] = LoopSpec("Scanner.scan#driver", H + "inv_self", variant=H + "var_self", havoc=_havoc_scanner("self"), modifies=_modifies("self"), ghost=_ghost("self"))


def shape_scanner(B):
    from vf.pyvc.values import FuncVal
    inp = B.symseq("input", kind="str")
    f = B.inst("a816.parse.tokens.File", filename="t.s", lines=B.list([]))
    sc = B.inst("a816.parse.scanner.Scanner", initial_state=FuncVal(LX + "lex_initial"), tokens=B.list([]), line_offset=B.int("line_offset"),
                current_line=B.int("current_line"), input=inp, pos=B.int("pos"), start=B.int("start"), file=f, state=FuncVal(LX + "lex_initial"))
    return {"s": sc}


def shape_scan(B):
    from vf.pyvc.values import FuncVal
    sc = B.inst("a816.parse.scanner.Scanner", initial_state=FuncVal(LX + "lex_initial"), tokens=B.list([]), line_offset=0, current_line=0, pos=0, start=0)
    return {"s": sc, "name": "t.s", "text": B.symseq("input", kind="str")}


SUBLEXERS = ["lex_identifier", "lex_quoted_string", "lex_number", "lex_keyword", "lex_opcode_index", "lex_expression", "lex_operand", "lex_opcode_size", "lex_opcode"]


def shape_sub(name):
    def sh(B):
        from vf.pyvc.values import FuncVal
        d = shape_scanner(B)
        d["fn"] = FuncVal(LX + name)
        d["kind"] = {"lex_number": "after-first-digit", "lex_identifier": "identifier"}.get(name, "any")
        return d
    return sh


def cases(E):
    return [Case(H + "sublexer_contract", n, shape_sub(n), target=[LX + n], timeout_ms=30000) for n in SUBLEXERS] + [Case(H + "lex_initial_progress_contract", "any input, any position with a character left", shape_scanner, target=[LX + "lex_initial"], timeout_ms=30000),
            Case(H + "scan_loop_contract", "any input", shape_scan, target=[SC + "scan"], overrides={LX + "lex_initial": "vf.specs.lexmodel.state_function_model"})]


def bounded(tier, seed):
    from vf.framework import native_call
    return native_call("b_C15.py", {"tier": tier, "seed": seed}, timeout=3000)


def mutants():
    from vf.pyvc.mutate import textual
    return [
        Mutant("lex_initial:unterminated-comment-spins", LX + "lex_initial", textual("            if s.next() is None:\n                raise ScannerException('Unterminated comment', s.get_position())", "            s.next()"), only_harness="lex_initial"),
        Mutant("lex_opcode:negated-run-without-EOF-sentinel", LX + "lex_opcode", textual("s.accept_run('\\n\\x00', negate=True)", "s.accept_run('\\n', negate=True)"), only_harness="sublexer"),
        Mutant("lex_initial:unknown-character-not-consumed", LX + "lex_initial", textual("        if s.next() is not None:\n            raise", "        if s.peek() == 'never':\n            raise"), only_harness="lex_initial"),
        Mutant("lex_quoted_string:newline-not-an-error", LX + "lex_quoted_string", textual("if c == '\\n' or c is None:", "if c == '\\n':"), only_harness="sublexer"),
    ]
