"""C12 - file and command-line front ends agree with the in-memory assembler."""
from vf.framework import Case, Mutant
from vf.props import shapes
from vf.props import C14 as drv

PROP = "C12"
LEVEL = "other"
H = "vf.contracts.c_drivers."
P = "a816.program.Program."
FUNCTIONS = ["a816.cli.cli_main", P + "assemble", P + "assemble_as_patch", P + "assemble_with_emitter", P + "exports_symbol_file",
             "a816.symbols.Resolver.get_bus", "a816.symbols.Resolver.get_all_labels", "a816.writers.SFCWriter.write_block", "a816.writers.IPSWriter.write_block_header"]
MIN_OBLIGATIONS = 60
EXPLANATION = ("cli_main is executed path-completely on the real code for every point of format x mapping x copier-header x defines with argparse "
               "modelled and the two file entry points replaced by recording contracts; the entry points themselves are under contract with "
               "assemble_with_emitter stubbed (shared with C14); BUS_MAPPING totality, the IPS copier shift (C11 header contract) and the SFC "
               "writer's seek+write are proved.  'Same bytes at the same offsets as the in-memory API' end to end is the bounded part: the option "
               "lattice x generated programs through the real CLI in a subprocess.")
TRUSTED = ["vf/specs/stubs.py (callee outcome contracts, open() model)", "argparse model: parse_args() returns the namespace of the given options"]
ASSUMPTIONS = ["argparse, sys.exit, logging.basicConfig behave as documented (modelled)", "-D values use the assembler's literal syntax (decimal, 0x, 0b)",
               "bounded: option lattice x programs via subprocess; IPS applied to an empty image == SFC image; symbol file vs label definitions"]

OVR_CLI = {P + "assemble_as_patch": "vf.specs.stubs.assemble_as_patch_model", P + "assemble": "vf.specs.stubs.assemble_model"}


def _argparse_hook(I, f, args, kwargs, st, node):
    from vf.pyvc.values import HInst
    return [("val", I.alloc(st, HInst("<argparser>", {})), st)]


def _model_attr_hook(E):
    from vf.pyvc import models
    from vf.pyvc.values import BuiltinVal, HInst, Unsupported
    orig = models.model_attr

    def model_attr(I, ref, o, attr, st, node=None):
        if o.cls == "<argparser>":
            return [("val", BuiltinVal(f"argparser.{attr}", ref), st)]
        if o.cls == "<namespace>":
            raise Unsupported(f"option {attr} not modelled")
        return orig(I, ref, o, attr, st, node)
    models.model_attr = model_attr


def _argparser_method(I, f, args, kwargs, st, node):
    from vf.pyvc.values import HInst
    if f.name == "argparser.add_argument":
        return [("val", None, st)]
    ns = st.ghost["cli_namespace"]
    return [("val", I.alloc(st, HInst("<namespace>", dict(ns))), st)]


def _cli_args(I, args, kwargs, st):
    input_file, output_file, fmt, mapping, copier, defines = args[:6]
    dl = I.iterate(defines, st) if defines is not None else None
    from vf.pyvc.values import HList
    st.ghost["cli_namespace"] = {"verbose": False, "output_file": output_file, "input_file": input_file, "format": fmt, "mapping": mapping,
                                 "copier_header": copier, "dump_symbols": args[6] if len(args) > 6 else False,
                                 "defines": I.alloc(st, HList(dl)) if dl else None}
    return [("val", None, st)]


def setup_engine(E):
    drv.setup_engine(E)
    _model_attr_hook(E)
    E.I.builtin_hooks["argparse.ArgumentParser"] = _argparse_hook
    E.I.builtin_hooks["argparser.add_argument"] = _argparser_method
    E.I.builtin_hooks["argparser.parse_args"] = _argparser_method
    E.I.builtin_hooks["logging.basicConfig"] = lambda I, f, args, kwargs, st, node: [("val", None, st)]
    E.I.overrides["vf.contracts.rt.cli_args"] = _cli_args


DEFINES = [(None, {}), (["V=5"], {"V": 5}), (["A=0x10", "B=0b101"], {"A": 16, "B": 5}), (["N=65536"], {"N": 65536}), (["Z=0", "Y=0x00", "X=0b0"], {"Z": 0, "Y": 0, "X": 0})]


def shape_cli(fmt, mapping, copier, defines, expected):
    def sh(B):
        return {"fmt": fmt, "mapping": mapping, "copier": copier, "defines": B.list(defines) if defines else None, "expected_defines": B.dict(expected),
                "status": B.int("status")}
    return sh


def shape_symfile(B):
    res = shapes.resolver(B)
    root = B.I.hget(B.st, res).fields["current_scope"]
    B.I.hmut(B.st, B.I.hget(B.st, root).fields["labels"]).items.update({"start": 0x008000, "far": 0xC12345, "origin": 0})  # a label at address 0 (defined before any `*=`) is listed like any other
    inner = shapes.scope(B, res, root)
    B.I.hmut(B.st, B.I.hget(B.st, inner).fields["labels"]).items.update({"start": 0x018002})
    loop = shapes.scope(B, res, root, cls="a816.symbols.InternalScope")
    B.I.hmut(B.st, B.I.hget(B.st, loop).fields["labels"]).items.update({"in_loop": 0x008010})
    named = shapes.scope(B, res, root, cls="a816.symbols.NamedScope", name="s")
    B.I.hmut(B.st, B.I.hget(B.st, named).fields["labels"]).items.update({"l": 0x7E0000 + 0x12})
    B.I.hmut(B.st, B.I.hget(B.st, res).fields["scopes"]).items.extend([inner, loop, named])
    prog = B.inst("a816.program.Program", resolver=res, logger=None, dump_symbols=False, parser=None, label_pass_addresses=B.list([]))
    exp = "[labels]\n" + " 0:8000 start\nc1:2345 far\n 0:   0 origin\n 1:8002 start\n7e:  12 l\n"
    return {"program": prog, "expected": exp}


def cases(E):
    cs = []
    for fmt in ("ips", "sfc"):
        for mapping in ("low", "low2", "high"):
            for copier in (False, True):
                for defines, expected in DEFINES:
                    cs.append(Case(H + "cli_main_contract", f"-f {fmt} -m {mapping} copier={copier} -D {defines}", shape_cli(fmt, mapping, copier, defines, expected),
                                   target=["a816.cli.cli_main"], overrides=OVR_CLI))
    for rt in ("low_rom", "low_rom_2", "high_rom"):
        cs.append(Case(H + "bus_mapping_total_contract", rt, lambda B, rt=rt: {"rom_type_name": rt, "v": B.int("v")}, target=["a816.symbols.Resolver.get_bus"]))
    cs.append(Case(H + "assemble_as_patch_contract", "mapping omitted on a Program set to HiROM beforehand",
                   lambda B: {"program": drv.program(B, "high_rom"), "status": B.int("status"), "outcome": 0, "mapping": None, "copier": False},
                   target=[P + "assemble_as_patch"], overrides=drv.OVR_TOP))
    for outcome in (0, 7):
        for mapping in ("low", "low2", "high"):
            cs.append(Case(H + "assemble_as_patch_contract", f"outcome={outcome},mapping={mapping},copier=True",
                           lambda B, outcome=outcome, mapping=mapping: {"program": drv.program(B), "status": B.int("status"), "outcome": outcome, "mapping": mapping, "copier": True},
                           target=[P + "assemble_as_patch"], overrides=drv.OVR_TOP))
    for mapping in (None, "low", "low2", "high"):
        cs.append(Case(H + "assemble_contract", f"mapping={mapping}",
                       lambda B, mapping=mapping: {"program": drv.program(B, "high_rom" if mapping is None else "low_rom"), "status": B.int("status"), "outcome": 0, "mapping": mapping},
                       target=[P + "assemble"], overrides=drv.OVR_TOP))
    cs.append(Case(H + "assemble_with_emitter_contract", "same call as the in-memory API",
                   lambda B: {"program": drv.program(B), "emitter": drv.emitter(B), "outcome": B.int("outcome"), "file_exists": True},
                   target=[P + "assemble_with_emitter"], overrides=drv.OVR_AWE))
    cs.append(Case(H + "exports_symbol_file_contract", "labels in root, block, loop-iteration and named scopes", shape_symfile,
                   target=[P + "exports_symbol_file", "a816.symbols.Resolver.get_all_labels"], overrides={"a816.program.open": "vf.specs.stubs.open_model"}))
    from vf.props import C11
    cs.append(Case("vf.contracts.c_writers.sfc_write_block_contract", "any block", C11.shape_sfc, target=["a816.writers.SFCWriter.write_block"]))
    for copier in (False, True):
        cs.append(Case("vf.contracts.c_writers.ips_header_contract", f"copier_header={copier}", C11.shape(copier), target=["a816.writers.IPSWriter.write_block_header"]))
        # the patch equals the in-memory blocks applied in write order: repeated / rewritten regions stay separate records (the last write wins when applied)
        cs.append(Case("vf.contracts.c_writers.ips_sequence_contract", f"A at X, B at Y, A at X again, C at X; copier_header={copier}", C11.shape_sequence(copier),
                       target=["a816.writers.IPSWriter.__init__", "a816.writers.IPSWriter.write_block"], no_loop_specs=True))
        cs.append(Case("vf.contracts.c_writers.ips_write_block_exact_contract", f"copier_header={copier}", C11.shape(copier), target=["a816.writers.IPSWriter.write_block"], no_loop_specs=True))
    return cs


OPTIONAL_CHECKS = dict(drv.OPTIONAL_CHECKS)
OPTIONAL_CHECKS["cli_main_contract"] = ["copier_header_passed", "define_is_integer_constant"]
OPTIONAL_CHECKS["bus_mapping_total_contract"] = ["low2_offsets"]
OPTIONAL_CHECKS["ips_header_contract"] = ["refuses_only_unrepresentable", "refusal_writes_nothing"]


def bounded(tier, seed):
    from vf.framework import native_call
    return native_call("b_C12.py", {"tier": tier, "seed": seed}, timeout=3000)


def mutants():
    from vf.pyvc.mutate import textual
    return [
        Mutant("cli_main:copier-flag-dropped", "a816.cli.cli_main", textual("args.mapping, args.copier_header)", "args.mapping, False)"), only_harness="cli_main"),
        Mutant("cli_main:exit-0", "a816.cli.cli_main", textual("sys.exit(exit_code)", "sys.exit(0)"), only_harness="cli_main"),
        Mutant("get_all_labels:loop-scopes-included", "a816.symbols.Resolver.get_all_labels", textual("if not isinstance(scope, InternalScope):", "if True:"), only_harness="exports_symbol"),
        Mutant("exports_symbol_file:bank-unmasked-offset", P + "exports_symbol_file", textual("value & 65535", "value & 32767"), only_harness="exports_symbol"),
    ]
