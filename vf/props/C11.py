"""C11 - IPS output is well formed and patches exactly the written blocks."""
from vf.framework import Case, Mutant
from vf.pyvc.models import new_file

PROP = "C11"
LEVEL = "other"
H = "vf.contracts.c_writers."
W = "a816.writers.IPSWriter."
FUNCTIONS = [W + "begin", W + "end", W + "write_block_header", W + "write_block"]
MIN_OBLIGATIONS = 30
EXPLANATION = ("IPSWriter under contract on a file model whose ghost log records the pieces written: header packing for every address/length, "
               "refusal of unrepresentable offsets, the splitting loop by an inductive invariant + per-iteration record contract + variant for "
               "ANY block length, and exact piece-by-piece postconditions with the loop unrolled on the real code for lengths up to 2*65535+1. "
               "That the concatenated pieces parse back (standard IPS reader) to exactly those records is the bounded part (independent reader).")
TRUSTED = ["vf/specs/le.py", "vf/specs/ips_format.py (independent IPS reader/patcher used by the bounded stand-in)"]
ASSUMPTIONS = ["file.write appends its argument to the file (ghost log of pieces)", "struct.pack model",
               "composition 'records tile the block' => 'a standard patcher writes exactly the block' is argued in DESIGN.md and cross-checked by the "
               "bounded stand-in with an independent reader (lengths around every multiple of 65535)"]


def shape(copier, block_kind="seq"):
    def sh(B):
        f = new_file(B.I, B.st, "wb")
        w = B.inst("a816.writers.IPSWriter", file=f, _regions=B.list([]), _copier_header=copier)
        return {"w": w, "block": B.symseq("block"), "addr": B.int("addr")}
    return sh


def shape_sequence(copier):
    def sh(B):
        f = new_file(B.I, B.st, "wb")
        return {"f": f, "copier": copier, "a": B.symbytes("a", 3), "addr_a": B.int("addr_a"), "b": B.symbytes("b", 1), "addr_b": B.int("addr_b"), "c": B.symbytes("c", 3)}
    return sh


def shape_sfc(B):
    f = new_file(B.I, B.st, "wb")
    w = B.inst("a816.writers.SFCWriter", file=f, copier_header=False)
    return {"w": w, "block": B.symseq("block"), "addr": B.int("addr")}


def _havoc(I, st):
    from vf.pyvc.values import HList
    w = st.env["self"]
    f = I.hget(st, w).fields["file"]
    log = I.hget(st, f).fields["written"]
    I.hmut(st, log).items = []  # forget the history: the step contract speaks about what THIS iteration appends
    g = I.hmut(st, st.env["g"])
    g.items["k_pre"] = st.env["k"]


def _ghost(I, st):
    return {"addr0": st.ghost["addr0"]}


def _modifies(I, st):
    w = st.env["self"]
    f = I.hget(st, w).fields["file"]
    return {f.oid, I.hget(st, f).fields["written"].oid}


def setup_engine(E):
    from vf.pyvc.loops import LoopSpec
    E.I.loop_specs[(W + "write_block", 0)] = LoopSpec("IPSWriter.write_block#split", H + "ips_write_block_inv", variant=H + "ips_write_block_variant",
                                                      havoc=_havoc, modifies=_modifies, ghost=_ghost, step=H + "ips_write_block_step")


def cases(E):
    cs = []
    for copier in (False, True):
        lab = f"copier_header={copier}"
        cs.append(Case(H + "ips_begin_end_contract", lab, shape(copier), target=[W + "begin", W + "end"]))
        cs.append(Case(H + "ips_header_contract", lab, shape(copier), target=[W + "write_block_header"]))
        cs.append(Case(H + "ips_write_block_exact_contract", lab, shape(copier), target=[W + "write_block"], no_loop_specs=True))
        cs.append(Case(H + "ips_write_block_any_length_contract", lab, shape(copier), target=[W + "write_block"]))
        cs.append(Case(H + "ips_sequence_contract", "A at X, B at Y, A at X again, C at X; " + lab, shape_sequence(copier), target=[W + "__init__", W + "write_block", W + "begin", W + "end"], no_loop_specs=True))
    cs.append(Case(H + "sfc_write_block_contract", "any block", shape_sfc, target=["a816.writers.SFCWriter.write_block"]))
    return cs


OPTIONAL_CHECKS = {"ips_header_contract": ["refuses_only_unrepresentable", "refusal_writes_nothing"]}


def bounded(tier, seed):
    from vf.framework import native_call
    return native_call("b_C11.py", {"tier": tier, "seed": seed}, timeout=3000)


def mutants():
    from vf.pyvc.mutate import textual
    return [
        Mutant("write_block:min(0x10000)", W + "write_block", textual("min(65535,", "min(65536,"), only_harness="write_block"),
        Mutant("write_block:address-not-advanced", W + "write_block", textual("block_address += slice_size", "block_address += 0"), only_harness="write_block"),
        Mutant("header:copier-0x100", W + "write_block_header", textual("block_address += 512", "block_address += 256"), only_harness="header"),
        Mutant("header:length-little-endian", W + "write_block_header", textual("'>H', len(block)", "'<H', len(block)"), only_harness="header"),
        Mutant("write_block:slices-overlap", W + "write_block", textual("k += slice_size", "k += slice_size - (slice_size > 1000)"), only_harness="write_block"),
    ]
