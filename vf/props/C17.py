"""C17 - errors point at the statement that caused them."""
from vf.framework import Case, Mutant
from vf.props import C15 as c15

PROP = "C17"
LEVEL = "other"
H = "vf.contracts.c_scanner."
SC = c15.SC
LX = c15.LX
FUNCTIONS = [SC + "get_position", SC + "get_token", SC + "emit", SC + "next", SC + "_handle_line"] + [f for f in c15.FUNCTIONS if ".scanner_states." in f] + \
            ["a816.parse.parser_states." + n for n in ("parse_decl", "parse_opcode", "parse_operand_and_addressing", "parse_keyword", "parse_expression_list_inner", "parse_expression", "_parse_expression")] + \
            [f for f in c15.PARSER_FUNCTIONS if f.split(".")[-1] not in ("parse_decl", "parse_opcode", "parse_operand_and_addressing", "parse_keyword", "parse_expression_list_inner", "parse_expression", "_parse_expression")] + \
            ["a816.parse.codegen." + n for n in ("_code_gen", "generate_opcode", "generate_db", "generate_dw", "generate_dl")] + \
            ["a816.parse.nodes." + n for n in ("OpcodeNode.emit", "ByteNode.emit", "WordNode.emit", "LongNode.emit", "ExpressionNode.get_value", "NodeError.__init__")]
MIN_OBLIGATIONS = 40
EXPLANATION = ("Over a SYMBOLIC input, every lexer function is run from a well-formed scanner and every Position it creates -- for each emitted token "
               "(COMMENT excepted) and each ScannerException -- must be taken while the token start is still on the line being scanned "
               "(line_offset <= start: the recorded line is the token's line and the column is non-negative); these are call-site preconditions of "
               "get_position / get_token, discharged at every site reached.  Scanner.next's line bookkeeping (one line closed per line end, its text "
               "recorded) is a separate contract.  EXACT POSITIONS: the real Scanner.scan on texts made of ANY number of blank lines, ANY indentation, an optional preceding statement "
               "with a `;` comment of ANY text, then a statement: every token's Position is (number of line ends before it, offset in its line) of its first character in the "
               "scanned file, and for a bad size suffix / bad index register / unterminated string the ScannerException carries the position of the offending character "
               "(8 forms; scanner loops cut at invariants that pin the line bookkeeping to its closed form at the current position).  The parser/codegen hop is proved on the real parse_decl / _code_gen / emit for a token list made of an ARBITRARY prefix "
               "(any length, any tokens, any lines) followed by one statement with an undefined symbol (5 opcode operand shapes, .db/.dw/.dl/.pointer): the NodeError raised "
               "is attributed to a token on the statement's own line of the statement's own file.  File names of included files, the quoted line text and the "
               "message format are the bounded part."
               "  SYNTAX ERRORS ARE LOCATED: every parser state function, run on a token list of ARBITRARY length whose tokens all carry a position and which ends with its only EOF token (the scanner's output shape), raises ParserSyntaxError only with a token OF THE LIST -- never the position-less end marker Parser.current() makes up beyond the end -- and returns without having consumed the end marker (modular: callee contracts at call sites, loops cut at invariants; second contract of the parser functions, vf/contracts/c_parser.py parser_error_location_contract).")
TRUSTED = ["vf/specs/lexmodel.py (checked get_position/get_token wrappers; sub-lexer contracts with line bookkeeping)"]
ASSUMPTIONS = ["parser_error_location_contract: the token list has the scanner's output shape (every token has a position; exactly one EOF token, last, with empty text) -- assumed in the shape, exercised by the stand-ins; parse_opcode / parse_symbol_affectation / parse_keyword are entered on a token their caller has classified (call-site obligation, discharged at every call site reached)",
               "COMMENT tokens are excluded from the position clause on purpose (both comment forms consume the line end before the token is emitted; a COMMENT "
               "never heads a statement and the parser drops it)",
               "composition (paper): line_offset <= start at the moment the position is taken + next()'s bookkeeping => line == number of line ends before the token and "
               "column == offset in that line",
               "bounded: erroneous statements (undefined symbol in operand / data directive, bad size suffix, bad index, unterminated string) inserted at every line of "
               "varied programs, main file and included file: file name, zero-based line, quoted text, column"]


def _ghost(var):
    def g(I, st):
        o = I.hget(st, st.env[var]).fields
        return {"pos0": o.get("pos", 0), "line_offset0": o.get("line_offset", 0), "start0": o.get("start", 0), "current_line0": o.get("current_line", 0)}
    return g


def _ghost_fn_entry(var):
    """For the quoted-string loop the reference values are those at FUNCTION entry (the first character is read before the loop)."""
    def g(I, st):
        o = I.hget(st, st.env[var]).fields
        return {"pos0": o.get("pos", 0), "line_offset0": st.ghost.get("fn_line_offset", o.get("line_offset", 0)), "start0": o.get("start", 0),
                "current_line0": st.ghost.get("fn_current_line", o.get("current_line", 0))}
    return g


def setup_engine(E):
    from vf.pyvc.loops import LoopSpec
    for name, model in c15.MODELS.items():
        E.I.contracts[LX + name] = "vf.specs.lexmodel." + {"sublexer_model": "sublexer_model_lines", "lex_number_model": "lex_number_model_lines",
                                                            "lex_identifier_model": "lex_identifier_model_lines"}[model]
    E.I.contracts[SC + "get_position"] = "vf.specs.lexmodel.get_position_checked"
    E.I.contracts[SC + "get_token"] = "vf.specs.lexmodel.get_token_checked"
    L = E.I.loop_specs
    hs, ms = c15._havoc_scanner, c15._modifies
    L[(SC + "accept_run", 0)] = LoopSpec("Scanner.accept_run", H + "inv_accept_run_lines", variant=H + "var_self", havoc=hs("self"), modifies=ms("self"), ghost=_ghost("self"))
    L[(LX + "lex_initial", 0)] = LoopSpec("lex_initial#semicolon-comment", H + "inv_comment_loop_lines", variant=H + "var_s", havoc=hs("s"), modifies=ms("s"), ghost=_ghost("s"))
    L[(LX + "lex_initial", 1)] = LoopSpec("lex_initial#block-comment", H + "inv_comment_loop_lines", variant=H + "var_s", havoc=hs("s"), modifies=ms("s"), ghost=_ghost("s"))
    L[(LX + "lex_quoted_string", 0)] = LoopSpec("lex_quoted_string", H + "inv_quoted_lines", variant=H + "var_quoted", havoc=hs("s", c15._havoc_quoted_c), modifies=ms("s"), ghost=_ghost_fn_entry("s"))
    L[(LX + "lex_expression", 0)] = LoopSpec("lex_expression", H + "inv_expression_lines", variant=H + "var_s", havoc=hs("s"), modifies=ms("s"), ghost=_ghost("s"))


def shape_fn(name):
    def sh(B):
        from vf.pyvc.values import FuncVal
        d = c15.shape_scanner(B)
        d["fn"] = FuncVal(LX + name)
        d["kind"] = {"lex_number": "after-first-digit", "lex_initial": "state"}.get(name, "any")
        return d
    return sh


STATEMENTS = {
    "lda e": [("OPCODE", "lda"), ("IDENTIFIER", "undefined_symbol")],
    "lda.w e,x": [("OPCODE", "lda"), ("OPCODE_SIZE", "w"), ("IDENTIFIER", "undefined_symbol"), ("ADDRESSING_MODE_INDEX", "x")],
    "lda #e": [("OPCODE", "lda"), ("SHARP", "#"), ("IDENTIFIER", "undefined_symbol")],
    "sta (e),y": [("OPCODE", "sta"), ("LPAREN", "("), ("IDENTIFIER", "undefined_symbol"), ("RPAREN", ")"), ("ADDRESSING_MODE_INDEX", "y")],
    "jmp e + 1": [("OPCODE", "jmp"), ("IDENTIFIER", "undefined_symbol"), ("OPERATOR", "+"), ("NUMBER", "1")],
    ".db e": [("KEYWORD", "db"), ("IDENTIFIER", "undefined_symbol")],
    ".dw 1, e": [("KEYWORD", "dw"), ("NUMBER", "1"), ("COMMA", ","), ("IDENTIFIER", "undefined_symbol")],
    ".dl e": [("KEYWORD", "dl"), ("IDENTIFIER", "undefined_symbol")],
    ".pointer e": [("KEYWORD", "pointer"), ("IDENTIFIER", "undefined_symbol")],
}


def shape_statement_after_prefix(name):
    def sh(B):
        from vf.props import shapes as S
        from vf.pyvc.values import HSymList
        f = B.inst("a816.parse.tokens.File", filename="t.s", lines=B.list([]))
        line = B.int("statement_line", 0)
        stmt = []
        for k, (tt, v) in enumerate(STATEMENTS[name] + [("EOF", "")]):
            pos = B.inst("a816.parse.tokens.Position", line=line if tt != "EOF" else B.int("eof_line"), column=B.int(f"column{k}", 0), file=f)
            stmt.append(B.inst("a816.parse.tokens.Token", type=B.enum("a816.parse.tokens.TokenType", tt), value=v, position=pos))
        toks = B.symtokens("prefix", file=f)
        o = B.I.hget(B.st, toks)
        B.st.heap[toks.oid] = HSymList(o.length, o.mk, (), tuple(stmt), "tokens")  # arbitrary prefix ++ the statement ++ EOF
        p = B.inst("a816.parse.parser.Parser", tokens=toks, pos=o.length, initial_state=None)
        return {"p": p, "resolver": S.resolver(B), "addr": S.lorom_address(B), "line": line, "file": f, "n_statement_tokens": len(stmt) - 1}
    return sh


# ------------------------------------------------------------------------------------------------ exact positions on a symbolic text
# pieces: "NL" any number of line ends, "IN" any indentation (spaces / tabs), "SP" one or more spaces, ";c" any comment text, other strings literal.
# tokens: (type, piece index where the token starts) or (type, None) for tokens whose position is not constrained (COMMENT, EOF)
POSITIONED = {
    "blank lines, indentation, `lda #0x12`": (["NL", "IN", "lda", "SP", "#", "0x12"], [("OPCODE", 2), ("SHARP", 4), ("NUMBER", 5), ("EOF", None)], None),
    "`nop ; any comment`, blank lines, indentation, `lda 0x10,x`": (["nop", ";", ";c", "\n", "NL", "IN", "lda", " 0x10,x"],
                                                                    [("OPCODE_NAKED", 0), ("COMMENT", None), ("OPCODE", 6), ("NUMBER", None), ("ADDRESSING_MODE_INDEX", None), ("EOF", None)], None),
    "blank lines, indentation, `.db 0x01`, blank lines, `label:`": (["NL", "IN", ".", "db", "SP", "0x01", "\n", "NL", "IN", "name", ":"],
                                                                    [("KEYWORD", 3), ("NUMBER", 5), ("LABEL", 9), ("EOF", None)], None),
    "bad size suffix after blank lines and indentation": (["NL", "IN", "lda", ".", "q", "SP", "0x10"], [], 4),
    "size suffix missing at the line end": (["NL", "IN", "lda", ".", "\n", "nop"], [], 4),
    "bad index register after a commented line": (["nop", ";", ";c", "\n", "IN", "lda 0x10,", "q"], [], 6),
    "unterminated string ending in a backslash, quotes on a later line": (["IN", ".", "text", "SP", "'C:\\", "\n", "'z'"], [], 4),
    "unterminated string after blank lines": (["NL", "IN", ".", "text", "SP", "'abc", "\n", "nop"], [], 5),
}


def _layout(pieces):
    out = []
    for k, x in enumerate(pieces):
        if x == "NL":
            out.append(("run", f"blank_lines{k}", "\n", 0))
        elif x == "IN":
            out.append(("run", f"indent{k}", " \t", 0))
        elif x == "SP":
            out.append(("run", f"spaces{k}", " ", 1))
        elif x == ";c":
            out.append(("chars", f"comment{k}", 1, 0x10FFFF, "\n", 0))
        else:
            out.append(("lit", x))
    return out


def _line_functions(pieces, spans):
    """NL(p): number of line ends before position p; LO(p): position just after the last line end before p (0 if none) -- closed forms from the
    piece structure (line ends occur only in pure line-end runs and as literal characters)."""
    import z3

    def NL(p):
        total = z3.IntVal(0)
        for x, (off, ln) in zip(pieces, spans):
            if x == "NL":
                total = total + z3.If(p <= off, 0, z3.If(p >= off + ln, ln, p - off))
            elif x not in ("IN", "SP", ";c"):
                for i, c in enumerate(x):
                    if c == "\n":
                        total = total + z3.If(p > off + i, 1, 0)
        return total

    def LO(p):
        cur = z3.IntVal(0)
        for x, (off, ln) in zip(pieces, spans):  # later line ends dominate
            if x == "NL":
                cur = z3.If(z3.And(ln > 0, p > off), z3.If(p >= off + ln, off + ln, p), cur)
            elif x not in ("IN", "SP", ";c"):
                for i, c in enumerate(x):
                    if c == "\n":
                        cur = z3.If(p > off + i, off + i + 1, cur)
        return cur
    return NL, LO


def shape_positioned(name):
    def sh(B):
        import z3
        from vf.pyvc.values import FuncVal
        pieces, toks, err = POSITIONED[name]
        text, spans = B.text("input", _layout(pieces))
        NL, LO = _line_functions(pieces, spans)
        B.engine._c17_lines = (NL, LO)
        sc = B.inst("a816.parse.scanner.Scanner", initial_state=FuncVal(LX + "lex_initial"), tokens=B.list([]), line_offset=0, current_line=0, pos=0, start=0)
        at = lambda k: spans[k][0]
        d = {"s": sc, "name": "t.s", "text": text, "expected_types": B.list([B.enum("a816.parse.tokens.TokenType", t) for t, _ in toks]),
             "expected_lines": B.list([None if k is None else z3.simplify(NL(at(k))) for _, k in toks]),
             "expected_columns": B.list([None if k is None else z3.simplify(at(k) - LO(at(k))) for _, k in toks]),
             "error_line": None if err is None else z3.simplify(NL(at(err))), "error_column": None if err is None else z3.simplify(at(err) - LO(at(err)))}
        return d
    return sh


def _positions_inv(var, extra):
    """invariant of every scanner loop on these texts: the line bookkeeping is the closed form at the current position; `extra` adds the
    loop's own 'everything consumed so far matches' part"""
    def inv(I, st):
        import z3
        from vf.pyvc.values import to_z3int
        NL, LO = ENGINE_REF[0]._c17_lines
        o = I.hget(st, st.env[var]).fields
        g = I.hget(st, st.env["g"]).items
        pos, pos0 = to_z3int(o["pos"]), to_z3int(g["pos0"])
        base = z3.And(pos0 <= pos, pos <= to_z3int(o["input"].length), to_z3int(o["current_line"]) == NL(pos), to_z3int(o["line_offset"]) == LO(pos))
        return z3.And(base, extra(I, st, o, pos0, pos))
    return inv


ENGINE_REF = [None]


def _run_matches(I, st, o, pos0, pos):
    import z3
    cands, negate = st.env["candidates"], st.env["negate"]
    j = z3.Int("j!run")
    inset = z3.Or(*[o["input"].at(j) == ord(c) for c in cands])
    return z3.ForAll([j], z3.Implies(z3.And(pos0 <= j, j < pos), z3.Not(inset) if negate else inset))


def _no_line_end(I, st, o, pos0, pos):
    import z3
    j = z3.Int("j!semi")
    return z3.ForAll([j], z3.Implies(z3.And(pos0 <= j, j < pos), o["input"].at(j) != 10))


def positioned_loop_specs(E):
    from vf.pyvc.loops import LoopSpec
    from vf.props import C16 as c16
    ENGINE_REF[0] = E
    gs = lambda var: (lambda I, st: {"pos0": I.hget(st, st.env[var]).fields["pos"]})
    return {(SC + "accept_run", 0): LoopSpec("Scanner.accept_run#exact+lines", _positions_inv("self", _run_matches), variant=c16._var_accept_run, havoc=c16._havoc_accept_run,
                                              modifies=c16._modifies_accept_run, ghost=gs("self")),
            (LX + "lex_initial", 0): LoopSpec("lex_initial#semicolon-comment#exact+lines", _positions_inv("s", _no_line_end), variant=c16._var_s, havoc=c16._havoc_s, modifies=c16._modifies_s,
                                               ghost=gs("s"))}


EH = "vf.contracts.c_errors."


def cases(E):
    cs = [Case(EH + "statement_error_token_contract", f"any prefix, then `{n}`", shape_statement_after_prefix(n),
               target=["a816.parse.parser_states.parse_decl", "a816.parse.codegen._code_gen", "a816.parse.codegen.generate_opcode", "a816.parse.codegen.generate_db"]) for n in STATEMENTS]
    def in_macro(n):
        base = shape_statement_after_prefix(n)

        def sh(B):
            d = base(B)
            d["app_line"] = B.int("application_line", 0)
            return d
        return sh
    cs += [Case(EH + "macro_body_error_contract", f"`{n}` as a line of a macro body applied on another line", in_macro(n),
                target=["a816.parse.codegen.generate_macro_application", "a816.parse.codegen.generate_macro", "a816.parse.codegen._code_gen"]) for n in ("lda e", "lda.w e,x", ".dw 1, e", "jmp e + 1")]
    cs += [Case(H + "scan_positions_contract", n, shape_positioned(n), loop_specs=positioned_loop_specs(E), no_loop_specs=True, no_contracts=True, timeout_ms=60000, group="exact-positions",
                target=[SC + "scan", SC + "next", SC + "_handle_line", SC + "get_position", SC + "emit"]) for n in POSITIONED]
    cs += [Case(H + "positions_contract", n, shape_fn(n), target=[LX + n], timeout_ms=30000) for n in ["lex_initial"] + c15.SUBLEXERS]
    cs.append(Case(H + "next_line_bookkeeping_contract", "any input, any position", c15.shape_scanner, target=[SC + "next", SC + "_handle_line"]))
    # a syntax error is reported through the trace of the token it carries: every parser function raises with a token OF THE LIST (which has the
    # position the scanner gave it, see the position contracts above), never with the position-less end marker made up beyond the end of the list
    cs += c15.parser_location_cases(E)
    return cs


def bounded(tier, seed):
    from vf.framework import native_call
    return native_call("b_C17.py", {"tier": tier, "seed": seed}, timeout=3000)


QUICK_MUTANTS = 8


def mutants():
    from vf.pyvc.mutate import textual
    return [
        Mutant("_handle_line:line-starts-at-the-line-end (exact positions)", SC + "_handle_line", textual("self.line_offset = self.pos + 1", "self.line_offset = self.pos"), only_harness="scan_positions",
               only_label="blank lines, indentation, `lda", max_cases=1),
        Mutant("lex_opcode_size:position-after-next (exact positions)", LX + "lex_opcode_size", textual("raise ScannerException('Invalid Size Specifier', size_position)", "raise ScannerException('Invalid Size Specifier', s.get_position())"),
               only_harness="scan_positions", only_label="size suffix missing at the line end", max_cases=1),
        Mutant("parse_opcode:attributed-to-the-following-token", "a816.parse.parser_states.parse_opcode", textual("file_info=opcode)", "file_info=p.current())"), only_harness="statement_error"),
        Mutant("parse_keyword:db-attributed-to-the-following-token", "a816.parse.parser_states.parse_keyword", textual("return DataNode('db', expressions, keyword)", "return DataNode('db', expressions, p.current())"), only_harness="statement_error"),
        Mutant("generate_opcode:error-without-location", "a816.parse.codegen.generate_opcode", textual("value_node=ExpressionNode(operand, resolver, file_info)", "value_node=ExpressionNode(operand, resolver, None)"), only_harness="statement_error"),
        Mutant("lex_quoted_string:position-after-line-end", LX + "lex_quoted_string", textual("raise ScannerException('Unterminated String', string_position)", "raise ScannerException('Unterminated String', s.get_position())"), only_harness="c_scanner.positions_contract"),
        Mutant("lex_opcode_size:position-after-next", LX + "lex_opcode_size", textual("raise ScannerException('Invalid Size Specifier', size_position)", "raise ScannerException('Invalid Size Specifier', s.get_position())"), only_harness="c_scanner.positions_contract"),
        Mutant("_handle_line:two-lines-per-line-end", SC + "_handle_line", textual("self.current_line += 1", "self.current_line += 2"), only_harness="next_line"),
        Mutant("lex_initial:start-not-reset-after-blank-lines", LX + "lex_initial", textual("s.ignore_run(' \\t\\n')", "s.accept_run(' \\t\\n')"), only_harness="c_scanner.positions_contract"),
    ]
