"""C17 - errors point at the statement that caused them."""
from vf.framework import Case, Mutant
from vf.props import C15 as c15

PROP = "C17"
LEVEL = "other"
H = "vf.contracts.c_scanner."
SC = c15.SC
LX = c15.LX
FUNCTIONS = [SC + "get_position", SC + "get_token", SC + "emit", SC + "next", SC + "_handle_line"] + [f for f in c15.FUNCTIONS if ".scanner_states." in f] + \
            ["a816.parse.parser_states." + n for n in ("parse_decl", "parse_opcode", "parse_operand_and_addressing", "parse_keyword", "parse_expression_list_inner", "parse_expression", "_parse_expression")] + \
            ["a816.parse.codegen." + n for n in ("_code_gen", "generate_opcode", "generate_db", "generate_dw", "generate_dl")] + \
            ["a816.parse.nodes." + n for n in ("OpcodeNode.emit", "ByteNode.emit", "WordNode.emit", "LongNode.emit", "ExpressionNode.get_value", "NodeError.__init__")]
MIN_OBLIGATIONS = 40
EXPLANATION = ("Over a SYMBOLIC input, every lexer function is run from a well-formed scanner and every Position it creates -- for each emitted token "
               "(COMMENT excepted) and each ScannerException -- must be taken while the token start is still on the line being scanned "
               "(line_offset <= start: the recorded line is the token's line and the column is non-negative); these are call-site preconditions of "
               "get_position / get_token, discharged at every site reached.  Scanner.next's line bookkeeping (one line closed per line end, its text "
               "recorded) is a separate contract.  The parser/codegen hop is proved on the real parse_decl / _code_gen / emit for a token list made of an ARBITRARY prefix "
               "(any length, any tokens, any lines) followed by one statement with an undefined symbol (5 opcode operand shapes, .db/.dw/.dl/.pointer): the NodeError raised "
               "is attributed to a token on the statement's own line of the statement's own file.  File names of included files, the quoted line text and the "
               "message format are the bounded part.")
TRUSTED = ["vf/specs/lexmodel.py (checked get_position/get_token wrappers; sub-lexer contracts with line bookkeeping)"]
ASSUMPTIONS = ["COMMENT tokens are excluded from the position clause on purpose (both comment forms consume the line end before the token is emitted; a COMMENT "
               "never heads a statement and the parser drops it)",
               "composition (paper): line_offset <= start at the moment the position is taken + next()'s bookkeeping => line == number of line ends before the token and "
               "column == offset in that line",
               "bounded: erroneous statements (undefined symbol in operand / data directive, bad size suffix, bad index, unterminated string) inserted at every line of "
               "varied programs, main file and included file: file name, zero-based line, quoted text, column"]


def _ghost(var):
    def g(I, st):
        o = I.hget(st, st.env[var]).fields
        return {"pos0": o.get("pos", 0), "line_offset0": o.get("line_offset", 0), "start0": o.get("start", 0), "current_line0": o.get("current_line", 0)}
    return g


def _ghost_fn_entry(var):
    """For the quoted-string loop the reference values are those at FUNCTION entry (the first character is read before the loop)."""
    def g(I, st):
        o = I.hget(st, st.env[var]).fields
        return {"pos0": o.get("pos", 0), "line_offset0": st.ghost.get("fn_line_offset", o.get("line_offset", 0)), "start0": o.get("start", 0),
                "current_line0": st.ghost.get("fn_current_line", o.get("current_line", 0))}
    return g


def setup_engine(E):
    from vf.pyvc.loops import LoopSpec
    for name, model in c15.MODELS.items():
        E.I.contracts[LX + name] = "vf.specs.lexmodel." + {"sublexer_model": "sublexer_model_lines", "lex_number_model": "lex_number_model_lines",
                                                            "lex_identifier_model": "lex_identifier_model_lines"}[model]
    E.I.contracts[SC + "get_position"] = "vf.specs.lexmodel.get_position_checked"
    E.I.contracts[SC + "get_token"] = "vf.specs.lexmodel.get_token_checked"
    L = E.I.loop_specs
    hs, ms = c15._havoc_scanner, c15._modifies
    L[(SC + "accept_run", 0)] = LoopSpec("Scanner.accept_run", H + "inv_accept_run_lines", variant=H + "var_self", havoc=hs("self"), modifies=ms("self"), ghost=_ghost("self"))
    L[(LX + "lex_initial", 0)] = LoopSpec("lex_initial#semicolon-comment", H + "inv_comment_loop_lines", variant=H + "var_s", havoc=hs("s"), modifies=ms("s"), ghost=_ghost("s"))
    L[(LX + "lex_initial", 1)] = LoopSpec("lex_initial#block-comment", H + "inv_comment_loop_lines", variant=H + "var_s", havoc=hs("s"), modifies=ms("s"), ghost=_ghost("s"))
    L[(LX + "lex_quoted_string", 0)] = LoopSpec("lex_quoted_string", H + "inv_quoted_lines", variant=H + "var_quoted", havoc=hs("s", c15._havoc_quoted_c), modifies=ms("s"), ghost=_ghost_fn_entry("s"))
    L[(LX + "lex_expression", 0)] = LoopSpec("lex_expression", H + "inv_expression_lines", variant=H + "var_s", havoc=hs("s"), modifies=ms("s"), ghost=_ghost("s"))


def shape_fn(name):
    def sh(B):
        from vf.pyvc.values import FuncVal
        d = c15.shape_scanner(B)
        d["fn"] = FuncVal(LX + name)
        d["kind"] = {"lex_number": "after-first-digit", "lex_initial": "state"}.get(name, "any")
        return d
    return sh


STATEMENTS = {
    "lda e": [("OPCODE", "lda"), ("IDENTIFIER", "undefined_symbol")],
    "lda.w e,x": [("OPCODE", "lda"), ("OPCODE_SIZE", "w"), ("IDENTIFIER", "undefined_symbol"), ("ADDRESSING_MODE_INDEX", "x")],
    "lda #e": [("OPCODE", "lda"), ("SHARP", "#"), ("IDENTIFIER", "undefined_symbol")],
    "sta (e),y": [("OPCODE", "sta"), ("LPAREN", "("), ("IDENTIFIER", "undefined_symbol"), ("RPAREN", ")"), ("ADDRESSING_MODE_INDEX", "y")],
    "jmp e + 1": [("OPCODE", "jmp"), ("IDENTIFIER", "undefined_symbol"), ("OPERATOR", "+"), ("NUMBER", "1")],
    ".db e": [("KEYWORD", "db"), ("IDENTIFIER", "undefined_symbol")],
    ".dw 1, e": [("KEYWORD", "dw"), ("NUMBER", "1"), ("COMMA", ","), ("IDENTIFIER", "undefined_symbol")],
    ".dl e": [("KEYWORD", "dl"), ("IDENTIFIER", "undefined_symbol")],
    ".pointer e": [("KEYWORD", "pointer"), ("IDENTIFIER", "undefined_symbol")],
}


def shape_statement_after_prefix(name):
    def sh(B):
        from vf.props import shapes as S
        from vf.pyvc.values import HSymList
        f = B.inst("a816.parse.tokens.File", filename="t.s", lines=B.list([]))
        line = B.int("statement_line", 0)
        stmt = []
        for k, (tt, v) in enumerate(STATEMENTS[name] + [("EOF", "")]):
            pos = B.inst("a816.parse.tokens.Position", line=line if tt != "EOF" else B.int("eof_line"), column=B.int(f"column{k}", 0), file=f)
            stmt.append(B.inst("a816.parse.tokens.Token", type=B.enum("a816.parse.tokens.TokenType", tt), value=v, position=pos))
        toks = B.symtokens("prefix", file=f)
        o = B.I.hget(B.st, toks)
        B.st.heap[toks.oid] = HSymList(o.length, o.mk, (), tuple(stmt), "tokens")  # arbitrary prefix ++ the statement ++ EOF
        p = B.inst("a816.parse.parser.Parser", tokens=toks, pos=o.length, initial_state=None)
        return {"p": p, "resolver": S.resolver(B), "addr": S.lorom_address(B), "line": line, "file": f, "n_statement_tokens": len(stmt) - 1}
    return sh


EH = "vf.contracts.c_errors."


def cases(E):
    cs = [Case(EH + "statement_error_token_contract", f"any prefix, then `{n}`", shape_statement_after_prefix(n),
               target=["a816.parse.parser_states.parse_decl", "a816.parse.codegen._code_gen", "a816.parse.codegen.generate_opcode", "a816.parse.codegen.generate_db"]) for n in STATEMENTS]
    cs += [Case(H + "positions_contract", n, shape_fn(n), target=[LX + n], timeout_ms=30000) for n in ["lex_initial"] + c15.SUBLEXERS]
    cs.append(Case(H + "next_line_bookkeeping_contract", "any input, any position", c15.shape_scanner, target=[SC + "next", SC + "_handle_line"]))
    return cs


def bounded(tier, seed):
    from vf.framework import native_call
    return native_call("b_C17.py", {"tier": tier, "seed": seed}, timeout=3000)


def mutants():
    from vf.pyvc.mutate import textual
    return [
        Mutant("parse_opcode:attributed-to-the-following-token", "a816.parse.parser_states.parse_opcode", textual("file_info=opcode)", "file_info=p.current())"), only_harness="statement_error"),
        Mutant("parse_keyword:db-attributed-to-the-following-token", "a816.parse.parser_states.parse_keyword", textual("return DataNode('db', expressions, keyword)", "return DataNode('db', expressions, p.current())"), only_harness="statement_error"),
        Mutant("generate_opcode:error-without-location", "a816.parse.codegen.generate_opcode", textual("value_node=ExpressionNode(operand, resolver, file_info)", "value_node=ExpressionNode(operand, resolver, None)"), only_harness="statement_error"),
        Mutant("lex_quoted_string:position-after-line-end", LX + "lex_quoted_string", textual("raise ScannerException('Unterminated String', string_position)", "raise ScannerException('Unterminated String', s.get_position())"), only_harness="positions"),
        Mutant("lex_opcode_size:position-after-next", LX + "lex_opcode_size", textual("raise ScannerException('Invalid Size Specifier', size_position)", "raise ScannerException('Invalid Size Specifier', s.get_position())"), only_harness="positions"),
        Mutant("_handle_line:two-lines-per-line-end", SC + "_handle_line", textual("self.current_line += 1", "self.current_line += 2"), only_harness="next_line"),
        Mutant("lex_initial:start-not-reset-after-blank-lines", LX + "lex_initial", textual("s.ignore_run(' \\t\\n')", "s.accept_run(' \\t\\n')"), only_harness="positions"),
    ]
