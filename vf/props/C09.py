"""C09 - macro application equals the body inlined with parameters bound."""
from vf.framework import Case, Mutant
from vf.props import shapes as S

PROP = "C09"
LEVEL = "other"
H = "vf.contracts.c_codegen."
G = "a816.parse.codegen."
FUNCTIONS = [G + "generate_macro", G + "generate_macro_application", G + "generate_code_lookup", G + "generate_compound", "a816.parse.nodes.SymbolNode.pc_after",
             "a816.symbols.Resolver.restore_scope"]
MIN_OBLIGATIONS = 60
EXPLANATION = ("generate_macro + generate_macro_application are executed on the real code for macro / argument shapes covering the quantifier: literal "
               "arguments, call-site symbols with symbolic values, argument expressions, names that coincide with parameter names, arguments "
               "evaluated from an inner call-site scope, forward (deferred) arguments incl. ones that also mention a coinciding name, code-block "
               "arguments, too few arguments, undefined macro.  Obligations: fresh-block structure, parameter == call-site value, caller scope "
               "untouched, labels local, deferral and its later call-site evaluation.  'Equals the inlined twin' is the bounded part."
               "  Also proved: the argument list from the token list (code-block arguments in any position), exports of a named scope in the body stop at the application's scope, value nodes re-evaluate (deferred arguments bound late are seen at emission).")
TRUSTED = ["the real eval_expression on one/two-term expressions (C06)"]
ASSUMPTIONS = ["macro bodies: label + data statements (other statement kinds go through _code_gen's dispatch)", "parameter counts 0-3",
               "composition 'same structure as a block + call-site values => same output as the inlined twin' argued in DESIGN.md; bounded twins through "
               "the real pipeline (nested, recursive with .if termination, many applications, forward labels)"]


def macro_ab(B):
    return S.ast_macro(B, "m", ["a", "b"], [S.ast_label(B, "l"), S.ast_data(B, "db", [S.expr_ident(B, "a"), S.expr_ident(B, "b")])])


def shape_app(kind):
    def sh(B):
        res = S.resolver(B)
        vx, vy, va = B.int("vx"), B.int("vy"), B.int("va")
        S.root_symbols(B, res, {"x": vx, "y": vy, "a": va})
        exp, labels, deferred = {}, ["l"], []
        if kind == "literals":
            args, exp = [S.expr_num(B, 1), S.expr_num(B, 2)], {"a": 1, "b": 2}
        elif kind == "call-site symbols":
            args, exp = [S.expr_ident(B, "x"), S.expr_ident(B, "y")], {"a": vx, "b": vy}
        elif kind == "coinciding name":
            args, exp = [S.expr_num(B, 1), S.expr_ident(B, "a")], {"a": 1, "b": va}
        elif kind == "coinciding name in expression":
            args, exp = [S.expr_num(B, 7), S.expr_binop(B, ("id", "a"), "+", ("num", 1))], {"a": 7, "b": va + 1}
        elif kind == "expression":
            args, exp = [S.expr_binop(B, ("id", "x"), "+", ("num", 1)), S.expr_binop(B, ("id", "y"), "*", ("id", "x"))], {"a": vx + 1, "b": vy * vx}
        elif kind == "inner call-site scope":
            bx = B.int("bx")
            root = B.I.hget(B.st, res).fields["current_scope"]
            inner = S.scope(B, res, root, symbols={"x": bx})
            B.I.hmut(B.st, B.I.hget(B.st, res).fields["scopes"]).items.append(inner)
            r = B.I.hmut(B.st, res)
            r.fields["current_scope"] = inner
            r.fields["last_used_scope"] = 1
            args, exp = [S.expr_ident(B, "x"), S.expr_ident(B, "y")], {"a": bx, "b": vy}
        elif kind == "forward label":
            args, exp, deferred = [S.expr_ident(B, "later"), S.expr_num(B, 2)], {"b": 2}, ["a"]
        elif kind == "extra arguments":
            args, exp = [S.expr_num(B, 1), S.expr_num(B, 2), S.expr_num(B, 3)], {"a": 1, "b": 2}
        return {"macro_def": macro_ab(B), "apply_node": S.ast_apply(B, "m", args), "resolver": res, "tok": S.tok(B, "IDENTIFIER", "m"),
                "expected_bytes_values": B.dict(exp), "expected_labels": B.list(labels), "expected_deferred": B.list(deferred)}
    return sh


def shape_err(kind):
    def sh(B):
        res = S.resolver(B)
        args = [S.expr_num(B, 1)] if kind == "too few" else [S.expr_num(B, 1), S.expr_num(B, 2)]
        if kind == "too few, missing name defined outside":
            S.root_symbols(B, res, {"b": B.int("outer_b")})
            args = [S.expr_num(B, 1)]
        name = "nope" if kind == "undefined" else "m"
        return {"macro_def": macro_ab(B), "apply_node": S.ast_apply(B, name, args), "resolver": res, "tok": S.tok(B, "IDENTIFIER", name), "kind": kind}
    return sh


def shape_deferred(coinciding, after_sibling=False):
    def sh(B):
        res = S.resolver(B)
        if after_sibling:
            # a sibling block was opened and closed before the call; it privately defines the very name the argument mentions
            root0 = B.I.hget(B.st, res).fields["current_scope"]
            sib = S.scope(B, res, root0, symbols={"later": B.int("sibling_private_later")})
            B.I.hmut(B.st, B.I.hget(B.st, res).fields["scopes"]).items.append(sib)
            B.I.hmut(B.st, res).fields["last_used_scope"] = 1
        va, vl = B.int("va"), B.int("late_value")
        S.root_symbols(B, res, {"a": va})
        if coinciding:
            args, expected = [S.expr_num(B, 1), S.expr_binop(B, ("id", "a"), "+", ("id", "later"))], va + vl
        else:
            args, expected = [S.expr_num(B, 1), S.expr_ident(B, "later")], vl
        return {"macro_def": macro_ab(B), "apply_node": S.ast_apply(B, "m", args), "resolver": res, "tok": S.tok(B, "IDENTIFIER", "m"),
                "addr": S.lorom_address(B), "late_name": "later", "late_value": vl, "param": "b", "expected": expected}
    return sh


def shape_block_arg(nested):
    def sh(B):
        res = S.resolver(B)
        splice = S.ast_code_lookup(B, "code")
        body = [S.ast_label(B, "before"), S.ast_compound(B, [S.ast_compound(B, [splice])]) if nested else splice, S.ast_label(B, "after")]
        macro = S.ast_macro(B, "w", ["code"], body)
        arg = S.ast_block(B, [S.ast_label(B, "x1"), S.ast_label(B, "x2")])
        return {"macro_def": macro, "apply_node": S.ast_apply(B, "w", [arg]), "resolver": res, "tok": S.tok(B, "IDENTIFIER", "w"),
                "expected_labels": B.list(["before", "x1", "x2", "after"]), "expected_scopes": 3 if nested else 1}
    return sh


def shape_application_tokens(kinds):
    def sh(B):
        items = [("IDENTIFIER", "m"), ("LPAREN", "(")]
        for i, k in enumerate(kinds):
            if i:
                items.append(("COMMA", ","))
            items += [("LBRACE", "{"), ("OPCODE_NAKED", "nop"), ("RBRACE", "}")] if k == "block" else [("NUMBER", str(i + 1))]
        items += [("RPAREN", ")"), ("EOF", "")]
        toks = [B.inst("a816.parse.tokens.Token", type=B.enum("a816.parse.tokens.TokenType", tt), value=v, position=None) for tt, v in items]
        return {"p": B.inst("a816.parse.parser.Parser", tokens=B.list(toks), pos=0, initial_state=None), "kinds": B.list(list(kinds))}
    return sh


def shape_definition_in_body(B):
    res = S.resolver(B)
    v = B.int("v")
    B.assume(v == 1)
    put = lambda val: S.ast_macro(B, "put", [], [S.ast_data(B, "db", [S.expr_num(B, val)])])
    ast = [put(0x11), S.ast_macro(B, "defs", [], [put(0x22)]), S.ast_apply(B, "defs", []), S.ast_apply(B, "put", [])]
    return {"ast": B.list(ast), "resolver": res, "v": v, "selected_value": 0x22, "default_value": 0x11}


def own_cases(E):
    cs = [Case("vf.contracts.c_codegen.unselected_definitions_contract", "a .macro (re)defined by the body of an applied macro stays defined after the application", shape_definition_in_body,
               target=[G + "code_gen", G + "generate_macro", G + "generate_macro_application"])]
    for kinds in (("expr",), ("block",), ("expr", "block"), ("block", "expr"), ("expr", "block", "expr"), ("block", "block"), ("expr", "expr", "block")):
        cs.append(Case("vf.contracts.c_parser.macro_application_arguments_contract", "m(" + ", ".join(kinds) + ")", shape_application_tokens(kinds),
                       target=["a816.parse.parser_states.parse_macro_application", "a816.parse.parser_states.parse_expression_list", "a816.parse.parser_states.parse_expression_list_inner"]))
    for nested in (False, True):
        cs.append(Case(H + "code_block_argument_contract", "spliced " + ("two scopes down" if nested else "directly in the body"), shape_block_arg(nested),
                       target=[G + "generate_code_lookup", G + "generate_macro_application"]))
    for kind in ("literals", "call-site symbols", "coinciding name", "coinciding name in expression", "expression", "inner call-site scope", "forward label", "extra arguments"):
        cs.append(Case(H + "macro_application_contract", kind, shape_app(kind), target=[G + "generate_macro_application", G + "generate_macro"]))
    for kind in ("undefined", "too few", "too few, missing name defined outside"):
        cs.append(Case(H + "macro_errors_contract", kind, shape_err(kind), target=[G + "generate_macro_application"]))
    for co in (False, True):
        for sib in (False, True):
            cs.append(Case(H + "deferred_application_contract", "forward label" + (" + coinciding name" if co else "") + (", after a closed sibling scope defining that name" if sib else ""),
                           shape_deferred(co, sib), target=[G + "generate_macro_application", "a816.parse.nodes.SymbolNode.pc_after"]))
    return cs


def cases(E):
    cs = own_cases(E)
    # "labels defined in the body are local to one application": what a named scope of the body exports goes to ITS enclosing scope -- the
    # application's own scope -- and no further (so two applications never share `s.l`)
    from vf.props import C02 as c02
    for kind, ex in (("named", True), ("named", False), ("named-in-loop", True)):
        cs.append(Case("vf.contracts.c_labels.restore_scope_export_contract", f"{kind} scope closed inside an application scope,exports={ex}", c02.shape_export(kind, ex),
                       target=["a816.symbols.Resolver.restore_scope"]))
    # scope discipline of the expansion (every scoped construct opens exactly its own scope, announced and closed by the position nodes the later
    # passes replay; errors of expanded statements propagate): labels and parameters live in those scopes
    from vf.props import expansion
    cs += expansion.cases(E)
    # every block / named scope / application / iteration gets a scope object of its own (never an earlier sibling's)
    from vf.props import C08 as _c08
    cs += _c08.scope_creation_cases(E)
    # a parameter used as an operand is read when the application's bindings are final (deferred arguments are bound late), not when it was first looked at
    cs += c02.value_node_cases(E)
    return cs


OPTIONAL_CHECKS = {"unselected_definitions_contract": ["definition_in_an_unselected_block_has_no_effect", "definition_in_the_selected_block_takes_effect"],
                   "macro_application_contract": ["parameter_bound_to_call_site_value"],
                   "restore_scope_export_contract": ["exported_same_value", "only_exports_added", "nothing_exported", "parent_symbols_kept"]}


def bounded(tier, seed):
    from vf.framework import native_call
    return native_call("b_C09.py", {"tier": tier, "seed": seed}, timeout=3000)


def mutants():
    from vf.pyvc.mutate import textual
    return [
        Mutant("application:zip-truncates-missing-args", G + "generate_macro_application",
               textual("for index, arg in enumerate(macro_args):\n        value = macro_args_values[index]", "for index, (arg, value) in enumerate(zip(macro_args, macro_args_values)):\n        pass"),
               only_harness="macro_errors"),
        Mutant("application:no-PopScopeNode", G + "generate_macro_application", textual("code.append(PopScopeNode(resolver))", "pass"), only_harness="macro_application"),
        Mutant("application:scope-not-restored", G + "generate_macro_application", textual("resolver.restore_scope()", "pass"), only_harness="macro_application"),
    ]
