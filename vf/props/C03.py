"""C03 - output holds exactly the emitted bytes at their mapped ROM offsets."""
import z3

from vf.framework import Case, Mutant
from vf.props import shapes

PROP = "C03"
LEVEL = "other"
H = "vf.contracts.c_program."
P = "a816.program.Program."
N = "a816.parse.nodes."
FUNCTIONS = [P + "emit", P + "resolver_reset", "a816.symbols.Resolver.set_position", "a816.symbols.Resolver.get_bus", N + "CodePositionNode.emit",
             N + "RelocationAddressNode.emit", N + "IncludeIpsNode.emit"]
MIN_OBLIGATIONS = 100
EXPLANATION = ("Program.emit's loop is cut at an inductive invariant (run address well formed on the active bus; P: ROM run address => resolver.pc is "
               "its file offset; J3: no @= since the last *= => next byte's offset in the pending block is that file offset) and one ARBITRARY "
               "iteration of the real body is executed per node kind (any frame-respecting node with symbolic bytes, the real `*=`, `@=` and "
               ".include_ips nodes) from an arbitrary state on the live LoROM / HiROM buses and a generic user-mapped bus; a per-iteration step "
               "contract pins what reaches the writer and the pending block; the final flush and the entry state are separate obligations. "
               "Every real node class is proved to respect the frame the generic node stands for.  Address.__add__ is used through its contract (C04)."
               '  User-defined mappings: what Bus.map registers (primary and mirror entries with the same window and ROM/RAM status) and the offset / advance laws are proved with the `.map` address window symbolic (shared with C04); emit refuses no record and no placement itself (only a phase error stops it).')
TRUSTED = ["vf/specs/progmodel.py (protocol model of a frame-respecting node, recording writer)", "vf/specs/busmath.py, vf/specs/busmodel.py"]
ASSUMPTIONS = ["composition on paper: invariant + step contract per iteration => the writer receives exactly the emitted bytes, contiguous and in source order "
               "per block, at current_block_addr (induction over the node list)",
               "`*=` to a RAM target is given no file offset by the statement: only the step contract (J1) is claimed for it, not J3",
               "eval_expression modelled (targets of *= / @=); verified in C06",
               "bounded: generated programs (instructions, data, labels, scopes, macros, loops, *= / @= sequences, bank crossings) under LoROM, HiROM and "
               "user maps: writer blocks vs an independent block fold over per-statement bytes"]

BUS_CASES = [("lorom", "1"), ("lorom", "1_mirror"), ("lorom", "2"), ("hirom", "1"), ("hirom", "2"), ("usermap", "A"), ("usermap", "B")]
KINDS = ["generic", "star_eq", "at_eq", "include_ips"]



def S_addr_range(B):
    """the address window a `.map` declares (any 0 <= lo <= hi <= 0xFFFF; e.g. 0x8000-0xFFFF for the upper halves of banks 00-3F of a HiROM map): the
    offset law does not depend on it -- the position inside the bank is the address modulo the bank size"""
    import z3 as _z3
    k = getattr(B, "_addr_ranges", 0)
    B._addr_ranges = k + 1
    lo, hi = B.int(f"addr_lo{k}"), B.int(f"addr_hi{k}")
    B.assume(_z3.And(0 <= lo, lo <= hi, hi <= 0xFFFF))
    return (lo, hi)

def make_bus(B, bus_case):
    """-> (resolver bus object or None, active bus ref, dict ident -> mapping ref, rom_type)"""
    kind, ident = bus_case
    if kind == "usermap":
        lo, hi, lo2, hi2 = B.int("lo"), B.int("hi"), B.int("lo2"), B.int("hi2")
        m = B.inst("a816.cpu.mapping.Mapping", bank_range=(lo, hi), mirror=None, address_range=S_addr_range(B), mask=0x8000, writable=False)
        m2 = B.inst("a816.cpu.mapping.Mapping", bank_range=(lo2, hi2), mirror=None, address_range=S_addr_range(B), mask=0x10000, writable=True)
        B.assume(z3.And(lo >= 0, lo <= hi, hi <= 0xFF, lo2 >= 0, lo2 <= hi2, hi2 <= 0xFF))
        lookup = B.symmap("lookup", {1: "A", 2: "B"})
        # bus-view well-formedness (what Bus.map establishes, C04 bus_map_contract primary_wf/mirror_wf): a bank resolves to an
        # entry only inside that entry's declared bank range
        arr = B.symbols["lookup"]
        b = z3.Int("b!wf")
        B.assume(z3.ForAll([b], z3.And(z3.Implies(z3.Select(arr, b) == 1, z3.And(lo <= b, b <= hi)), z3.Implies(z3.Select(arr, b) == 2, z3.And(lo2 <= b, b <= hi2)))))
        bus = B.inst("a816.cpu.mapping.Bus", name=None, lookup=lookup, inverse_lookup=B.dict({}), mappings=B.dict({"A": m, "B": m2}), editable=True, internal_id=0)
        return bus, bus, {"A": m, "B": m2}, "low_rom"
    attr = "low_rom_bus" if kind == "lorom" else "high_rom_bus"
    bus = B.glob("a816.symbols", attr)
    mappings = B.I.hget(B.st, B.I.hget(B.st, bus).fields["mappings"]).items
    return None, bus, dict(mappings), "low_rom" if kind == "lorom" else "high_rom"


def fresh_address(I, st, bus, mapping_ref, name):
    from vf.pyvc.values import HInst, HSymMap
    a = I.fresh_int(name)
    m = I.hget(st, mapping_ref).fields
    lo, hi = m["bank_range"]
    st.pc.append(z3.And(a >= 0, a < 0x1000000, a / 65536 >= lo, a / 65536 <= hi))
    lk = I.hget(st, I.hget(st, bus).fields["lookup"])
    if isinstance(lk, HSymMap):
        code = [c for c, v in lk.values.items() if I.hget(st, I.hget(st, bus).fields["mappings"]).items[v] is mapping_ref or
                I.hget(st, I.hget(st, bus).fields["mappings"]).items[v] == mapping_ref][0]
        st.pc.append(z3.Select(lk.arr, a / 65536) == code)
    else:
        # live bus: the bank must resolve to this very entry (HiROM's ROM entry is shadowed by RAM in 0x7E-0x7F)
        idents = {k for k, v in lk.items.items() if I.hget(st, I.hget(st, bus).fields["mappings"]).items[v] == mapping_ref}
        st.pc.append(z3.Or(*[a / 65536 == k for k in sorted(idents)]))
    return I.alloc(st, HInst("a816.cpu.mapping.Address", {"bus": bus, "logical_value": a, "mapping": mapping_ref}))


def shape(kind, bus_case, nblocks=1):
    def sh(B):
        rbus, active, mappings, rom_type = make_bus(B, bus_case)
        res = shapes.resolver(B, rom_type=rom_type, bus=rbus)
        ra0 = fresh_address(B.I, B.st, active, mappings[bus_case[1]], "ra_entry")
        B.I.hmut(B.st, res).fields["reloc_address"] = ra0
        prog = B.inst("a816.program.Program", resolver=res, logger=None, dump_symbols=False, parser=None,
                      label_pass_addresses=B.list([B.int("label_pass_address")]))
        writer = B.inst("vf.specs.progmodel.RecordingWriter", log=B.list([]))
        if kind == "generic":
            item = B.inst("vf.specs.progmodel.GenericNode", data=B.symseq("node_bytes"))
        elif kind == "star_eq":
            item = B.inst(N + "CodePositionNode", value_node=shapes.value_node(B, B.int("target", 0, 0xFFFFFF), res), resolver=res)
        elif kind == "at_eq":
            item = B.inst(N + "RelocationAddressNode", pc_value_node=shapes.value_node(B, B.int("target", 0, 0xFFFFFF), res), resolver=res)
        else:
            blocks = [(B.int(f"ips_addr{i}"), B.symseq(f"ips_block{i}")) for i in range(nblocks)]
            item = B.inst(N + "IncludeIpsNode", ips_file_path="p.ips", delta=0, blocks=B.list(blocks))
        B.st.ghost["emit_item"] = item
        B.st.ghost["emit_bus"] = (active, mappings[bus_case[1]])
        # the harness' own node list is irrelevant to the cut (unknown length/content); one element keeps native runs meaningful
        return {"program": prog, "nodes": B.list([item]), "writer": writer, "kind": kind}
    return sh


def _havoc(I, st):
    from vf.pyvc.values import SymSeq
    prog = st.env["self"]
    res = I.hget(st, prog).fields["resolver"]
    writer = st.env["writer"]
    cb = SymSeq(I.fresh_arr("cb"), 0, I.fresh_int("cb_len"))
    st.pc.append(cb.length >= 0)
    st.env["current_block"] = cb
    active, mref = st.ghost["emit_bus"]
    ra = fresh_address(I, st, active, mref, "ra")
    r = I.hmut(st, res)
    r.fields["pc"] = I.fresh_int("pc")
    r.fields["reloc_address"] = ra
    I.hmut(st, I.hget(st, writer).fields["log"]).items = []
    g = I.hmut(st, st.env["g"])
    g.items.update({"relocated": I.fresh_bool("relocated"), "cb0": cb, "cba0": st.env["current_block_addr"], "pc0": r.fields["pc"], "ra0": ra})
    st.ghost["emit_pending"] = (cb, st.env["current_block_addr"])


def _ghost(I, st):
    return {"relocated": False, "cb0": b"", "cba0": st.env["current_block_addr"], "pc0": 0, "ra0": None}


def _item(I, st):
    # `for index, node in enumerate(program)`: an arbitrary node; its label-pass address is the (symbolic) single entry of
    # label_pass_addresses, so index 0 stands for any index
    return (0, st.ghost["emit_item"])


def _ghost_update(I, st):
    node = st.env["node"]
    cls = I.class_of(node, st)
    g = I.hmut(st, st.env["g"])
    if cls.endswith("RelocationAddressNode"):
        g.items["relocated"] = True
    elif cls.endswith("CodePositionNode"):
        g.items["relocated"] = False


def _modifies(I, st):
    prog = st.env["self"]
    res = I.hget(st, prog).fields["resolver"]
    writer = st.env["writer"]
    return {res.oid, I.hget(st, writer).fields["log"].oid, st.env["g"].oid}


def setup_engine(E):
    from vf.pyvc.loops import LoopSpec
    from vf.props import C14 as c14
    E.I.open_hook = c14._open_hook  # the driver contracts shared from C12 open their files through the file-system model
    shapes.use_eval_model(E)
    shapes.use_address_add_contract(E)
    E.I.loop_specs[(P + "emit", 0)] = LoopSpec("Program.emit#nodes", H + "emit_inv", havoc=_havoc, modifies=_modifies, ghost=_ghost, step=H + "emit_step",
                                               item=_item, ghost_update=_ghost_update)


def shape_setpos(bus_case):
    def sh(B):
        rbus, active, mappings, rom_type = make_bus(B, bus_case)
        res = shapes.resolver(B, rom_type=rom_type, bus=rbus)
        B.I.hmut(B.st, res).fields["reloc_address"] = fresh_address(B.I, B.st, active, mappings[bus_case[1]], "ra_entry")
        return {"resolver": res, "target": B.int("target", 0, 0xFFFFFF)}
    return sh


def shape_entry(B):
    res = shapes.resolver(B)
    bus, m = shapes.live_mapping(B, "low_rom_bus", "1")
    B.I.hmut(B.st, res).fields["reloc_address"] = B.inst("a816.cpu.mapping.Address", bus=bus, logical_value=0, mapping=m)
    prog = B.inst("a816.program.Program", resolver=res, logger=None, dump_symbols=False, parser=None, label_pass_addresses=B.list([]))
    return {"program": prog, "writer": B.inst("vf.specs.progmodel.RecordingWriter", log=B.list([]))}


def shape_frame(cls):
    def sh(B):
        res = shapes.resolver(B)
        bus, m = shapes.live_mapping(B, "low_rom_bus", "1")
        B.I.hmut(B.st, res).fields["reloc_address"] = B.inst("a816.cpu.mapping.Address", bus=bus, logical_value=0x8000, mapping=m)
        vn = shapes.value_node(B, B.int("v"), res, defined=B.bool("defined"))
        tok = shapes.token(B)
        f = {"LabelNode": dict(symbol_name="l", resolver=res), "SymbolNode": dict(symbol_name="s", expression=shapes.expression(B, B.int("sv")), resolver=res),
             "BinaryNode": dict(binary_content=B.symseq("bin"), file_path="f.bin", symbol_base="f_bin", resolver=res),
             "LongNode": dict(value_node=vn), "WordNode": dict(value_node=vn), "ByteNode": dict(value_node=vn), "PointerNode": dict(value_node=vn),
             "OpcodeNode": dict(opcode="lda", addressing_mode=B.enum("a816.cpu.cpu_65c816.AddressingMode", "direct"), index=None, value_node=vn, size=None,
                                file_info=tok, resolver=res),
             "IncludeIpsNode": dict(ips_file_path="p", delta=0, blocks=B.list([])),
             "TableNode": dict(table_path="t.tbl", resolver=res), "AsciiNode": dict(text="abc", resolver=res)}[cls]
        node = B.inst(N + cls, **f)
        if "resolver" not in f:
            B.I.hmut(B.st, node).fields["resolver"] = res  # the harness reads node.resolver; these classes hold none
        return {"node": node, "addr": shapes.lorom_address(B)}
    return sh


FRAME_CLASSES = ["LabelNode", "SymbolNode", "BinaryNode", "LongNode", "WordNode", "ByteNode", "PointerNode", "OpcodeNode", "IncludeIpsNode", "TableNode", "AsciiNode"]


def include_ips_emit_cases(E):
    """Program.emit on an `.include_ips` node: EVERY record of the patch is handed to the writer, in file order (C13 runs these too)."""
    from vf.pyvc.loops import LoopSpec
    L = {(P + "emit", 0): LoopSpec("Program.emit#nodes", H + "emit_inv", havoc=_havoc, modifies=_modifies, ghost=_ghost, step=H + "emit_step", item=_item, ghost_update=_ghost_update)}
    C = {"a816.cpu.mapping.Address.__add__": "vf.specs.busmodel.address_add_spec"}
    O = {"a816.parse.ast.expression.eval_expression": "vf.specs.stubs.eval_expression_model"}
    return [Case(H + "program_emit_contract", f"include_ips,{n} blocks,lorom:1", shape("include_ips", ("lorom", "1"), n), target=[P + "emit"], replay=False, loop_specs=L, contracts=C, overrides=O)
            for n in (2, 0)]


def set_position_cases(E):
    return [Case(H + "set_position_contract", f"{bc[0]}:{bc[1]}", shape_setpos(bc), target=["a816.symbols.Resolver.set_position", "a816.symbols.Resolver.get_bus"]) for bc in BUS_CASES]


def cases(E):
    cs = []
    for kind in KINDS:
        for bc in BUS_CASES:
            cs.append(Case(H + "program_emit_contract", f"{kind},{bc[0]}:{bc[1]}", shape(kind, bc), target=[P + "emit"], replay=False, timeout_ms=40000))
    cs.append(Case(H + "program_emit_contract", "include_ips,2 blocks,lorom:1", shape("include_ips", ("lorom", "1"), 2), target=[P + "emit"], replay=False))
    cs.append(Case(H + "program_emit_contract", "include_ips,0 blocks,lorom:1", shape("include_ips", ("lorom", "1"), 0), target=[P + "emit"], replay=False))
    cs += set_position_cases(E)
    cs.append(Case(H + "program_emit_entry_contract", "fresh resolver", shape_entry, target=[P + "emit", P + "resolver_reset"], no_loop_specs=True))
    for cls in FRAME_CLASSES:
        cs.append(Case(H + "node_frame_contract", cls, shape_frame(cls), target=[N + cls + ".emit", N + cls + ".pc_after"]))
    # "the active address mapping" by default is one of the two LIVE built-in buses: their bank sets and offsets against the textbook formulas (C04's contracts)
    from vf.props import C04 as c04
    cs += c04.live_bus_cases(E) + c04.address_contract_cases(E)
    # ... or a user-defined one: what `.map` (Bus.map) registers -- primary and mirror entries with the same window and the same ROM / RAM status
    cs += c04.bus_map_cases(E)
    # ... selected through the file entry points: the mapping named in the call (or, if none is named, the one the Program was set to) is in force
    # when the assembly starts -- for the flat image as for the patch (C12's driver contracts)
    from vf.props import C12 as c12
    cs += [c for c in c12.cases(E) if c.harness.endswith(("assemble_contract", "assemble_as_patch_contract"))]
    return cs


from vf.props.C14 import OPTIONAL_CHECKS as _DRV_OPT  # noqa: E402
OPTIONAL_CHECKS = {"assemble_contract": _DRV_OPT["assemble_contract"], "assemble_as_patch_contract": _DRV_OPT["assemble_as_patch_contract"],
                   "set_position_contract": ["unmapped_rejected", "unmapped_changes_nothing", "mapped", "run_address_is_target", "rom_offset_set", "rom_pc_is_physical",
                                             "ram_offset_unchanged"]}


QUICK_MUTANTS = 1


def bounded(tier, seed):
    from vf.framework import native_call
    return native_call("b_C03.py", {"tier": tier, "seed": seed}, timeout=3000)


def mutants():
    from vf.pyvc.mutate import textual
    return [
        Mutant("emit:phase-check-dropped", P + "emit", textual("if label_pass_address != self.resolver.reloc_address.logical_value:", "if False:"), only_harness="program_emit_contract"),
        Mutant("emit:flush-on-every-node", P + "emit", textual("if isinstance(node, CodePositionNode):", "if isinstance(node, CodePositionNode) or not node_bytes:"), only_harness="program_emit_contract"),
        Mutant("emit:pc-not-advanced", P + "emit", textual("self.resolver.pc += len(node_bytes)", "self.resolver.pc += 0"), only_harness="program_emit_contract"),
        Mutant("emit:block-addr-before-flush-kept", P + "emit", textual("            current_block_addr = self.resolver.pc\n            current_block = b''", "            current_block = b''"), only_harness="program_emit_contract"),
        Mutant("emit:empty-block-flushed", P + "emit", textual("            if len(current_block) > 0:\n                writer", "            if True:\n                writer"), only_harness="program_emit_contract"),
        Mutant("set_position:physical-0-falsy", "a816.symbols.Resolver.set_position", textual("if physical is not None:", "if physical:"), only_harness="set_position"),
        Mutant("emit:final-flush-dropped", P + "emit", textual("\n    if len(current_block) > 0:\n        writer.write_block(current_block, current_block_addr)", "\n    pass"), only_harness="program_emit_contract"),
    ]
