"""C19 - assemblies are independent of each other and repeatable."""
from vf.framework import Case, Mutant

PROP = "C19"
LEVEL = "other"
H = "vf.contracts.c_independence."
FUNCTIONS = ["a816.symbols.Resolver.__init__", "a816.program.Program.__init__", "a816.cpu.mapping.Bus.map", "a816.cpu.mapping.Bus.unmap", "a816.cpu.mapping.Bus.__init__",
             "a816.symbols.Scope.__init__"]
MIN_OBLIGATIONS = 10
EXPLANATION = ("Frame obligations: every write site of a816/ and script/ (attribute / subscript stores, del, augmented assignment, mutating calls, cache "
               "decorators, mutable defaults, class-level mutable attributes, reflection) is classified by the region of the object written; the "
               "property needs every site outside module initialisation to be local, instance-owned or a parameter whose callers pass such objects -- "
               "a module-region or unknown site is reported.  SMT obligations on the real code: two Resolvers / Programs share no mutable object and "
               "start from the same state; the shared default buses refuse map/unmap and are unchanged.  By induction on the history, module-level "
               "state equals its import-time value before every assembly.  Histories vs a fresh process are the bounded part.")
TRUSTED = ["vf/pyvc/frame.py: the syntactic region inference (purpose-built part of the verifier)"]
ASSUMPTIONS = ["no reflection / monkey-patching at run time (absence is itself an obligation of the frame checker)", "logging configuration and the warnings registry do not influence results",
               "the file system is part of the input (included files)", "bounded: sequences of assemblies (valid, failing part-way, custom .map, other ROM types, macro / symbol / table "
               "definitions) before a probe vs the probe alone in a fresh process"]


def cases(E):
    cs = [Case(H + "fresh_resolver_contract", "any symbol value", lambda B: {"v": B.int("v")}, target=FUNCTIONS[:1]),
          Case(H + "fresh_program_contract", "two programs", lambda B: {}, target=FUNCTIONS[1:2])]
    for which in ("low", "high"):
        cs.append(Case(H + "default_bus_refuses_contract", which, lambda B, which=which: {"which": which, "ident": "zz", "lo": B.int("lo"), "hi": B.int("hi")}, target=FUNCTIONS[2:4]))
    return cs


def extra_obligations(E):
    """Frame obligations (discharged by the frame checker, not by the SMT solver). -> (obligations, discharged, violations, details)"""
    from vf.pyvc import frame
    sites = frame.analyse(E.index)
    calls = frame.call_site_regions(E.index, sites)
    recv = frame.module_receiver_calls(E.index, sites)
    nondet = frame.nondeterminism_sites(E.index)
    bad = [s for s in sites if s.region in ("module", "unknown")]
    bad_calls = [c for c in calls if c["region"] in ("module", "unknown")]
    viol = []
    for s in bad:
        viol.append({"ident": s.ident(), "detail": s.as_dict()})
    for c in bad_calls:
        viol.append({"ident": f"frame#call({c['call_site']})", "detail": c})
    for c in recv:
        viol.append({"ident": f"frame#module-receiver({c['call_site']})", "detail": c})
    heuristic = []
    for c in nondet:
        # two families are only suspicious, not decisive (a working directory changed AND restored, a set iterated by an order-insensitive loop):
        # they are reported as undecided and the history / fresh-process stand-in decides
        if "process-wide state" in c["call"] or "hash seed" in c["call"]:
            heuristic.append({"ident": f"determinism#site({c['site']})", "detail": c})
        else:
            viol.append({"ident": f"determinism#site({c['site']})", "detail": c})
    total = len(sites) + len(calls) + 2
    import collections
    return {"obligations": total, "discharged": total - len(bad) - len(bad_calls) - (1 if recv else 0) - (1 if nondet else 0) - (0 if not heuristic else 0), "violations": viol, "undecided": heuristic,
            "details": {"write_sites": len(sites), "by_region": dict(collections.Counter(s.region for s in sites)), "caller_obligations": len(calls),
                        "samples": [s.as_dict() for s in sites[:3]] + calls[:2]}}


def bounded(tier, seed):
    from vf.framework import native_call
    return native_call("b_C19.py", {"tier": tier, "seed": seed}, timeout=3000)
