"""Shared symbolic input shapes (heap objects of the real classes with symbolic fields)."""
import z3

from vf.pyvc.values import HInst

CPU = "a816.cpu.cpu_65c816."


def live_mapping(B, bus_attr, ident):
    bus = B.glob("a816.symbols", bus_attr)
    mappings = B.I.hget(B.st, B.I.hget(B.st, bus).fields["mappings"])
    return bus, mappings.items[ident]


def lorom_address(B, name="addr", room=8):
    """An in-window ROM Address of the live LoROM bus, primary range, with `room` bytes before the range ends."""
    bus, m = live_mapping(B, "low_rom_bus", "1")
    a = B.int(name)
    B.assume(z3.And(a >= 0x008000, a <= 0x6FFFFF - room, a % 0x10000 >= 0x8000))
    return B.inst("a816.cpu.mapping.Address", bus=bus, logical_value=a, mapping=m)


def token(B, ttype="OPCODE", value="lda"):
    return B.inst("a816.parse.tokens.Token", type=B.enum("a816.parse.tokens.TokenType", ttype), value=value, position=None)


def scope(B, resolver=None, parent=None, symbols=None, cls="a816.symbols.Scope", **extra):
    return B.inst(cls, symbols=B.dict(dict(symbols or {})), code_symbols=B.dict({}), parent=parent, resolver=resolver, table=None,
                  labels=B.dict({}), **extra)


def resolver(B, pc=None, reloc_address=None, rom_type="low_rom", bus=None):
    root = scope(B)
    if bus is None:
        bus = B.inst("a816.cpu.mapping.Bus", name=None, lookup=B.dict({}), inverse_lookup=B.dict({}), mappings=B.dict({}), editable=True, internal_id=0)
    r = B.inst("a816.symbols.Resolver", reloc=False, a=False, x=False, rom_type=B.enum(CPU + "RomType", rom_type), current_scope_index=0,
               last_used_scope=0, current_scope=root, scopes=B.list([root]), bus=bus, pc=pc if pc is not None else B.int("pc"),
               reloc_address=reloc_address)
    B.I.hmut(B.st, root).fields["resolver"] = r
    return r


def expression(B, v, defined=True, name="e"):
    """A symbolic expression AST node: its value is carried as ghost fields read by stubs.eval_expression_model."""
    tok = token(B, "NUMBER", "0")
    return B.inst("a816.parse.ast.nodes.ExpressionAstNode", kind="expression", file_info=tok, tokens=B.list([]), ghost_value=v, ghost_defined=defined)


def value_node(B, v, res, defined=True):
    return B.inst("a816.parse.nodes.ExpressionNode", expression=expression(B, v, defined), resolver=res, file_info=token(B))


def use_eval_model(E):
    E.I.overrides["a816.parse.ast.expression.eval_expression"] = "vf.specs.stubs.eval_expression_model"


def use_address_add_contract(E):
    E.I.contracts["a816.cpu.mapping.Address.__add__"] = "vf.specs.busmodel.address_add_spec"
