"""Shared symbolic input shapes (heap objects of the real classes with symbolic fields)."""
import z3

from vf.pyvc.values import HInst

CPU = "a816.cpu.cpu_65c816."


def live_mapping(B, bus_attr, ident):
    bus = B.glob("a816.symbols", bus_attr)
    mappings = B.I.hget(B.st, B.I.hget(B.st, bus).fields["mappings"])
    return bus, mappings.items[ident]


def lorom_address(B, name="addr", room=8):
    """An in-window ROM Address of the live LoROM bus, primary range, with `room` bytes before the range ends."""
    bus, m = live_mapping(B, "low_rom_bus", "1")
    a = B.int(name)
    B.assume(z3.And(a >= 0x008000, a <= 0x6FFFFF - room, a % 0x10000 >= 0x8000))
    return B.inst("a816.cpu.mapping.Address", bus=bus, logical_value=a, mapping=m)


def token(B, ttype="OPCODE", value="lda"):
    return B.inst("a816.parse.tokens.Token", type=B.enum("a816.parse.tokens.TokenType", ttype), value=value, position=None)


def scope(B, resolver=None, parent=None, symbols=None, cls="a816.symbols.Scope", **extra):
    return B.inst(cls, symbols=B.dict(dict(symbols or {})), code_symbols=B.dict({}), parent=parent, resolver=resolver, table=None,
                  labels=B.dict({}), **extra)


def resolver(B, pc=None, reloc_address=None, rom_type="low_rom", bus=None):
    root = scope(B)
    if bus is None:
        bus = B.inst("a816.cpu.mapping.Bus", name=None, lookup=B.dict({}), inverse_lookup=B.dict({}), mappings=B.dict({}), editable=True, internal_id=0)
    r = B.inst("a816.symbols.Resolver", reloc=False, a=False, x=False, rom_type=B.enum(CPU + "RomType", rom_type), current_scope_index=0,
               last_used_scope=0, current_scope=root, scopes=B.list([root]), bus=bus, pc=pc if pc is not None else B.int("pc"),
               reloc_address=reloc_address)
    B.I.hmut(B.st, root).fields["resolver"] = r
    return r


def expression(B, v, defined=True, name="e"):
    """A symbolic expression AST node: its value is carried as ghost fields read by stubs.eval_expression_model."""
    tok = token(B, "NUMBER", "0")
    return B.inst("a816.parse.ast.nodes.ExpressionAstNode", kind="expression", file_info=tok, tokens=B.list([]), ghost_value=v, ghost_defined=defined)


def value_node(B, v, res, defined=True):
    return B.inst("a816.parse.nodes.ExpressionNode", expression=expression(B, v, defined), resolver=res, file_info=token(B))


def use_eval_model(E):
    E.I.overrides["a816.parse.ast.expression.eval_expression"] = "vf.specs.stubs.eval_expression_model"


def use_address_add_contract(E):
    E.I.contracts["a816.cpu.mapping.Address.__add__"] = "vf.specs.busmodel.address_add_spec"


# ------------------------------------------------------------------------------------------------ AST builders
A = "a816.parse.ast.nodes."


def tok(B, ttype, value):
    return token(B, ttype, value)


def expr_ident(B, name):
    t = tok(B, "IDENTIFIER", name)
    return B.inst(A + "ExpressionAstNode", kind="expression", file_info=t, tokens=B.list([B.inst(A + "Term", token=t)]))


def expr_num(B, text):
    t = tok(B, "NUMBER", str(text))
    return B.inst(A + "ExpressionAstNode", kind="expression", file_info=t, tokens=B.list([B.inst(A + "Term", token=t)]))


def expr_binop(B, left, op, right):
    """left/right: ("id", name) | ("num", text)"""
    def term(x):
        return B.inst(A + "Term", token=tok(B, "IDENTIFIER" if x[0] == "id" else "NUMBER", str(x[1])))
    l, r = term(left), term(right)
    o = B.inst(A + "BinOp", token=tok(B, "OPERATOR", op))
    return B.inst(A + "ExpressionAstNode", kind="expression", file_info=B.I.hget(B.st, l).fields["token"], tokens=B.list([l, o, r]))


def ast_label(B, name):
    return B.inst(A + "LabelAstNode", kind="label", file_info=tok(B, "LABEL", name), label=name)


def ast_data(B, kind, exprs):
    return B.inst(A + "DataNode", kind=kind, file_info=tok(B, "KEYWORD", kind), data=B.list(exprs))


def ast_compound(B, body):
    return B.inst(A + "CompoundAstNode", kind="compound", file_info=tok(B, "LBRACE", "{"), body=B.list(body))


def ast_block(B, body):
    return B.inst(A + "BlockAstNode", kind="block", file_info=tok(B, "LBRACE", "{"), body=B.list(body))


def ast_if(B, cond_expr, then_body, else_body):
    return B.inst(A + "IfAstNode", kind="if", file_info=tok(B, "KEYWORD", "if"), expression=cond_expr, block=ast_compound(B, then_body),
                  else_block=ast_compound(B, else_body) if else_body is not None else None)


def ast_for(B, var, lo_expr, hi_expr, body):
    return B.inst(A + "ForAstNode", kind="for", file_info=tok(B, "KEYWORD", "for"), symbol=var, min_value=lo_expr, max_value=hi_expr, body=ast_compound(B, body))


def ast_assign(B, name, expr):
    return B.inst(A + "AssignAstNode", kind="assign", file_info=tok(B, "IDENTIFIER", name), symbol=name, value=expr)


def ast_symbol(B, name, expr):
    return B.inst(A + "SymbolAffectationAstNode", kind="symbol", file_info=tok(B, "IDENTIFIER", name), symbol=name, value=expr)


def ast_macro(B, name, params, body):
    return B.inst(A + "MacroAstNode", kind="macro", file_info=tok(B, "IDENTIFIER", name), name=name, args=B.list(params), block=ast_block(B, body))


def ast_apply(B, name, args):
    return B.inst(A + "MacroApplyAstNode", kind="macro_apply", file_info=tok(B, "IDENTIFIER", name), name=name, args=B.list(args))


def ast_scope(B, name, body):
    return B.inst(A + "ScopeAstNode", kind="scope", file_info=tok(B, "KEYWORD", "scope"), name=name, body=ast_block(B, body))


def ast_code_lookup(B, name):
    return B.inst(A + "CodeLookupAstNode", kind="code_lookup", file_info=tok(B, "DOUBLE_LBRACE", "{{"), symbol=name)


def root_symbols(B, res, d):
    root = B.I.hget(B.st, res).fields["current_scope"]
    B.I.hmut(B.st, B.I.hget(B.st, root).fields["symbols"]).items.update(d)
    return root
