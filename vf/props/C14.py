"""C14 - a failed assembly is never reported as success."""
from vf.framework import Case, Mutant
from vf.props import shapes

PROP = "C14"
LEVEL = "other"
H = "vf.contracts.c_drivers."
P = "a816.program.Program."
FUNCTIONS = [P + "assemble_with_emitter", P + "assemble", P + "assemble_as_patch", P + "assemble_string_with_emitter", "a816.parse.nodes.SymbolNode.pc_after",
             "a816.parse.mzparser.MZParser.parse_as_ast", "a816.parse.tokens.Token.trace"]
from vf.props import C15 as _c15  # noqa: E402
FUNCTIONS = FUNCTIONS + _c15.PARSER_FUNCTIONS
MIN_OBLIGATIONS = 30
EXPLANATION = ("The driver functions are loop-free: each is executed path-completely on the real code with its callee replaced by an assumed "
               "outcome contract (returns None / returns an error message / raises NodeError, RuntimeError, KeyError, struct.error, ValueError / "
               "source file missing), and the status, the propagated exception and the 'Success !' log event are checked for every outcome. "
               "That each class of definite error really produces one of those outcomes is the bounded fault-injection part."
               "  SYNTAX ERRORS ARE LOCATED: every parser state function, run on a token list of ARBITRARY length whose tokens all carry a position and which ends with its only EOF token (the scanner's output shape), raises ParserSyntaxError only with a token OF THE LIST -- never the position-less end marker Parser.current() makes up beyond the end -- and returns without having consumed the end marker (modular: callee contracts at call sites, loops cut at invariants; second contract of the parser functions, vf/contracts/c_parser.py parser_error_location_contract)." '  Token.trace of a located token is never None and MZParser.parse_as_ast turns a located syntax error into a returned error message (with the scanner / parser outcomes assumed).')
TRUSTED = ["vf/specs/stubs.py (outcome contracts of the callees, open() model)"]
ASSUMPTIONS = ["parser_error_location_contract: the token list has the scanner's output shape (every token has a position; exactly one EOF token, last, with empty text) -- assumed in the shape, exercised by the stand-ins; parse_opcode / parse_symbol_affectation / parse_keyword are entered on a token their caller has classified (call-site obligation, discharged at every call site reached)",
               "the in-memory assembler's possible outcomes are: None, an error string, or an exception (stubs.assemble_string_model)",
               "open(): ghost file system; missing file -> FileNotFoundError", "logger calls recorded as events; logging configuration does not change results",
               "bounded: every error class injected at several statement positions through the string API, assemble, assemble_as_patch and the CLI (subprocess)"]
NATIVE_OVERRIDES = {}

OVR_AWE = {P + "assemble_string_with_emitter": "vf.specs.stubs.assemble_string_model", "a816.program.open": "vf.specs.stubs.open_model"}
OVR_TOP = {P + "assemble_with_emitter": "vf.specs.stubs.assemble_with_emitter_model", "a816.program.open": "vf.specs.stubs.open_model"}
OVR_STR = {"a816.parse.mzparser.MZParser.parse": "vf.specs.stubs.parser_parse_model", P + "resolve_labels": "vf.specs.stubs.resolve_labels_model",
           P + "emit": "vf.specs.stubs.emit_model"}


def _open_hook(I, args, kwargs, st, node):
    fn, mod, cls = I.index.functions["vf.specs.stubs.open_model"]
    return I.call_function(fn, mod, cls, list(args), dict(kwargs), st, "vf.specs.stubs.open_model")


def setup_engine(E):
    E.I.open_hook = _open_hook


def program(B, rom_type="low_rom"):
    res = shapes.resolver(B, rom_type=rom_type)
    parser = B.inst("a816.parse.mzparser.MZParser", resolver=res)
    return B.inst("a816.program.Program", resolver=res, logger=B.lift(__import__("logging").getLogger("x816")), dump_symbols=False, parser=parser, label_pass_addresses=B.list([]))


def emitter(B):
    from vf.pyvc.models import new_file
    return B.inst("a816.writers.IPSWriter", file=new_file(B.I, B.st, "wb"), _regions=B.list([]), _copier_header=False)


def shape_located_token(tt):
    def sh(B):
        import z3
        f = B.inst("a816.parse.tokens.File", filename="t.s", lines=B.list(["lda (", "nop", ""]))
        line = B.int("line", 0, 2)
        pos = B.inst("a816.parse.tokens.Position", line=line, column=B.int("column", 0, 40), file=f)
        return {"token": B.inst("a816.parse.tokens.Token", type=B.enum("a816.parse.tokens.TokenType", tt), value="" if tt == "EOF" else "name", position=pos)}
    return sh


def shape_symbol_node(deferred):
    def sh(B):
        res = shapes.resolver(B)
        root = B.I.hget(B.st, res).fields["current_scope"]
        inner = shapes.scope(B, res, root)
        B.I.hmut(B.st, B.I.hget(B.st, res).fields["scopes"]).items.append(inner)
        B.I.hmut(B.st, res).fields["current_scope"] = inner
        v, d = B.int("v"), B.bool("defined")
        node = B.inst("a816.parse.nodes.SymbolNode", symbol_name="name", expression=shapes.expression(B, v, defined=d), resolver=res, evaluation_scope=root if deferred else None)
        return {"node": node, "addr": shapes.lorom_address(B), "v": v, "defined": d, "outer_scope": root}
    return sh


def cases(E):
    cs = []
    for exists in (True, False):
        cs.append(Case(H + "assemble_with_emitter_contract", f"source file exists={exists}",
                       lambda B, exists=exists: {"program": program(B), "emitter": emitter(B), "outcome": B.int("outcome"), "file_exists": exists},
                       target=[P + "assemble_with_emitter"], overrides=OVR_AWE))
    for outcome in (0, 7):
        for mp in (None, "low", "low2", "high"):
            cs.append(Case(H + "assemble_contract", f"callee {'returns a status' if outcome == 0 else 'raises OSError'},mapping={mp}",
                           lambda B, outcome=outcome, mp=mp: {"program": program(B, "high_rom" if mp is None else "low_rom"), "status": B.int("status"), "outcome": outcome, "mapping": mp},
                           target=[P + "assemble"], overrides=OVR_TOP))
        for mapping in (None, "low", "high"):
            for copier in (False, True):
                cs.append(Case(H + "assemble_as_patch_contract", f"outcome={outcome},mapping={mapping},copier={copier}",
                               lambda B, outcome=outcome, mapping=mapping, copier=copier: {"program": program(B, "high_rom" if mapping is None else "low_rom"), "status": B.int("status"), "outcome": outcome,
                                                                                          "mapping": mapping, "copier": copier},
                               target=[P + "assemble_as_patch"], overrides=OVR_TOP))
    for pe in (None, "syntax error"):
        for ro in (0, 1):
            for eo in (0, 1):
                cs.append(Case(H + "assemble_string_contract", f"parse_error={pe!r},resolve={ro},emit={eo}",
                               lambda B, pe=pe, ro=ro, eo=eo: {"program": program(B), "emitter": emitter(B), "parse_error": pe, "resolve_outcome": ro, "emit_outcome": eo},
                               target=[P + "assemble_string_with_emitter"], overrides=OVR_STR))
    for deferred in (False, True):
        cs.append(Case("vf.contracts.c_errors.symbol_node_contract", "`name = expr`" if not deferred else "deferred macro argument evaluated in the call-site scope", shape_symbol_node(deferred),
                       target=["a816.parse.nodes.SymbolNode.pc_after"], overrides={"a816.parse.ast.expression.eval_expression": "vf.specs.stubs.eval_expression_model"}))
    # no generator may swallow an error of the statements it expands (callee contracts raise every error class an expansion can fail with)
    from vf.props import expansion
    cs += expansion.cases(E)
    # the top-level parser stops only at the end of the input (a token it cannot place is a syntax error, not a silent stop)
    from vf.props import C15 as c15
    cs += [c for c in c15.parser_cases(E) if c.label == "parse_initial"]
    # a syntax error always carries a token with a position: MZParser.parse_as_ast reports that token's trace, and no trace would read as success
    cs += c15.parser_location_cases(E)
    for tt in ("EOF", "IDENTIFIER"):
        cs.append(Case(H + "token_trace_contract", f"{tt} token with a position", shape_located_token(tt), target=["a816.parse.tokens.Token.trace"]))
        cs.append(Case(H + "parse_as_ast_reports_contract", f"the parser fails on a located {tt} token", shape_located_token(tt), target=["a816.parse.mzparser.MZParser.parse_as_ast"],
                       overrides={"a816.parse.scanner.Scanner.scan": "vf.specs.stubs.scanner_scan_model", "a816.parse.parser.Parser.parse": "vf.specs.stubs.parser_parse_raises_model"}))
    return cs


OPTIONAL_CHECKS = {"parser_function_contract": ["fails_with_a_syntax_error_only", "rejects_end_of_input", "whole_input_consumed", "progress"],
                   "assemble_with_emitter_contract": ["exception_only_on_failure", "no_success_announced_on_exception", "same_call"],
                   "assemble_contract": ["exception_only_when_callee_raises", "status_propagated", "sfc_writer_on_output_file", "mapping_applied", "mapping_kept_when_none_is_given"],
                   "assemble_as_patch_contract": ["exception_only_when_callee_raises", "status_propagated", "ips_writer_on_output_file", "patch_framing", "mapping_applied",
                                                  "mapping_kept_when_none_is_given"],
                   "assemble_string_contract": ["raises_only_when_a_phase_raised", "none_only_when_all_phases_clean", "phases_in_order", "error_message_returned",
                                                "nothing_emitted_after_parse_error"]}


def bounded(tier, seed):
    from vf.framework import native_call
    return native_call("b_C14.py", {"tier": tier, "seed": seed}, timeout=3000)


def mutants():
    from vf.pyvc.mutate import textual
    return [
        Mutant("assemble_with_emitter:RuntimeError->0", P + "assemble_with_emitter", textual("return -1", "return 0", 5), only_harness="assemble_with_emitter"),
        Mutant("assemble_as_patch:status-dropped", P + "assemble_as_patch", textual("return exit_code", "return 0"), only_harness="assemble_as_patch"),
        Mutant("parse_as_ast:syntax-error-dropped", "a816.parse.mzparser.MZParser.parse_as_ast", textual("error = e.token.trace()", "error = None"), only_harness="parse_as_ast_reports"),
        Mutant("parse_code_lookup:error-carries-the-token-after-the-offending-one", "a816.parse.parser_states.parse_code_lookup",
               textual("expect_token(p.next(), TokenType.DOUBLE_RBRACE)", "p.next()\n    expect_token(p.current(), TokenType.DOUBLE_RBRACE)"), only_harness="parser_error_location"),
        Mutant("assemble_string:emit-skipped-on-dump", P + "assemble_string_with_emitter", textual("self.emit(nodes, emitter)", "pass"), only_harness="assemble_string"),
    ]
