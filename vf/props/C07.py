"""C07 - data directives emit the exact little-endian bytes of their values."""
from vf.framework import Case, Mutant
from vf.props import shapes

PROP = "C07"
LEVEL = "other"
H = "vf.contracts.c_cpu."
N = "a816.parse.nodes."
FUNCTIONS = [N + c + m for c in ("ByteNode", "WordNode", "LongNode", "PointerNode") for m in (".emit", ".pc_after")] + \
            ["a816.parse.codegen.generate_db", "a816.parse.codegen.generate_dw", "a816.parse.codegen.generate_dl"]
FUNCTIONS += [N + "BinaryNode.__init__", N + "BinaryNode.emit", N + "BinaryNode.pc_after", "a816.parse.codegen.generate_db", "a816.parse.codegen.generate_dw", "a816.parse.codegen.generate_dl"]
MIN_OBLIGATIONS = 8
EXPLANATION = ("data_node_contract runs the real ByteNode/WordNode/LongNode/PointerNode emit and pc_after on a symbolic value (every integer, "
               "negative and over-wide included) and a symbolic in-window LoROM address; little-endian truncation and the layout size are "
               "VCs discharged by z3.  END TO END from the token list of a directive (.db/.dw/.dl/.pointer with 1, 2, 4 identifiers bound to any integers): the real parser, "
               "code generator, expression evaluator and emit give the values in order, truncated little-endian.  Expression lists of ARBITRARY length: the loops of generate_db / generate_dw / generate_dl are cut with a per-iteration contract -- for the "
               "arbitrary expression of the list exactly one node is appended, of the directive's width class, evaluating exactly that expression (hence one value per "
               "expression, in list order); the parser side (parse_expression_list_inner, DataNode's copy loop) terminates and consumes the list (C15).  "
               "Text -> tokens, .ascii and .incbin (file system) are checked by the bounded stand-in."
               '  The quoted-string helper of .ascii / .text / .include / .incbin / .table is proved on a QUOTED_STRING token of any text: exactly the two delimiters are dropped.')
TRUSTED = ["vf/specs/le.py"]
ASSUMPTIONS = ["eval_expression modelled as a function of (expression, environment) (vf/specs/stubs.py); verified separately in C06",
               "Address.__add__ used through its contract (proved in C04)", "struct.pack model",
               "bounded: list parsing from text, .ascii, .incbin (file system) are exercised on generated programs only"]


def _open_hook(I, args, kwargs, st, node):
    fn, mod, cls = I.index.functions["vf.specs.stubs.open_model"]
    return I.call_function(fn, mod, cls, list(args), dict(kwargs), st, "vf.specs.stubs.open_model")


def setup_engine(E):
    shapes.use_eval_model(E)
    shapes.use_address_add_contract(E)
    E.I.open_hook = _open_hook


def shape(kind):
    def sh(B):
        v = B.int("v")
        res = shapes.resolver(B)
        return {"kind": kind, "vn": shapes.value_node(B, v, res), "v": v, "addr": shapes.lorom_address(B)}
    return sh


def shape_gen(kind, n):
    def sh(B):
        res = shapes.resolver(B)
        exprs = [shapes.expression(B, B.int(f"v{i}")) for i in range(n)]
        tok = shapes.token(B, "KEYWORD", kind)
        node = B.inst("a816.parse.ast.nodes.DataNode", kind=kind, file_info=tok, data=B.list(exprs))
        return {"kind": kind, "node": node, "resolver": res, "tok": tok, "exprs": B.list(exprs)}
    return sh


def shape_bin(B):
    import z3
    res = shapes.resolver(B)
    # the directive is written in an INNER scope (a block, a macro application, a loop iteration): its symbols belong to that scope
    root = B.I.hget(B.st, res).fields["current_scope"]
    inner = shapes.scope(B, res, root)
    B.I.hmut(B.st, B.I.hget(B.st, res).fields["scopes"]).items.append(inner)
    B.I.hmut(B.st, res).fields["current_scope"] = inner
    content = B.symseq("content")
    addr = shapes.lorom_address(B, room=0)
    # the quantifier: lengths that may cross bank ends but stay inside the mapped ROM range
    B.assume(B.symbols["content_len"] + ((B.symbols["addr"] / 65536) * 32768 + B.symbols["addr"] % 65536 - 32768) < 0x380000)
    node = B.inst("a816.parse.nodes.BinaryNode", binary_content=content, file_path="data/file.bin", symbol_base="data_file_bin", resolver=res)
    return {"node": node, "resolver": res, "addr": addr, "content": content}


def shape_directive(kind, n):
    def sh(B):
        res = shapes.resolver(B)
        names = ["a", "b", "c", "d"][:n]
        vals = [B.int("v_" + x) for x in names]
        shapes.root_symbols(B, res, dict(zip(names, vals)))
        items = [("KEYWORD", kind)]
        for i, x in enumerate(names):
            if i:
                items.append(("COMMA", ","))
            items.append(("IDENTIFIER", x))
        items.append(("EOF", ""))
        toks = [B.inst("a816.parse.tokens.Token", type=B.enum("a816.parse.tokens.TokenType", tt), value=v, position=None) for tt, v in items]
        p = B.inst("a816.parse.parser.Parser", tokens=B.list(toks), pos=0, initial_state=None)
        return {"p": p, "resolver": res, "addr": shapes.lorom_address(B), "kind": kind, "values": B.list(vals)}
    return sh


def shape_quoted(B):
    # the token text as the scanner delivers it: quote, any characters (a quote only after a backslash is the scanner's business: ANY text here), quote
    text = B.text("token_text", [("lit", "'"), ("run", "body", "ab'\\ ", 0), ("lit", "'")])[0]
    tok = B.inst("a816.parse.tokens.Token", type=B.enum("a816.parse.tokens.TokenType", "QUOTED_STRING"), value=text, position=None)
    eof = B.inst("a816.parse.tokens.Token", type=B.enum("a816.parse.tokens.TokenType", "EOF"), value="", position=None)
    return {"p": B.inst("a816.parse.parser.Parser", tokens=B.list([tok, eof]), pos=0, initial_state=None)}


def cases(E):
    cs = [Case(H + "data_statement_bytes_contract", f".{k} with {n} values, from tokens", shape_directive(k, n), drop_overrides=["a816.parse.ast.expression.eval_expression"],
               target=["a816.parse.parser_states.parse_keyword", "a816.parse.parser_states.parse_expression_list_inner", "a816.parse.codegen._code_gen"])
          for k in ("db", "dw", "dl", "pointer") for n in (1, 2, 4)]
    cs += [Case(H + "data_node_contract", k, shape(k), target=FUNCTIONS) for k in ("db", "dw", "dl", "pointer")]
    for k in ("db", "dw", "dl", "pointer"):
        for n in (0, 1, 3):
            cs.append(Case(H + "generate_data_contract", f"{k},{n} expressions", shape_gen(k, n),
                           target=["a816.parse.codegen.generate_" + (k if k != "pointer" else "dl")]))
    cs.append(Case(H + "binary_node_init_contract", "any file content",
                   lambda B: {"path": "data/file.bin", "resolver": shapes.resolver(B), "content": B.symseq("content")}, target=[N + "BinaryNode.__init__"],
                   overrides={"a816.parse.nodes.open": "vf.specs.stubs.open_model"}))
    cs.append(Case(H + "binary_node_contract", "any content, any in-window LoROM address", shape_bin,
                   target=[N + "BinaryNode.emit", N + "BinaryNode.pc_after"]))
    cs.append(Case(H + "quoted_string_directive_contract", "a QUOTED_STRING token of any text (quotes and backslashes inside included)", shape_quoted,
                   target=["a816.parse.parser_states.parse_directive_with_quoted_string"]))
    from vf.props import expansion
    cs += expansion.c07_cases(E)
    return cs


OPTIONAL_CHECKS = {"generate_data_contract": ["node_kind", "in_order"],
                   "data_statement_bytes_contract": ["value_in_list_order_le_truncated", "occupies_its_width"],
                   "generator_contract": ["enclosing_scope_current_again", "scope_cursor_consistent", "scopes_only_appended", "returns_a_list"]}
QUICK_MUTANTS = 8


def bounded(tier, seed):
    from vf.framework import native_call
    return native_call("b_C07.py", {"tier": tier, "seed": seed})


def mutants():
    from vf.pyvc.mutate import textual
    G_ = "a816.parse.codegen."
    return [
        Mutant("generate_dw:byte-nodes", G_ + "generate_dw", textual("code.append(WordNode(", "code.append(ByteNode("), only_harness="generator_contract"),
        Mutant("generate_db:value-emitted-twice", G_ + "generate_db", textual("        code.append(ByteNode(ExpressionNode(expr, resolver, file_info)))", "        code.append(ByteNode(ExpressionNode(expr, resolver, file_info)))\n        code.append(ByteNode(ExpressionNode(expr, resolver, file_info)))"), only_harness="generator_contract"),
        Mutant("LongNode.emit:high-byte-unmasked", N + "LongNode.emit", textual("value >> 16 & 255", "value >> 16")),
        Mutant("WordNode.emit:big-endian", N + "WordNode.emit", textual("'<H'", "'>H'")),
        Mutant("ByteNode.emit:abs", N + "ByteNode.emit", textual("self.value_node.get_value() & 255", "abs(self.value_node.get_value()) & 255")),
        Mutant("WordNode.pc_after:+3", N + "WordNode.pc_after", textual("current_pc + 2", "current_pc + 3")),
    ]
