"""C20 - legacy address conversions agree with the assembler's mapping."""
from vf.framework import Case, Mutant

PROP = "C20"
LEVEL = "proof"
H = "vf.contracts.c_legacy."
FUNCTIONS = ["a816.cpu.cpu_65c816.rom_to_snes", "a816.cpu.cpu_65c816.snes_to_rom", "script.formulas.long_low_rom_pointer",
             "script.formulas.base_relative_16bits_pointer_formula", "a816.symbols.Resolver.set_position", "a816.symbols.Resolver.get_bus"]
MIN_OBLIGATIONS = 12
EXPLANATION = ("Harnesses in vf/contracts/c_legacy.py run the real rom_to_snes / snes_to_rom / pointer closures on a symbolic offset "
               "(every offset of the 4 MiB space, every (base, pointer) pair) and compare with the textbook address formula, the live "
               "built-in buses' Address.physical, and little-endian packing; discharged by z3 over unbounded ints.")
TRUSTED = ["vf/specs/busmath.py, vf/specs/le.py (oracles)"]
ASSUMPTIONS = ["int(x / 0x8000): float division is exact for |x| < 2**53 and a power-of-two divisor (IEEE-754); the range side condition is "
               "itself discharged as an obligation (float-exact)", "struct.pack model (range check then little-endian bytes)"]


def shape(mode):
    def sh(B):
        return {"o": B.int("o"), "mode": B.enum("a816.cpu.cpu_65c816.RomType", mode), "lorom_bus": B.glob("a816.symbols", "low_rom_bus"),
                "hirom_bus": B.glob("a816.symbols", "high_rom_bus")}
    return sh


def cases(E):
    cs = [Case(H + "rom_to_snes_contract", f"mode={m}", shape(m), target=FUNCTIONS[:2]) for m in ("low_rom", "low_rom_2", "high_rom")]
    cs.append(Case(H + "long_low_rom_pointer_contract", "any base,p", lambda B: {"base": B.int("base"), "p": B.int("p")}, target=FUNCTIONS[2:3]))
    cs.append(Case(H + "base_relative_contract", "any base,v", lambda B: {"base": B.int("base"), "v": B.symbytes("v", 2)}, target=FUNCTIONS[3:4]))
    # "the address mapping the assembler uses" is reached through Resolver.set_position: the write position it sets for a mapped address IS
    # Address.physical (also for file offset 0), so agreeing with the Bus means agreeing with where the assembler writes (C03's contract)
    from vf.props import C03 as c03
    cs += c03.set_position_cases(E)
    # ... and how the assembler ADVANCES through that mapping (the address after n emitted bytes is the address of offset + n): C04's contracts
    from vf.props import C04 as c04
    cs += c04.address_contract_cases(E) + c04.live_bus_cases(E)
    return cs


def setup_engine(E):
    from vf.props import C03 as c03
    if hasattr(c03, "setup_engine"):
        c03.setup_engine(E)


from vf.props.C03 import OPTIONAL_CHECKS as _C03_OPT  # noqa: E402
OPTIONAL_CHECKS = {"set_position_contract": _C03_OPT["set_position_contract"]}


def bounded(tier, seed):
    from vf.framework import native_call
    return native_call("b_C20.py", {"tier": tier, "seed": seed})


def mutants():
    from vf.pyvc.mutate import textual
    q = "a816.cpu.cpu_65c816."
    return [
        Mutant("snes_to_rom:0x808000->0x818000", q + "snes_to_rom", textual("address >= 8421376", "address >= 8486912")),
        Mutant("rom_to_snes:low2-bank-0x81", q + "rom_to_snes", textual("bank += 128", "bank += 129")),
        Mutant("long_low_rom_pointer:base-dropped", "script.formulas.long_low_rom_pointer", textual("pointer + base", "pointer")),
        Mutant("rom_to_snes:hirom-0x400000", q + "rom_to_snes", textual("address + 12582912", "address + 4194304")),
    ]
