"""C05 - relative branches encode the true displacement or are rejected."""
import z3

from vf.framework import Case, Mutant
from vf.props import shapes

PROP = "C05"
LEVEL = "proof"
H = "vf.contracts.c_cpu."
CPU = "a816.cpu.cpu_65c816."
FUNCTIONS = [CPU + "RelativeJumpOpcode.emit", CPU + "RelativeJumpOpcode.supposed_length", CPU + "OpcodeWithoutOperand.emit", "a816.symbols.Resolver.get_bus"]
MIN_OBLIGATIONS = 100
EXPLANATION = ("branch_contract runs the real RelativeJumpOpcode.emit of every branch mnemonic of the live table with a symbolic run address, "
               "symbolic target and the live LoROM / HiROM buses (and a user-mapped bus): every displacement, every placement incl. window edges, "
               "primary and mirror ranges, RAM run addresses (after @=) and RAM/unmapped targets.  The precondition resolver.pc == file offset "
               "of the run address is invariant P of Program.emit, proved in C03.")
TRUSTED = ["vf/specs/isa65816.py (branch opcodes)", "vf/specs/busmath.py"]
ASSUMPTIONS = ["precondition P (resolver.pc is the file offset of the ROM run address) is discharged in C03 (Program.emit invariant), assumed here",
               "eval_expression modelled as a function of (expression, environment); verified in C06", "struct.pack('b') model: range check -128..127",
               "bounded: text -> branch statement and label resolution are exercised by the API sweep only"]


def setup_engine(E):
    shapes.use_eval_model(E)


def shape(mn, bus_attr, rom_type, ident):
    def sh(B):
        from vf.specs import isa65816
        table = B.glob(CPU[:-1], "snes_opcode_table")
        modes = B.I.hget(B.st, B.I.hget(B.st, table).items[mn]).items
        op = [v for k, v in modes.items() if k.name == "direct"][0]
        bus, m = shapes.live_mapping(B, bus_attr, ident)
        a = B.int("a")
        mo = B.I.hget(B.st, m).fields
        B.assume(z3.And(a / 65536 >= mo["bank_range"][0], a / 65536 <= mo["bank_range"][1]))
        if bus_attr == "high_rom_bus" and ident == "1":
            B.assume(a / 65536 <= 0x7D)  # banks 0x7E-0x7F of the declared range are shadowed by the RAM entry
        addr = B.inst("a816.cpu.mapping.Address", bus=bus, logical_value=a, mapping=m)
        res = shapes.resolver(B, reloc_address=addr, rom_type=rom_type)
        t = B.int("t")
        return {"op": op, "vn": shapes.value_node(B, t, res), "resolver": res, "t": t, "expected_opcode": isa65816.ISA[mn]["rel8"]}
    return sh


def cases(E):
    from vf.specs import isa65816
    table = E.lifter.module("a816.cpu.cpu_65c816").snes_opcode_table
    cs = []
    for mn in sorted(m for m in table if m in isa65816.BRANCHES):
        for bus_attr, rom_type, idents in (("low_rom_bus", "low_rom", ("1", "1_mirror", "2")), ("high_rom_bus", "high_rom", ("1", "1_mirror", "2"))):
            for ident in idents:
                if mn != "bra" and (ident == "1_mirror" or bus_attr == "high_rom_bus"):
                    continue  # the emitter code is shared; all mnemonics x LoROM primary/RAM, bra x everything
                cs.append(Case(H + "branch_contract", f"{mn},{rom_type},run address in entry {ident}", shape(mn, bus_attr, rom_type, ident),
                               target=FUNCTIONS[:3]))
    # which run addresses are ROM (branch encoded) and which are RAM (refused) is read off the LIVE built-in buses entry by entry above; that those
    # entries cover exactly the textbook LoROM / HiROM bank sets (no RAM mirror over ROM banks, no ROM bank missing) is C04's live-bus contract
    from vf.props import C04 as c04
    cs += c04.live_bus_cases(E)
    return cs


OPTIONAL_CHECKS = {"branch_contract": ["in_range_branch_accepted", "ram_run_address_rejected", "ram_or_unmapped_target_rejected", "never_wraps",
                                       "opcode_and_displacement", "two_bytes"]}


def bounded(tier, seed):
    from vf.framework import native_call
    return native_call("b_C05.py", {"tier": tier, "seed": seed}, timeout=3000)


def mutants():
    from vf.pyvc.mutate import textual
    q = CPU + "RelativeJumpOpcode.emit"
    return [
        Mutant("emit:bias-2->-1", q, textual("delta -= 2", "delta -= 1")),
        Mutant("emit:unsigned-wrap", q, textual("struct.pack('b', delta)", "struct.pack('B', delta & 255)")),
        Mutant("emit:ram-target-accepted", q, textual("if physical_destination is None:", "if physical_destination is None and False:")),
    ]
