"""C16 - output does not depend on how the source text is laid out."""
from vf.framework import Case, Mutant
from vf.props import shapes as S

PROP = "C16"
LEVEL = "other"
H = "vf.contracts.c_layout."
PS = "a816.parse.parser_states."
FUNCTIONS = [PS + "parse_opcode", PS + "parse_operand_and_addressing", PS + "parse_decl", "a816.parse.nodes.OpcodeNode.__init__", "a816.parse.codegen.generate_block"]
MIN_OBLIGATIONS = 30
EXPLANATION = ("Single-run facts proved on the real code: parse_opcode lower-cases the size suffix and the index registers (outer and inside the "
               "parentheses) for token values in EITHER case (symbolic letters) and the addressing mode does not depend on the case; OpcodeNode "
               "lower-cases the mnemonic; a COMMENT token yields no statement; an included file's AST is spliced as a plain block without a scope; "
               "whitespace runs and both comment forms are skipped by the scanner with correct bookkeeping (C15/C17 contracts).  That ANY composition of "
               "the listed presentation changes leaves bytes, offsets and symbols unchanged is the bounded metamorphic part, through the real pipeline.")
TRUSTED = ["the scanner contracts of C15/C17 (whitespace / comment skipping)"]
ASSUMPTIONS = ["composition of single-run facts to full layout independence is argued, not machine-checked",
               "bounded: every listed presentation change applied at every applicable position of generated programs and sample sources, outputs and symbols compared"]


def tokens(B, items):
    out = []
    for tt, val in items:
        out.append(B.inst("a816.parse.tokens.Token", type=B.enum("a816.parse.tokens.TokenType", tt), value=val, position=None))
    return out


def shape_opcode(shape, with_size):
    def sh(B):
        size = B.symstr("size", 1, "bBwWlL") if with_size else None
        idx = B.symstr("index", 1, "xXyY" if shape != "direct_indexed" else "xXyYsS")
        inner = B.symstr("inner", 1, "xX")
        t = [("OPCODE", "LdA")]
        if with_size:
            t.append(("OPCODE_SIZE", size))
        if shape == "direct":
            t += [("NUMBER", "0x10")]
        elif shape == "direct_indexed":
            t += [("NUMBER", "0x10"), ("ADDRESSING_MODE_INDEX", idx)]
        elif shape == "dp_indirect_indexed":
            t += [("LPAREN", "("), ("NUMBER", "0x10"), ("ADDRESSING_MODE_INDEX", inner), ("RPAREN", ")")]
        else:
            t += [("LPAREN", "("), ("NUMBER", "0x10"), ("RPAREN", ")"), ("ADDRESSING_MODE_INDEX", idx)]
        t.append(("EOF", ""))
        p = B.inst("a816.parse.parser.Parser", tokens=B.list(tokens(B, t)), pos=0, initial_state=None)
        return {"p": p, "size_text": size, "index_text": idx, "inner_text": inner, "shape": shape}
    return sh


def shape_comment(B):
    p = B.inst("a816.parse.parser.Parser", tokens=B.list(tokens(B, [("COMMENT", "; c"), ("OPCODE_NAKED", "nop"), ("EOF", "")])), pos=0, initial_state=None)
    return {"p": p}


def shape_include(B):
    res = S.resolver(B)
    blk = S.ast_block(B, [S.ast_label(B, "a"), S.ast_macro(B, "inc_macro", ["p"], [S.ast_label(B, "in_macro")]), S.ast_label(B, "b")])
    return {"block": blk, "resolver": res, "tok": S.tok(B, "KEYWORD", "include"), "names": B.list(["a", "b"])}


def cases(E):
    cs = []
    for shape in ("direct", "direct_indexed", "dp_indirect_indexed", "indirect_indexed"):
        for ws in (False, True):
            cs.append(Case(H + "parse_opcode_case_contract", f"{shape}, size suffix={ws}", shape_opcode(shape, ws), target=[PS + "parse_opcode", PS + "parse_operand_and_addressing"]))
    for m in ("LDA", "Nop", "sTa"):
        cs.append(Case(H + "opcode_node_mnemonic_contract", m, lambda B, m=m: {"mnemonic_upper": m, "mnemonic_lower": m.lower(), "tok": S.token(B), "resolver": S.resolver(B)},
                       target=["a816.parse.nodes.OpcodeNode.__init__"]))
    cs.append(Case(H + "comment_is_no_statement_contract", "COMMENT then a statement", shape_comment, target=[PS + "parse_decl"]))
    cs.append(Case(H + "include_is_splicing_contract", "block of two labels", shape_include, target=["a816.parse.codegen.generate_block"]))
    return cs


OPTIONAL_CHECKS = {"parse_opcode_case_contract": ["size_lower_cased", "no_size", "index_lower_cased", "inner_index_lower_cased", "no_index"]}


def bounded(tier, seed):
    from vf.framework import native_call
    return native_call("b_C16.py", {"tier": tier, "seed": seed}, timeout=3000)


def mutants():
    from vf.pyvc.mutate import textual
    return [
        Mutant("parse_opcode:size-not-lower-cased", PS + "parse_opcode", textual("size = p.current().value.lower()", "size = p.current().value"), only_harness="parse_opcode"),
        Mutant("parse_operand:inner-index-not-lower-cased", PS + "parse_operand_and_addressing", textual("inner_index = p.current().value.lower()", "inner_index = p.current().value"), only_harness="parse_opcode"),
        Mutant("parse_decl:comment-not-consumed", PS + "parse_decl", textual("    current_token = p.next()\n    if accept_token(current_token, TokenType.COMMENT):\n        return None", "    current_token = p.next()\n    if accept_token(current_token, TokenType.COMMENT):\n        p.backup()\n        return None"), only_harness="comment"),
    ]
