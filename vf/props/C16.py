"""C16 - output does not depend on how the source text is laid out."""
from vf.framework import Case, Mutant
from vf.props import shapes as S

PROP = "C16"
LEVEL = "other"
H = "vf.contracts.c_layout."
PS = "a816.parse.parser_states."
FUNCTIONS = [PS + "parse_opcode", PS + "parse_operand_and_addressing", PS + "parse_decl", "a816.parse.nodes.OpcodeNode.__init__", "a816.parse.codegen.generate_block"] + \
            ["a816.parse.scanner.Scanner." + n for n in ("scan", "next", "backup", "peek", "accept", "accept_prefix", "accept_run", "ignore", "ignore_run", "emit", "get_token", "current_token_text")] + \
            ["a816.parse.scanner_states." + n for n in ("lex_initial", "accept_opcode", "lex_opcode", "lex_opcode_size", "lex_operand", "lex_expression", "lex_number", "lex_identifier",
                                                         "lex_opcode_index", "lex_keyword")]
MIN_OBLIGATIONS = 500
EXPLANATION = ("SPACES AND COMMENTS, ANY AMOUNT: the real Scanner.scan is executed on statement texts in which every gap where the statement allows white space "
               "(indentation incl. blank lines, after the mnemonic / size suffix, inside brackets, around operators and commas, trailing) holds a run of SYMBOLIC length, "
               "and `;` / `/* */` comments hold ANY text: the token list (types and texts) is proved to be the one of the densely written statement (+ a COMMENT token the "
               "parser is proved to drop).  25 statement forms (21 with spaces / comments, 4 in any letter case): 7 operand shapes, size suffix, implied, data directive, label, assignment, *=, two statements with blank "
               "lines, end-of-line / full-line / after-operand `;` comments, block comment.  Scanner loops are cut at quantified invariants (every position consumed so far "
               "matches), the driver and lex_expression loops are unrolled.  Single-run facts proved on the real code: parse_opcode lower-cases the size suffix and the index registers (outer and inside the "
               "parentheses) for token values in EITHER case (symbolic letters) and the addressing mode does not depend on the case; OpcodeNode "
               "lower-cases the mnemonic; a COMMENT token yields no statement; an included file's AST is spliced as a plain block without a scope; "
               "whitespace runs and both comment forms are skipped by the scanner with correct bookkeeping (C15/C17 contracts).  That ANY composition of "
               "the listed presentation changes leaves bytes, offsets and symbols unchanged is the bounded metamorphic part, through the real pipeline.")
TRUSTED = ["the scanner contracts of C15/C17 (whitespace / comment skipping)"]
ASSUMPTIONS = ["the space/comment obligations are stated per statement FORM (25 forms with fixed literal operands); that other operands / mnemonics behave alike is covered by the "
               "bounded re-layout sweep; block-comment text is any text in which no `*/` starts",
               "composition of single-run facts to full layout independence is argued, not machine-checked",
               "bounded: every listed presentation change applied at every applicable position of generated programs and sample sources, outputs and symbols compared"]


def tokens(B, items):
    out = []
    for tt, val in items:
        out.append(B.inst("a816.parse.tokens.Token", type=B.enum("a816.parse.tokens.TokenType", tt), value=val, position=None))
    return out


def shape_opcode(shape, with_size):
    def sh(B):
        size = B.symstr("size", 1, "bBwWlL") if with_size else None
        idx = B.symstr("index", 1, "xXyY" if shape != "direct_indexed" else "xXyYsS")
        inner = B.symstr("inner", 1, "xX")
        t = [("OPCODE", "LdA")]
        if with_size:
            t.append(("OPCODE_SIZE", size))
        if shape == "direct":
            t += [("NUMBER", "0x10")]
        elif shape == "direct_indexed":
            t += [("NUMBER", "0x10"), ("ADDRESSING_MODE_INDEX", idx)]
        elif shape == "dp_indirect_indexed":
            t += [("LPAREN", "("), ("NUMBER", "0x10"), ("ADDRESSING_MODE_INDEX", inner), ("RPAREN", ")")]
        else:
            t += [("LPAREN", "("), ("NUMBER", "0x10"), ("RPAREN", ")"), ("ADDRESSING_MODE_INDEX", idx)]
        t.append(("EOF", ""))
        p = B.inst("a816.parse.parser.Parser", tokens=B.list(tokens(B, t)), pos=0, initial_state=None)
        return {"p": p, "size_text": size, "index_text": idx, "inner_text": inner, "shape": shape}
    return sh


def shape_comment(B):
    p = B.inst("a816.parse.parser.Parser", tokens=B.list(tokens(B, [("COMMENT", "; c"), ("OPCODE_NAKED", "nop"), ("EOF", "")])), pos=0, initial_state=None)
    return {"p": p}


def shape_include(B):
    res = S.resolver(B)
    blk = S.ast_block(B, [S.ast_label(B, "a"), S.ast_macro(B, "inc_macro", ["p"], [S.ast_label(B, "in_macro")]), S.ast_label(B, "b")])
    return {"block": blk, "resolver": res, "tok": S.tok(B, "KEYWORD", "include"), "names": B.list(["a", "b"])}


# ------------------------------------------------------------------------------------------------ any number of spaces in every gap
SC = "a816.parse.scanner.Scanner."
LX = "a816.parse.scanner_states."
# statement -> list of pieces: a string is literal text (one token or part of one), "_" a gap that may hold any number (>= 0) of spaces,
# "__" a gap that needs at least one; tokens: (type, text) expected
SPACED = {
    "lda (0x10 + 1),y": (["_n", "lda", "__", "(", "_", "0x10", "_", "+", "_", "1", "_", ")", "_", ",", "_", "y", "_t"],
                         [("OPCODE", "lda"), ("LPAREN", "("), ("NUMBER", "0x10"), ("OPERATOR", "+"), ("NUMBER", "1"), ("RPAREN", ")"), ("ADDRESSING_MODE_INDEX", "y")]),
    "lda (0x10),y": (["_n", "lda", "__", "(", "_", "0x10", "_", ")", "_", ",", "_", "y", "_t"],
                     [("OPCODE", "lda"), ("LPAREN", "("), ("NUMBER", "0x10"), ("RPAREN", ")"), ("ADDRESSING_MODE_INDEX", "y")]),
    "lda.w 0x10,x": (["_n", "lda", ".", "w", "_", "0x10", "_", ",", "_", "x", "_t"],
                     [("OPCODE", "lda"), ("OPCODE_SIZE", "w"), ("NUMBER", "0x10"), ("ADDRESSING_MODE_INDEX", "x")]),
    "lda #0x12": (["_n", "lda", "__", "#", "_", "0x12", "_t"], [("OPCODE", "lda"), ("SHARP", "#"), ("NUMBER", "0x12")]),
    "sta [0x10],y": (["_n", "sta", "__", "[", "_", "0x10", "_", "]", "_", ",", "_", "y", "_t"],
                     [("OPCODE", "sta"), ("LBRAKET", "["), ("NUMBER", "0x10"), ("RBRAKET", "]"), ("ADDRESSING_MODE_INDEX", "y")]),
    "lda (0x10,x)": (["_n", "lda", "__", "(", "_", "0x10", "_", ",", "_", "x", "_", ")", "_t"],
                     [("OPCODE", "lda"), ("LPAREN", "("), ("NUMBER", "0x10"), ("ADDRESSING_MODE_INDEX", "x"), ("RPAREN", ")")]),
    "jmp label+1": (["_n", "jmp", "__", "label", "_", "+", "_", "1", "_t"], [("OPCODE", "jmp"), ("IDENTIFIER", "label"), ("OPERATOR", "+"), ("NUMBER", "1")]),
    "nop": (["_n", "nop", "_t"], [("OPCODE_NAKED", "nop")]),
    ".db 0x01, 0x02": (["_n", ".", "db", "_n", "0x01", "_n", ",", "_n", "0x02", "_t"], [("KEYWORD", "db"), ("NUMBER", "0x01"), ("COMMA", ","), ("NUMBER", "0x02")]),
    "name:": (["_n", "name", ":", "_t"], [("LABEL", "name")]),
    "x = 0x10 + 2": (["_n", "x", "_n", "=", "_n", "0x10", "_n", "+", "_n", "2", "_t"], [("IDENTIFIER", "x"), ("EQUAL", "="), ("NUMBER", "0x10"), ("OPERATOR", "+"), ("NUMBER", "2")]),
    "*= 0x8000": (["_n", "*=", "_n", "0x8000", "_t"], [("STAR_EQ", "*="), ("NUMBER", "0x8000")]),
    "m(1, two)": (["_n", "m", "(", "_n", "1", "_n", ",", "_n", "two", "_n", ")", "_t"], [("IDENTIFIER", "m"), ("LPAREN", "("), ("NUMBER", "1"), ("COMMA", ","), ("IDENTIFIER", "two"), ("RPAREN", ")")]),
    "} else {": (["_n", "}", "_n", "else", "_n", "{", "_t"], [("RBRACE", "}"), ("IDENTIFIER", "else"), ("LBRACE", "{")]),
    ".text 'a  b'": (["_n", ".", "text", "_n", "'a  b'", "_t"], [("KEYWORD", "text"), ("QUOTED_STRING", "'a  b'")]),
    "two statements, blank lines between": (["_n", "lda", "__", "#", "_", "0x12", "_t", "\n", "_n", "rts", "_t"],
                                            [("OPCODE", "lda"), ("SHARP", "#"), ("NUMBER", "0x12"), ("OPCODE_NAKED", "rts")]),
    "end-of-line ; comment (any text)": (["_n", "nop", "_t", ";", ";c", "\n", "_n", "rts", "_t"], [("OPCODE_NAKED", "nop"), ("COMMENT", None), ("OPCODE_NAKED", "rts")]),
    "full-line ; comment (any text)": (["_n", "nop", "_t", "\n", "_n", ";", ";c", "\n", "_n", "rts", "_t"], [("OPCODE_NAKED", "nop"), ("COMMENT", None), ("OPCODE_NAKED", "rts")]),
    "; comment after an operand": (["_n", "lda", "__", "#", "_", "0x12", "_t", ";", ";c", "\n", "_n", "rts"], [("OPCODE", "lda"), ("SHARP", "#"), ("NUMBER", "0x12"), ("COMMENT", None), ("OPCODE_NAKED", "rts")]),
    "/* */ comment between statements (any text)": (["_n", "nop", "_t", "\n", "_n", "/*", "/*c", "*/", "_n", "rts", "_t"],
                                                               [("OPCODE_NAKED", "nop"), ("COMMENT", None), ("OPCODE_NAKED", "rts")]),
}


# NOTE: the gap between the inner index register and the closing parenthesis of (sr,s),y was first left out of these forms: the scanner used to reject
# `(0xab,s ),y`.  Two independent sub-agents flagged it as a defect of the unchanged tree; it is repaired (fix: 2253154) and the gap is part of the forms now.
CASED = {
    "LDA.W 0x1F,X in any letter case": (["_n", "^lda", ".", "^w", "_", "0x", "^1f", "_", ",", "_", "^x", "_t"],
                                        [("OPCODE", "lda"), ("OPCODE_SIZE", "w"), ("NUMBER", "0x1f"), ("ADDRESSING_MODE_INDEX", "x")]),
    "STA (0xAB,S),Y in any letter case": (["_n", "^sta", "__", "(", "_", "0x", "^ab", "_", ",", "_", "^s", "_", ")", "_", ",", "_", "^y", "_t"],
                                          [("OPCODE", "sta"), ("LPAREN", "("), ("NUMBER", "0xab"), ("ADDRESSING_MODE_INDEX", "s"), ("RPAREN", ")"), ("ADDRESSING_MODE_INDEX", "y")]),
    "LDA.B (0x10,S),Y in any letter case": (["_n", "^lda", ".", "^b", "_", "(", "_", "0x10", "_", ",", "_", "^s", "_", ")", "_", ",", "_", "^y", "_t"],
                                            [("OPCODE", "lda"), ("OPCODE_SIZE", "b"), ("LPAREN", "("), ("NUMBER", "0x10"), ("ADDRESSING_MODE_INDEX", "s"), ("RPAREN", ")"), ("ADDRESSING_MODE_INDEX", "y")]),
    "RTS in any letter case": (["_n", "^rts", "_t"], [("OPCODE_NAKED", "rts")]),
}


def shape_spaced(name):
    def sh(B):
        from vf.pyvc.values import FuncVal
        pieces, toks = SPACED[name] if name in SPACED else CASED[name]
        ps = []
        for k, x in enumerate(pieces):
            if x == "_n":
                ps.append(("run", f"indent{k}", " \t\n", 0))
            elif x == "__n":
                ps.append(("run", f"indent{k}", " \t\n", 1))
            elif x == "_t":
                ps.append(("run", f"trailing{k}", " \t", 0))
            elif x == "_":
                ps.append(("run", f"gap{k}", " ", 0))
            elif x == "__":
                ps.append(("run", f"gap{k}", " ", 1))
            elif x.startswith("^"):
                ps.append(("anycase", x[1:]))
            elif x == ";c":
                ps.append(("chars", f"comment{k}", 1, 0x10FFFF, "\n", 0))  # any comment text: every character but the line end (and NUL, the scanner's end marker)
            elif x == "/*c":
                ps.append(("no_block_end", f"comment{k}", 0))  # any text in which no terminator starts: `*`, line ends, `/` ... included (e.g. `/* doc **/`)
            else:
                ps.append(("lit", x))
        text, _spans = B.text("input", ps)
        sc = B.inst("a816.parse.scanner.Scanner", initial_state=FuncVal(LX + "lex_initial"), tokens=B.list([]), line_offset=0, current_line=0, pos=0, start=0)
        return {"s": sc, "name": "t.s", "text": text, "expected_types": B.list([B.enum("a816.parse.tokens.TokenType", t) for t, _ in toks] + [B.enum("a816.parse.tokens.TokenType", "EOF")]),
                "fold_case": name in CASED, "expected_values": B.list([v for _, v in toks] + [""])}  # None: the token's text is not constrained (comment text)
    return sh


def _inv_accept_run_exact(I, st):
    """positions pos0 .. pos-1 all match (are / are not in `candidates`), the run started where the call started; nothing else moved"""
    import z3
    from vf.pyvc.values import to_z3int
    o = I.hget(st, st.env["self"]).fields
    g = I.hget(st, st.env["g"]).items
    inp = o["input"]
    pos, pos0 = to_z3int(o["pos"]), to_z3int(g["pos0"])
    cands, negate = st.env["candidates"], st.env["negate"]
    j = z3.Int("j!run")
    inset = z3.Or(*[inp.at(j) == ord(c) for c in cands])
    match = z3.Not(inset) if negate else inset
    return z3.And(pos0 <= pos, pos <= to_z3int(inp.length), z3.ForAll([j], z3.Implies(z3.And(pos0 <= j, j < pos), match)))


def _var_accept_run(I, st):
    from vf.pyvc.values import to_z3int
    o = I.hget(st, st.env["self"]).fields
    return to_z3int(o["input"].length) - to_z3int(o["pos"])


def _havoc_accept_run(I, st):
    """accept_run moves pos (and, through next(), the line bookkeeping); start and the token list are untouched"""
    from vf.pyvc.values import HSymList, Opaque
    s = st.env["self"]
    o = I.hmut(st, s)
    for fld in ("pos", "line_offset", "current_line"):
        o.fields[fld] = I.fresh_int(fld)
    f = o.fields.get("file")
    if f is not None:
        lines = I.hget(st, f).fields["lines"]
        n = I.fresh_int("lines_len")
        st.pc.append(n >= 0)
        st.heap[lines.oid] = HSymList(n, lambda I2, s2, idx: Opaque("line"), what="lines")


def _modifies_accept_run(I, st):
    s = st.env["self"]
    f = I.hget(st, s).fields.get("file")
    out = {s.oid}
    if f is not None:
        out |= {f.oid, I.hget(st, f).fields["lines"].oid}
    return out


def _inv_semicolon_comment(I, st):
    """every character consumed so far by the `;` comment loop is not a line end"""
    import z3
    from vf.pyvc.values import to_z3int
    o = I.hget(st, st.env["s"]).fields
    g = I.hget(st, st.env["g"]).items
    inp = o["input"]
    pos, pos0 = to_z3int(o["pos"]), to_z3int(g["pos0"])
    j = z3.Int("j!semi")
    return z3.And(pos0 <= pos, pos <= to_z3int(inp.length), z3.ForAll([j], z3.Implies(z3.And(pos0 <= j, j < pos), inp.at(j) != 10)))


def _inv_block_comment(I, st):
    """no terminator starts at any position consumed so far by the `/* */` loop"""
    import z3
    from vf.pyvc.values import to_z3int
    o = I.hget(st, st.env["s"]).fields
    g = I.hget(st, st.env["g"]).items
    inp = o["input"]
    pos, pos0 = to_z3int(o["pos"]), to_z3int(g["pos0"])
    j = z3.Int("j!blk")
    return z3.And(pos0 <= pos, pos <= to_z3int(inp.length), z3.ForAll([j], z3.Implies(z3.And(pos0 <= j, j < pos), z3.Not(z3.And(inp.at(j) == 42, inp.at(j + 1) == 47)))))


def _havoc_s(I, st):
    st.env["self"] = st.env["s"]
    try:
        _havoc_accept_run(I, st)
    finally:
        del st.env["self"]


def _modifies_s(I, st):
    st.env["self"] = st.env["s"]
    try:
        return _modifies_accept_run(I, st)
    finally:
        del st.env["self"]


def _var_s(I, st):
    from vf.pyvc.values import to_z3int
    o = I.hget(st, st.env["s"]).fields
    return to_z3int(o["input"].length) - to_z3int(o["pos"])


def spaced_loop_specs():
    from vf.pyvc.loops import LoopSpec
    gs = lambda I, st: {"pos0": I.hget(st, st.env["s"]).fields["pos"]}
    return {(LX + "lex_initial", 0): LoopSpec("lex_initial#semicolon-comment#exact", _inv_semicolon_comment, variant=_var_s, havoc=_havoc_s, modifies=_modifies_s, ghost=gs),
            (LX + "lex_initial", 1): LoopSpec("lex_initial#block-comment#exact", _inv_block_comment, variant=_var_s, havoc=_havoc_s, modifies=_modifies_s, ghost=gs),
            (SC + "accept_run", 0): LoopSpec("Scanner.accept_run#exact", _inv_accept_run_exact, variant=_var_accept_run, havoc=_havoc_accept_run, modifies=_modifies_accept_run,
                                              ghost=lambda I, st: {"pos0": I.hget(st, st.env["self"]).fields["pos"]})}


def cases(E):
    cs = [Case(H + "scan_statement_contract", f"`{n}` with any number of spaces in every gap", shape_spaced(n), loop_specs=spaced_loop_specs(), timeout_ms=60000,
               target=[SC + "scan", SC + "accept_run", LX + "lex_initial", LX + "lex_opcode", LX + "lex_operand", LX + "lex_expression", LX + "lex_number", LX + "lex_opcode_index", LX + "lex_opcode_size"],
               group="spaces") for n in list(SPACED) + list(CASED)]
    for shape in ("direct", "direct_indexed", "dp_indirect_indexed", "indirect_indexed"):
        for ws in (False, True):
            cs.append(Case(H + "parse_opcode_case_contract", f"{shape}, size suffix={ws}", shape_opcode(shape, ws), target=[PS + "parse_opcode", PS + "parse_operand_and_addressing"]))
    for m in ("LDA", "Nop", "sTa"):
        cs.append(Case(H + "opcode_node_mnemonic_contract", m, lambda B, m=m: {"mnemonic_upper": m, "mnemonic_lower": m.lower(), "tok": S.token(B), "resolver": S.resolver(B)},
                       target=["a816.parse.nodes.OpcodeNode.__init__"]))
    cs.append(Case(H + "comment_is_no_statement_contract", "COMMENT then a statement", shape_comment, target=[PS + "parse_decl"]))
    cs.append(Case(H + "include_is_splicing_contract", "block of two labels", shape_include, target=["a816.parse.codegen.generate_block"]))
    return cs


OPTIONAL_CHECKS = {"scan_statement_contract": ["same_token_text", "same_token_text_up_to_case"],
                   "parse_opcode_case_contract": ["size_lower_cased", "no_size", "index_lower_cased", "inner_index_lower_cased", "no_index"]}


def bounded(tier, seed):
    from vf.framework import native_call
    return native_call("b_C16.py", {"tier": tier, "seed": seed}, timeout=3000)


QUICK_MUTANTS = 5  # the remaining ones (slow: a mutated scanner explodes into many paths) run in the thorough tier


def mutants():
    from vf.pyvc.mutate import textual
    return [
        Mutant("lex_opcode_index:no-spaces-after-the-comma", LX + "lex_opcode_index", textual("    s.ignore_run(' ')\n", ""), only_harness="scan_statement", only_label="`lda.w 0x10,x` with", max_cases=1),
        Mutant("lex_initial:tabs-not-skipped", LX + "lex_initial", textual("s.ignore_run(' \\t\\n')", "s.ignore_run(' \\n')"), only_harness="scan_statement", only_label="`nop` with", max_cases=1),
        Mutant("parse_opcode:size-not-lower-cased", PS + "parse_opcode", textual("size = p.current().value.lower()", "size = p.current().value"), only_harness="parse_opcode"),
        Mutant("parse_operand:inner-index-not-lower-cased", PS + "parse_operand_and_addressing", textual("inner_index = p.current().value.lower()", "inner_index = p.current().value"), only_harness="parse_opcode"),
        Mutant("parse_decl:comment-not-consumed", PS + "parse_decl", textual("    current_token = p.next()\n    if accept_token(current_token, TokenType.COMMENT):\n        return None", "    current_token = p.next()\n    if accept_token(current_token, TokenType.COMMENT):\n        p.backup()\n        return None"), only_harness="comment"),
        Mutant("lex_expression:spaces-not-skipped", LX + "lex_expression", textual("        s.ignore_run(' ')\n", ""), only_harness="scan_statement", only_label="`lda (0x10 + 1),y` with", max_cases=1),
    ]
