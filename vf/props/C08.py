"""C08 - names resolve lexically; scopes isolate and named scopes export."""
from vf.framework import Case, Mutant
from vf.props import shapes as S
from vf.props import C02 as c02

PROP = "C08"
LEVEL = "other"
H = "vf.contracts.c_scopes."
G = "a816.parse.codegen."
Y = "a816.symbols."
FUNCTIONS = [Y + "Scope.value_for", Y + "Scope.__getitem__", Y + "Scope.add_symbol", Y + "Scope.add_label", Y + "Resolver.append_scope", Y + "Resolver.append_named_scope",
             Y + "Resolver.append_internal_scope", Y + "Resolver.use_next_scope", Y + "Resolver.restore_scope", "a816.parse.nodes.ScopeNode.pc_after",
             "a816.parse.nodes.ScopeNode.emit", "a816.parse.nodes.PopScopeNode.pc_after", "a816.parse.nodes.PopScopeNode.emit", G + "generate_scope", G + "generate_compound",
             "a816.program.Program.resolver_reset"]
MIN_OBLIGATIONS = 200
EXPLANATION = ("Scope.value_for is proved by induction: a scope with arbitrary own tables answers from its own tables (code block first) and otherwise "
               "exactly what an ABSTRACT enclosing chain answers (inductive step, any depth).  Defining a label/symbol is proved to change only that "
               "scope's tables (isolation as a frame condition).  Export on leaving a named scope: parent gains exactly name.k = v.  Every scope-opening "
               "generator (block, named scope; macro application in C09; loop iteration in C10) is proved balanced with the enclosing scope as parent; "
               "ScopeNode / PopScopeNode replay creation order in every pass; one composite contract runs the real generators and the real label "
               "pass on a nested shape.  FOR EVERY AST (vf/contracts/c_expansion.py): each of the 23 generators, on a node of its kind whose sub-trees are lists of unknown "
               "length, with the resolver in an arbitrary consistent state, leaves the scope that was current current again, keeps the next-scope cursor consistent with the "
               "scope list and only appends scopes; _code_gen is proved against the same contract with an arbitrary statement of every kind as its loop element, the "
               "generators (and the recursive _code_gen calls) being replaced by that contract -- so scope balance holds for arbitrary nestings by induction on the AST, "
               "machine-checked per generator.  Rename invariance and whole-program resolution on arbitrary nestings are the bounded part."
               "  Also proved: forward shadowing through the real label pass (`ptr = target` before the block's own `target:`), `:=` binding in the current scope for every scope class, fresh scope objects with own containers, and lookups that pass through scopes holding nothing.")
TRUSTED = ["vf/specs/progmodel.py AbstractScope (summary of an enclosing chain by its answer for the probed name)"]
ASSUMPTIONS = ["composition (paper): balanced generators + pre-order creation + replay by position => each pass visits the scope a statement was written in; "
               "with lexical value_for this gives lexical resolution for arbitrary nestings; cross-checked by the composite contract and bounded nestings",
               "bounded: generated nestings (blocks, named scopes, macro applications, loops) with backward/forward/shadowing/sibling-reuse references vs the "
               "reference model, consistent renaming of scope-local names, unrelated definitions added in other scopes"]


from vf.props import expansion as _exp  # noqa: E402
FUNCTIONS = FUNCTIONS + [f for f in _exp.FUNCTIONS if f not in FUNCTIONS]
ASSUMPTIONS = ASSUMPTIONS + ["expansion contracts: " + a for a in _exp.ASSUMED]


def shape_value_for(in_symbols, in_blocks, parent_kind):
    def sh(B):
        res = S.resolver(B)
        own = B.int("own")
        blk = S.ast_block(B, [])
        pv = B.int("parent_value")
        parent = None if parent_kind == "top-level" else B.inst("vf.specs.progmodel.AbstractScope", defined=(parent_kind == "defines"), value=pv,
                                                                 symbols=B.dict({}), code_symbols=B.dict({}), table=None, parent=None)
        syms = {"other": B.int("other")}
        blocks = {}
        if in_symbols:
            syms["n"] = own
        if in_blocks:
            blocks["n"] = blk
        sc = B.inst(Y + "Scope", symbols=B.dict(syms), code_symbols=B.dict(blocks), parent=parent, resolver=res, table=None, labels=B.dict({}))
        return {"scope": sc, "name": "n", "own_symbol": own, "own_block": blk, "in_symbols": in_symbols, "in_blocks": in_blocks, "parent_kind": parent_kind, "parent_value": pv}
    return sh


def shape_frame(as_label, redefine):
    def sh(B):
        res = S.resolver(B)
        root = B.I.hget(B.st, res).fields["current_scope"]
        B.I.hmut(B.st, B.I.hget(B.st, root).fields["symbols"]).items.update({"n": B.int("outer_n"), "g": B.int("g")})
        sc = S.scope(B, res, root, symbols={"k": B.int("k"), **({"n": B.int("old_n")} if redefine else {})})
        sib = S.scope(B, res, root, symbols={"s": B.int("s")})
        B.I.hmut(B.st, B.I.hget(B.st, res).fields["scopes"]).items.extend([sc, sib])
        return {"scope": sc, "parent": root, "sibling": sib, "name": "n", "value": B.int("value"), "as_label": as_label, "addr": S.lorom_address(B)}
    return sh


def shape_nodes(emit_pass, named):
    def sh(B):
        res = S.resolver(B)
        root = B.I.hget(B.st, res).fields["current_scope"]
        s1 = S.scope(B, res, root, symbols={"a": B.int("a")})
        s2 = S.scope(B, res, s1, symbols={"x": B.int("x")}, cls=Y + ("NamedScope" if named else "Scope"), **({"name": "s"} if named else {}))
        s3 = S.scope(B, res, root)
        B.I.hmut(B.st, B.I.hget(B.st, res).fields["scopes"]).items.extend([s1, s2, s3])
        r = B.I.hmut(B.st, res)
        r.fields["last_used_scope"] = 1
        r.fields["current_scope"] = s1
        return {"resolver": res, "addr": S.lorom_address(B), "emit_pass": emit_pass}
    return sh


def shape_replay(B):
    # { a: x:  .scope s { b: x: { c: x: } }  d: }  e:
    res = S.resolver(B)
    inner = S.ast_compound(B, [S.ast_label(B, "c"), S.ast_label(B, "x")])
    named = S.ast_scope(B, "s", [S.ast_label(B, "b"), S.ast_label(B, "x"), inner])
    outer = S.ast_compound(B, [S.ast_label(B, "a"), S.ast_label(B, "x"), named, S.ast_label(B, "d")])
    bus, m = S.live_mapping(B, "low_rom_bus", "1")
    B.I.hmut(B.st, res).fields["reloc_address"] = B.inst("a816.cpu.mapping.Address", bus=bus, logical_value=0x008000, mapping=m)
    prog = B.inst("a816.program.Program", resolver=res, logger=None, dump_symbols=False, parser=None, label_pass_addresses=B.list([]))
    B.st.ghost["ast"] = [outer, S.ast_label(B, "e")]
    return {"program": prog, "ast": B.list([outer, S.ast_label(B, "e")]), "expected": B.list([B.list(["e"]), B.list(["a", "d", "x"]), B.list(["b", "x"]), B.list(["c", "x"])])}


def shape_forward_shadowing_over_constant(B):
    # target := 5   .db 0   { ptr = target  .db 1  target: }  -- the enclosing `target` is a CONSTANT known while the statements are expanded; the
    # block's own label still wins once the labels are resolved
    res = S.resolver(B)
    inner = S.ast_compound(B, [S.ast_symbol(B, "ptr", S.expr_ident(B, "target")), S.ast_data(B, "db", [S.expr_num(B, 1)]), S.ast_label(B, "target")])
    ast = [S.ast_assign(B, "target", S.expr_num(B, 5)), S.ast_data(B, "db", [S.expr_num(B, 0)]), inner]
    bus, m = S.live_mapping(B, "low_rom_bus", "1")
    B.I.hmut(B.st, res).fields["reloc_address"] = B.inst("a816.cpu.mapping.Address", bus=bus, logical_value=0x008000, mapping=m)
    prog = B.inst("a816.program.Program", resolver=res, logger=None, dump_symbols=False, parser=None, label_pass_addresses=B.list([]))
    return {"program": prog, "ast": B.list(ast), "outer_addr": 5, "inner_addr": 0x008002}


def shape_forward_shadowing(unresolved_elsewhere):
    def sh(B):
        # target: .db 0 { ptr = target .db 1 target: }  [ other = later  later: ]
        res = S.resolver(B)
        inner = S.ast_compound(B, [S.ast_symbol(B, "ptr", S.expr_ident(B, "target")), S.ast_data(B, "db", [S.expr_num(B, 1)]), S.ast_label(B, "target")])
        ast = [S.ast_label(B, "target"), S.ast_data(B, "db", [S.expr_num(B, 0)]), inner]
        if unresolved_elsewhere:
            ast += [S.ast_symbol(B, "other", S.expr_ident(B, "later")), S.ast_label(B, "later")]
        bus, m = S.live_mapping(B, "low_rom_bus", "1")
        B.I.hmut(B.st, res).fields["reloc_address"] = B.inst("a816.cpu.mapping.Address", bus=bus, logical_value=0x008000, mapping=m)
        prog = B.inst("a816.program.Program", resolver=res, logger=None, dump_symbols=False, parser=None, label_pass_addresses=B.list([]))
        return {"program": prog, "ast": B.list(ast), "outer_addr": 0x008000, "inner_addr": 0x008002}
    return sh


def cases(E):
    cs = [Case("vf.contracts.c_scopes.forward_shadowing_contract", "target := 5 .db 0 { ptr = target .db 1 target: }", shape_forward_shadowing_over_constant,
               target=[G + "_code_gen", G + "generate_symbol", "a816.program.Program.resolve_labels", "a816.parse.nodes.SymbolNode.pc_after"])]
    for other in (False, True):
        cs.append(Case("vf.contracts.c_scopes.forward_shadowing_contract", f"target: .db 0 {{ ptr = target .db 1 target: }}{' other = later later:' if other else ''}", shape_forward_shadowing(other),
                       target=[G + "_code_gen", "a816.program.Program.resolve_labels", "a816.parse.nodes.SymbolNode.pc_after"]))
    for in_symbols in (False, True):
        for in_blocks in (False, True):
            for pk in ("top-level", "defines", "does not define"):
                cs.append(Case(H + "value_for_contract", f"own value={in_symbols}, own block={in_blocks}, enclosing chain {pk}", shape_value_for(in_symbols, in_blocks, pk),
                               target=[Y + "Scope.value_for", Y + "Scope.__getitem__"]))
    for as_label in (False, True):
        for redefine in (False, True):
            cs.append(Case(H + "add_symbol_frame_contract", f"{'label' if as_label else 'symbol'}, {'redefinition' if redefine else 'new name shadowing an outer one'}",
                           shape_frame(as_label, redefine), target=[Y + "Scope.add_symbol", Y + "Scope.add_label"]))
    for emit_pass in (False, True):
        for named in (False, True):
            cs.append(Case(H + "scope_nodes_contract", f"{'emit' if emit_pass else 'label/symbol'} pass, inner scope {'named' if named else 'anonymous'}", shape_nodes(emit_pass, named),
                           target=["a816.parse.nodes.ScopeNode.pc_after", "a816.parse.nodes.ScopeNode.emit", "a816.parse.nodes.PopScopeNode.pc_after",
                                   "a816.parse.nodes.PopScopeNode.emit", Y + "Resolver.use_next_scope", Y + "Resolver.restore_scope"]))
    for kind, ex in (("named", True), ("named", False), ("anon", True), ("internal", True), ("named-in-loop", True)):
        cs.append(Case("vf.contracts.c_labels.restore_scope_export_contract", f"{kind},exports={ex}", c02.shape_export(kind, ex), target=[Y + "Resolver.restore_scope"]))
    for kind in ("compound", "scope"):
        cs.append(Case("vf.contracts.c_codegen.balanced_scope_contract", kind, shape_balanced(kind), target=[G + "generate_compound", G + "generate_scope"]))
    cs += assign_frame_cases(E)
    cs += scope_creation_cases(E)
    cs += chain_cases(E)
    cs += c02.value_node_cases(E)  # an operand names a label by EXPRESSION: the forward label of its own scope wins at emission over what the early width guess saw
    # a macro argument that mentions a name is resolved in the scope of the CALL, also after sibling scopes that define the same name privately
    from vf.props import C09 as c09
    cs += [c for c in c09.own_cases(E)]
    from vf.props import expansion
    cs += expansion.cases(E)
    cs.append(Case(H + "scope_replay_wrapper_contract", "{ a: x: .scope s { b: x: { c: x: } } d: } e:", shape_replay, target=[G + "_code_gen", "a816.program.Program.resolve_labels"]))
    return cs


def shape_scope_creation(kind):
    def sh(B):
        res = S.resolver(B)
        root = S.root_symbols(B, res, {"x": B.int("x")})
        # a sibling created earlier under the same parent, of the same class and -- for a named scope -- the same name, holding definitions
        cls = {"named": "NamedScope", "internal": "InternalScope", "plain": "Scope"}[kind]
        extra = {"name": "s"} if kind == "named" else {}
        sib = S.scope(B, res, root, symbols={"l": B.int("l")}, cls="a816.symbols." + cls, **extra)
        B.I.hmut(B.st, B.I.hget(B.st, sib).fields["code_symbols"]).items["body"] = S.ast_block(B, [])
        B.I.hmut(B.st, B.I.hget(B.st, res).fields["scopes"]).items.append(sib)
        return {"resolver": res, "kind": kind, "name": "s"}
    return sh


def shape_chain(depth, kinds):
    def sh(B):
        res = S.resolver(B)
        v = B.int("value")
        top = S.root_symbols(B, res, {"n": v})
        cur = top
        for i in range(depth):
            cur = S.scope(B, res, cur, cls="a816.symbols." + kinds[i % len(kinds)], **({"name": "s%d" % i} if kinds[i % len(kinds)] == "NamedScope" else {}))
            B.I.hmut(B.st, B.I.hget(B.st, res).fields["scopes"]).items.append(cur)
        return {"inner": cur, "value": v, "depth": depth}
    return sh


def shape_qualified(cls, depth):
    def sh(B):
        res = S.resolver(B)
        v, q = B.int("plain"), B.int("qualified")
        top = S.root_symbols(B, res, {"n": v, "s.n": q})
        cur = top
        for i in range(depth):
            cur = S.scope(B, res, cur, cls="a816.symbols." + cls, **({"name": "s"} if cls == "NamedScope" else {}))
            B.I.hmut(B.st, B.I.hget(B.st, res).fields["scopes"]).items.append(cur)
        return {"inner": cur, "plain_value": v, "qualified_value": q}
    return sh


def chain_cases(E):
    q = [Case("vf.contracts.c_scopes.qualified_lookup_contract", f"`s.n` and `n` read from {d} nested {cls} (named `s`: a re-opened / nested scope of the same name)", shape_qualified(cls, d),
              target=[Y + "Scope.value_for", Y + "Scope.__getitem__", Y + "NamedScope.value_for"]) for cls, d in (("NamedScope", 1), ("NamedScope", 2), ("Scope", 1), ("InternalScope", 1))]
    return q + [Case("vf.contracts.c_scopes.value_for_chain_contract", f"defined {d} scopes further out, empty {'/'.join(k)} scopes in between", shape_chain(d, k),
                 target=[Y + "Scope.value_for", Y + "Scope.__getitem__"]) for d, k in ((1, ("Scope",)), (2, ("Scope", "InternalScope")), (3, ("InternalScope", "Scope", "NamedScope")))]


def scope_creation_cases(E):
    return [Case("vf.contracts.c_scopes.scope_creation_contract", f"{kind} scope next to an earlier sibling of the same kind{' and name' if kind == 'named' else ''}", shape_scope_creation(kind),
                 target=[Y + "Resolver.append_scope", Y + "Resolver.append_internal_scope", Y + "Resolver.append_named_scope", Y + "Scope.__init__", Y + "NamedScope.__init__"])
            for kind in ("plain", "internal", "named")]


def assign_frame_cases(E):
    """`name := expr` binds in the CURRENT scope, whatever kind of scope that is: a block, a `.for` iteration (InternalScope), a named scope"""
    return [Case("vf.contracts.c_codegen.generate_assign_frame_contract", f"`a := expr` in a {what} whose enclosing scope binds `a`", shape_assign_frame(cls, extra),
                 target=[G + "generate_assign", Y + "Scope.add_symbol"])
            for what, cls, extra in (("block", "Scope", {}), (".for iteration scope", "InternalScope", {}), ("named scope", "NamedScope", {"name": "s"}))]


def shape_assign_frame(cls, extra):
    return lambda B: _shape_assign_frame(B, cls, extra)


def _shape_assign_frame(B, cls, extra):
    res = S.resolver(B)
    outer_v, v = B.int("outer_value"), B.int("value")
    root = S.root_symbols(B, res, {"a": outer_v, "src": v})
    inner = S.scope(B, res, root, cls="a816.symbols." + cls, **extra)
    B.I.hmut(B.st, B.I.hget(B.st, res).fields["scopes"]).items.append(inner)
    r = B.I.hmut(B.st, res)
    r.fields["current_scope"] = inner
    r.fields["last_used_scope"] = 1
    return {"node": S.ast_assign(B, "a", S.expr_ident(B, "src")), "resolver": res, "tok": S.tok(B, "IDENTIFIER", "a"), "outer_value": outer_v, "value": v}


def shape_balanced(kind):
    def sh(B):
        res = S.resolver(B)
        body = [S.ast_label(B, "p"), S.ast_label(B, "q")]
        node = S.ast_compound(B, body) if kind == "compound" else S.ast_scope(B, "ns", body)
        return {"kind": kind, "node": node, "resolver": res, "tok": S.tok(B, "LBRACE", "{"), "inner_names": B.list(["p", "q"])}
    return sh


OPTIONAL_CHECKS = {"unselected_definitions_contract": ["definition_in_an_unselected_block_has_no_effect", "definition_in_the_selected_block_takes_effect"],
                   "value_for_contract": ["undefined_only_when_nobody_defines", "own_block_shadows", "own_definition_wins", "falls_back_to_enclosing"],
                   "add_symbol_frame_contract": ["label_defined_here", "symbol_defined_here", "other_names_kept"],
                   "scope_nodes_contract": ["scope_node_emits_nothing", "scope_node_keeps_address", "pop_emits_nothing", "pop_keeps_address"],
                   "restore_scope_export_contract": ["exported_same_value", "only_exports_added", "nothing_exported", "parent_symbols_kept"],
                   "balanced_scope_contract": ["named_scope", "anonymous_scope"]}


def bounded(tier, seed):
    from vf.framework import native_call
    return native_call("b_C08.py", {"tier": tier, "seed": seed}, timeout=3000)


QUICK_MUTANTS = 10


def mutants():
    from vf.pyvc.mutate import textual
    from vf.props import expansion
    return expansion.mutants() + [
        Mutant("value_for:parent-first", Y + "Scope.value_for", textual("if symbol in self.symbols or symbol in self.code_symbols:", "if False:"), only_harness="value_for"),
        Mutant("restore_scope:export-to-root", Y + "Resolver.restore_scope", textual("scope.parent.symbols |=", "self.scopes[0].symbols |="), only_harness="restore_scope"),
        Mutant("use_next_scope:position-not-advanced", Y + "Resolver.use_next_scope", textual("self.last_used_scope += 1", "self.last_used_scope += 0"), only_harness="scope_nodes"),
        Mutant("generate_compound:no-restore", G + "generate_compound", textual("resolver.restore_scope()", "pass"), only_harness="balanced_scope"),
        Mutant("PopScopeNode.emit:exports", "a816.parse.nodes.PopScopeNode.pc_after", textual("restore_scope(exports=True)", "restore_scope()"), only_harness="scope_replay"),
        Mutant("add_symbol:also-in-parent", Y + "Scope.add_symbol", textual("        self.symbols[symbol] = value", "        self.symbols[symbol] = value\n        if self.parent:\n            self.parent.symbols[symbol] = value"), only_harness="add_symbol_frame"),
    ]
