"""Bounded stand-in for C17: an erroneous statement of each kind is inserted at EVERY line position of varied valid programs
(comments, blank lines, blocks, macro definitions, multi-line comments, form feeds in comments before it), in the main file and
in an included file; the reported error must name the right file, the zero-based line of that statement, quote that line's
text, and (lexical errors) give the column of the offending character."""
import os
import random
import re
import shutil
import tempfile

from common import assemble, main_protocol

BASES = [
    "*=0x008000\nstart:\n  lda #0x12\n; full line comment\n\n  sta.w 0x2100 ; trailing comment\n{\n  inner:\n  nop\n}\n.macro m(a) {\n  .db a\n}\nm(1)\nrts\n",
    "*=0x018000\n/* one line block comment */\nnop\n/* multi\n   line\n   comment */\nldx #1\n.scope s {\n  l:\n  dex\n  bne l\n}\n; comment with a form feed \x0c inside\n.dw s.l\n\n\nrtl\n",
    "; header\n*=0x008000\n.if 1 {\n  clc\n} else {\n  sec\n}\n.for i := 0, 2 {\n  .db i\n}\n.ascii 'text with ; and /* inside'\nphp\nplp\n",
]
ERRORS = {
    # kind: (statement text, expected column or None, 'scan' | 'node')
    "undefined-operand": ("  lda.w verif_no_such_symbol", None, "node"),
    "undefined-data": (".dw 1, verif_no_such_symbol", None, "node"),
    # without a size suffix the operand is evaluated already while labels are resolved (width guess): the same located error
    "undefined-operand-unsized": ("lda verif_no_such_symbol", None, "node"),
    "undefined-operand-unsized-indexed": ("  sta verif_no_such_symbol, x", None, "node"),
    "undefined-operand-unsized-indirect": ("lda (verif_no_such_symbol),y", None, "node"),
    "undefined-immediate-unsized": ("lda #verif_no_such_symbol + 1", None, "node"),
    "undefined-jump-target": ("jmp verif_no_such_symbol", None, "node"),
    # a data list continued on the next line: the statement is where its directive is written -- that line is named and quoted
    "undefined-data-on-a-continuation-line": (".dw 0x1234,\n    verif_no_such_symbol", None, "node"),
    "undefined-data-on-the-third-line-of-a-list": (".db 1, 2,\n    3, 4,\n    verif_no_such_symbol, 6", None, "node"),
    # characters outside ASCII on the erroneous line (comments in French / Japanese): the quoted text is the line as written, columns count characters
    "undefined-operand-before-a-non-ascii-comment": ("lda.w verif_no_such_symbol ; d\u00e9j\u00e0 vu \u30c6\u30b9\u30c8", None, "node"),
    "bad-size-after-a-non-ascii-comment": ("/* caf\u00e9 \u30a2 */ lda.q 0x10", len("/* caf\u00e9 \u30a2 */ lda."), "scan"),
    "unterminated-string-with-non-ascii-text": (".ascii '\u00e9t\u00e9", 7, "scan"),
    # long source lines (a data table, a long trailing comment): the quoted text is still that line's text, all of it
    "undefined-data-on-a-long-line": (".dw " + ", ".join(hex(0x1000 + 7 * k) for k in range(40)) + ", verif_no_such_symbol", None, "node"),
    "undefined-operand-before-a-long-comment": ("lda.w verif_no_such_symbol ; " + "long trailing comment " * 12 + "end", None, "node"),
    "bad-size": ("lda.q 0x10", 4, "scan"),
    "bad-size-eol": ("   sta.", 7, "scan"),
    "bad-index": ("lda 0x10, q", 10, "scan"),
    "index-register-missing-at-the-line-end": ("    lda 0x10,", 13, "scan"),
    "unterminated-string": (".ascii 'abc", 7, "scan"),
    "unterminated-string-db": ("  .db 'x", 6, "scan"),
    "unterminated-string-ending-in-a-backslash": (".ascii 'C:\\", 7, "scan"),
}


def top_level_positions(src):
    lines = src.split("\n")
    depth = 0
    incomment = False
    pos = []
    for i, l in enumerate(lines):
        if depth == 0 and not incomment:
            pos.append(i)
        if "/*" in l and "*/" not in l.split("/*", 1)[1]:
            incomment = True
        elif "*/" in l:
            incomment = False
        if not incomment:
            code = l.split(";")[0]
            if "'" not in code:
                depth += code.count("{") - code.count("}")
    return pos


# the erroneous statement as a line of a macro body (directly, or inside a block / conditional of the body), the macro applied further down -- once or
# several times, also from another macro: the error names the BODY line, where the statement is written, not the line of the application
MACRO_BASES = [
    ("*=0x008000\n.macro store(v) {\n  lda #v\n", "  rts\n}\nnop\n; comment\nstore(0x12)\nrts\n"),
    ("*=0x008000\n.macro store(v) {\n  {\n    lda #v\n", "  }\n}\n\n\nstore(1)\nstore(2)\n"),
    ("*=0x008000\n.macro inner(v) {\n", "}\n.macro outer(v) {\n  nop\n  inner(v)\n}\n/* block\n comment */\nouter(3)\n"),
    ("*=0x008000\n.macro maybe(v) {\n  .if v {\n", "  }\n}\nmaybe(1)\n"),
]


def check(case):
    stmt, col, kind = ERRORS[case["error"]]
    if "macro" in case:
        head, tail = MACRO_BASES[case["macro"]]
        at = head.count("\n")
        new = (head + stmt + "\n" + tail).split("\n")
    else:
        base = BASES[case["base"]]
        lines = base.split("\n")
        at = case["line"]
        new = lines[:at] + [stmt] + lines[at:]
    margin = case.get("margin", "")
    if margin:
        # the whole file is indented by one common margin (sources pasted from an indented listing): positions and the quoted line are those of the file AS IT IS
        new = [margin + l if l.strip() else l for l in new]
        stmt = "\n".join(margin + x for x in stmt.split("\n"))
        col = None if col is None else col + len(margin)
    d = tempfile.mkdtemp(prefix="vfC17")
    try:
        if case["included"]:
            inc = os.path.join(d, "inc.s")
            open(inc, "w", encoding="utf-8").write("\n".join(new))
            src = f"; main file\nnop\n.include '{inc}'\nnop\n"
            want_file, want_line = inc, at
        else:
            src = "\n".join(new)
            want_file, want_line = "main.s", at
        res = assemble(src, filename="main.s")
        if res["status"] == "ok":
            return f"erroneous statement `{stmt.strip()}` assembled"
        text = res["error"] or res["exc"] or ""
        if res["status"] == "exception" and res.get("exc_type") != "NodeError":
            return f"unexpected {res.get('exc_type')} instead of a located error: {text[:100]}"
        m = re.search(r"([^\s\":]+):(\d+)(?::(-?\d+))?", text)
        if not m:
            return f"no location in the error: {text[:120]!r}"
        f, line, c = m.group(1), int(m.group(2)), m.group(3)
        if f != want_file:
            return f"error names file {f!r}, the statement is in {want_file!r}"
        if line != want_line:
            return f"error names line {line}, the statement `{stmt.strip()}` is on zero-based line {want_line}"
        quoted = stmt.split("\n")[0]
        if quoted not in text and (margin or quoted.strip() not in text):
            return f"the error does not quote the statement's line: {text[:160]!r}"
        if col is not None and (c is None or int(c) != col):
            return f"column {c}, the offending character of `{stmt}` is at column {col}"
        return None
    finally:
        shutil.rmtree(d, ignore_errors=True)


def gen(tier, rng):
    for b in range(len(BASES)):
        positions = top_level_positions(BASES[b])
        for err in ERRORS:
            for margin in ("    ", "\t"):
                if tier == "thorough" or (len(err) + b + len(margin)) % 3 == 0:
                    yield {"base": b, "error": err, "line": positions[(len(err) + b) % len(positions)], "included": (len(err) + b) % 2 == 0, "margin": margin}
    for m in range(len(MACRO_BASES)):
        for err in ERRORS:
            for included in (False, True):
                if tier == "thorough" or (m + len(err) + included) % 2 == 0:
                    yield {"macro": m, "error": err, "included": included}
    for b, base in enumerate(BASES):
        positions = top_level_positions(base)
        for err in ERRORS:
            for included in (False, True):
                ps = positions if tier == "thorough" else [p for p in positions if (p + b + len(err)) % 3 == 0 or p in (positions[0], positions[-1])]
                for p in ps:
                    yield {"base": b, "error": err, "line": p, "included": included}


def run(tier, seed):
    rng = random.Random(seed)
    cases = list(gen(tier, rng))
    failures = []
    kinds = set()
    for c in cases:
        f = check(c)
        if f:
            k = (c["error"], c["included"], f.split(",")[0][:30])
            if k not in kinds and len(failures) < 12:
                kinds.add(k)
                failures.append({"ident": f"bounded/error-location/{c['error']}", "script": "b_C17.py", "payload": c, "observed": f})
    return {"evaluations": len(cases), "distinct_nontrivial": len({str(c) for c in cases}),
            "rule": "18 erroneous statement kinds (three with characters outside ASCII on the line) (two on lines longer than 250 characters) (undefined symbol in operand with and without size suffix / data directive, bad size suffix incl. at end of line, bad index register, "
                    "unterminated string in .ascii / .db) x every top-level line position (thorough) of 3 base programs with comments, blank lines, blocks, macro "
                    "definitions, multi-line comments, a form feed inside a comment x main file / included file; checks file, zero-based line, quoted text, column",
            "samples": cases[:2], "failures": failures}


def replay(payload):
    f = check(payload)
    return {"failed": f is not None, "observed": f}


if __name__ == "__main__":
    main_protocol(run, replay)
