"""Bounded stand-in for C13: generated IPS files (plain / run-length / maximum-length / adjacent records, lengths that put the
EOF marker across the 8 KiB buffer edge of a real buffered file), signed deltas, placements of the directive in a program;
the real pipeline against the independent reader vf/specs/ips_format.py."""
import os
import random
import tempfile

from common import assemble, main_protocol

from vf.specs import ips_format


def build_file(recs):
    out = []
    for r in recs:
        if r[0] == "rle":
            out.append(("rle", r[1], r[2], r[3]))
        elif r[0] == "hex":
            out.append((r[1], bytes.fromhex(r[2])))   # explicit payload
        else:
            out.append((r[1], bytes(((i * 13 + r[3]) & 0xFF) for i in range(r[2]))))
    return ips_format.serialise(out)


def mangle(raw, how):
    if how == "noheader":
        return b"PATCX" + raw[5:]
    if how == "short":
        return raw[:3]
    if how == "trunc_eof":
        return raw[:-3]
    if how == "trunc_mid":
        return raw[:-5] if len(raw) > 13 else raw[:-3]
    if how == "trunc_data":
        return raw[: max(6, len(raw) - 3 - 2)]
    return raw


def check(case):
    raw = mangle(build_file([tuple(r) for r in case["recs"]]), case.get("mangle"))
    fd, path = tempfile.mkstemp(suffix=".ips", prefix="vfC13")
    os.write(fd, raw)
    os.close(fd)
    try:
        delta = case["delta"]
        dtxt = f"0x{delta:x}" if delta >= 0 else f"0-0x{-delta:x}"
        pre, post = case.get("pre", ".db 1, 2\n"), case.get("post", "after:\n.dw after\n")
        src = f"*=0x018000\n{pre}.include_ips '{path}', {dtxt}\n{post}"
        base = assemble(f"*=0x018000\n{pre}{post}")
        res = assemble(src)
        try:
            wf = ips_format.parse(raw)
            wellformed = wf[1] == len(raw)
            records = wf[0]
        except ips_format.IpsFormatError:
            wellformed = False
        if not wellformed:
            if res["status"] == "ok":
                return f"malformed file ({case.get('mangle')}) accepted"
            return None
        if res["status"] != "ok":
            return f"well-formed file rejected: {res['error'] or res['exc']}"
        want = [(off + delta, payload) for off, payload in records]
        got = [(a, b) for a, b in res["blocks"]]
        own = [(a, b) for a, b in base["blocks"]]
        # the record blocks, in order, as a subsequence; the remaining blocks are the program's own, unchanged
        rest = []
        wi = 0
        for blk in got:
            if wi < len(want) and blk == want[wi]:
                wi += 1
            else:
                rest.append(blk)
        if wi != len(want):
            w = want[wi]
            return f"record {wi} (offset {w[0]:#x}, {len(w[1])} bytes) not re-emitted byte for byte in order; got blocks {[(hex(a), len(b)) for a, b in got][:6]}"
        if case.get("overlay"):
            # the records are applied WHEN THE DIRECTIVE IS REACHED: on top of the blocks closed before it (here: they land inside the first block)
            img = {}
            for a, b in got:
                for i, x in enumerate(b):
                    img[a + i] = x
            for off, payload in want:
                for i, x in enumerate(payload):
                    if img.get(off + i) != x:
                        return f"the output does not hold the record's byte {x:#x} at {off + i:#x} (holds {img.get(off + i)}): records and earlier blocks are applied in the wrong order"
        if rest != own:
            return f"surrounding program output changed: {[(hex(a), b.hex()[:16]) for a, b in rest]} vs {[(hex(a), b.hex()[:16]) for a, b in own]}"
        return None
    finally:
        os.unlink(path)


def check_repeated(case):
    """the SAME directive expanded several times (loop body / macro body) with a delta that differs per expansion"""
    raw = build_file([tuple(r) for r in case["recs"]])
    fd, path = tempfile.mkstemp(suffix=".ips", prefix="vfC13r")
    os.write(fd, raw)
    os.close(fd)
    try:
        records = ips_format.parse(raw)[0]
        deltas = case["deltas"]
        if case["how"] == "for":
            step = deltas[1] - deltas[0] if len(deltas) > 1 else 0
            src = f"*=0x018000\n.db 1\n.for k := 0, {len(deltas)} {{\n.include_ips '{path}', {deltas[0]} + k * {step}\n}}\n.db 2\n"
        else:
            src = f"*=0x018000\n.db 1\n.macro patch_at(d) {{\n.include_ips '{path}', d\n}}\n" + "".join(f"patch_at({d})\n" for d in deltas) + ".db 2\n"
        res = assemble(src)
        if res["status"] != "ok":
            return f"program rejected: {res['error'] or res['exc']}"
        want = [(off + d, payload) for d in deltas for off, payload in records]
        got = [(a, b) for a, b in res["blocks"] if (a, b) != (0x8000, b"\x01\x02")]
        if got != want:
            return f"expansions re-emit {[(hex(a), len(b)) for a, b in got][:8]}, expected {[(hex(a), len(b)) for a, b in want][:8]}"
        return None
    finally:
        os.unlink(path)


def gen_repeated(tier, rng):
    for how in ("for", "macro"):
        yield {"repeated": True, "how": how, "recs": [["plain", 0x1234, 5, 7]], "deltas": [0, 0x400, 0x800, 0xC00]}
        yield {"repeated": True, "how": how, "recs": [["plain", 0x100, 3, 1], ["rle", 0x200, 9, 0x55]], "deltas": [0x200, 0x10200] if how == "for" else [0x200, 0, 0x10000]}


def gen(tier, rng):
    def plain(off, n):
        return ["plain", off, n, rng.randrange(256)]

    deltas = [0, 0x10, 0x200, -0x200, -1, 0x10000, -0x8000]
    yield {"recs": [], "delta": 0}
    for d in deltas:
        yield {"recs": [plain(0x1234, 5)], "delta": d}
        yield {"recs": [plain(0x20100, 4), plain(0x1FF00, 3)], "delta": d}
        yield {"recs": [["rle", 0x4000, 7, 0xAA]], "delta": d}
        yield {"recs": [plain(0x100, 3), ["rle", 0x103, 300, 0x55], plain(0x103 + 300, 2)], "delta": d}
    yield {"recs": [plain(0x8000, 0xFFFF), plain(0x8000 + 0xFFFF, 0xFFFF)], "delta": 0}
    yield {"recs": [["rle", 0x10, 0xFFFF, 1], ["rle", 0x20, 1, 2]], "delta": 3}
    yield {"recs": [plain(0x4010, 1), plain(0x4000, 0x20)], "delta": 0}   # overlapping, later wins
    yield {"recs": [plain(0x4000, 2), plain(0x4000, 1)], "delta": 0}
    table = ["plain", 0x12000, 6, 9]
    yield {"recs": [table, ["plain", 0x12002, 2, 0xEE], table], "delta": 0}            # write, poke, restore: the repeated record is applied again
    yield {"recs": [["rle", 0x300, 8, 1], ["rle", 0x302, 2, 2], ["rle", 0x300, 8, 1]], "delta": 0x10}
    yield {"recs": [plain(0x454F00, 4)], "delta": 0x46}                  # lands on 0x454F46 after delta
    # a record that lands INSIDE a block the program closed before the directive (a table, then a patch poking into it)
    for d in (-0x200, 0):
        yield {"recs": [plain(0x202 + (0 if d else -0x200), 2)], "delta": d, "overlay": True, "pre": "*=0x008000\n.db 0x10, 0x11, 0x12, 0x13, 0x14\n*=0x018000\n.db 0x77\n", "post": "after:\n.dw after\n"}
        yield {"recs": [["rle", 0x201 + (0 if d else -0x200), 3, 0xEE]], "delta": d, "overlay": True, "pre": "*=0x008000\n.db 0x10, 0x11, 0x12, 0x13, 0x14\n*=0x018000\n", "post": ".db 1\n"}
    # the bytes 'E','O','F' are only an end marker where a record OFFSET is expected: inside payloads, size fields, run lengths and values they are data
    for d in (0, 0x200):
        yield {"recs": [["hex", 0x1000, b"EOF".hex()]], "delta": d}
        yield {"recs": [["hex", 0x1000, b"GEOFFREY".hex()], plain(0x2000, 3)], "delta": d}
        yield {"recs": [plain(0x3000, 2), ["hex", 0x1000, (b"xxEOF" + b"PATCH" + b"EOFEOF").hex()], ["rle", 0x4000, 3, 9]], "delta": d}
        yield {"recs": [["hex", 0x5000, "46" + "00" * (0x454F - 1)], plain(0x100, 1)], "delta": d}     # size field 45 4F, first data byte 46
        yield {"recs": [["rle", 0x6000, 0x454F, 0x46], plain(0x100, 1)], "delta": d}                    # run length 45 4F, value 46
        yield {"recs": [["hex", 0x00454F, "00" * 0x4600], plain(0x100, 2)], "delta": d}                 # offset .. 45 4F, size 46 00
        yield {"recs": [["hex", 0x7000, "45"], ["hex", 0x4F4600, "01"]], "delta": d}                    # data 45, next offset 4F 46 ..
    # records that END exactly at the top of the 24-bit space (last byte at 0xFFFFFF), before and after the shift
    yield {"recs": [plain(0xFFFFF0, 16)], "delta": 0}
    yield {"recs": [plain(0xFFFFFF, 1)], "delta": 0}
    yield {"recs": [plain(0xFFFDF0, 16)], "delta": 0x200}
    yield {"recs": [["rle", 0xFF0001, 0xFFFF, 7]], "delta": 0}
    yield {"recs": [plain(0xFFFFEF, 16), ["rle", 0xFFFFF0, 15, 1]], "delta": 0}
    # EOF marker (and record headers) across the 8 KiB edge of a buffered reader
    for edge in (8192, 16384):
        for k in range(-6, 4):
            n = edge - 5 - 5 - 3 + k   # PATCH + header + data + EOF = edge + k
            yield {"recs": [plain(0x100, n)], "delta": 0}
            yield {"recs": [plain(0x100, n - 8), ["rle", 0x9000, 5, 9]], "delta": 1}
    for how in ("noheader", "short", "trunc_eof", "trunc_mid", "trunc_data"):
        yield {"recs": [plain(0x100, 9), plain(0x200, 4)], "delta": 0, "mangle": how}
        yield {"recs": [["rle", 0x100, 9, 4]], "delta": 0, "mangle": how}
    for pre, post in ((".db 1\n", ""), ("", ".db 9\n"), ("lda #0x12\nl1:\n", "jmp l1\n"), ("{\n", "}\n")):
        yield {"recs": [plain(0x300, 6), ["rle", 0x400, 3, 7]], "delta": 0x20, "pre": pre, "post": post}
    for _ in range(150 if tier == "thorough" else 25):
        recs = []
        for _ in range(rng.randint(1, 6)):
            if rng.random() < 0.3:
                recs.append(["rle", rng.randrange(0x400000), rng.choice([1, 2, 255, 256, 1000]), rng.randrange(256)])
            else:
                recs.append(plain(rng.randrange(0x400000), rng.choice([1, 2, 3, 100, 1000, 8190])))
        yield {"recs": recs, "delta": rng.choice(deltas + [rng.randrange(-0x1000, 0x1000)])}


def run(tier, seed):
    rng = random.Random(seed)
    cases = list(gen(tier, rng)) + list(gen_repeated(tier, rng))
    failures = []
    kinds = set()
    for c in cases:
        f = check_repeated(c) if c.get("repeated") else check(c)
        if f:
            kind = f.split(":")[0][:40] + ("/rle" if any(r[0] == "rle" for r in c["recs"]) else "")
            if kind in kinds or len(failures) >= 10:
                continue
            kinds.add(kind)
            failures.append({"ident": "bounded/include-ips" + ("/rle" if any(r[0] == "rle" for r in c["recs"]) else "/plain"), "script": "b_C13.py", "payload": c, "observed": f})
    return {"evaluations": len(cases), "distinct_nontrivial": len({str(c) for c in cases}),
            "rule": "the same directive expanded several times (loop / macro) with a per-expansion delta; IPS files built from record lists (plain, run-length, max-length, adjacent, overlapping, ending at the top of the 24-bit space, 'EOF'/'PATCH' bytes inside payloads / size fields / run lengths; 0-6 records) incl. lengths placing EOF "
                    "across the 8 KiB buffer edge, malformed variants (no header, truncated at 4 points), deltas of both signs, directive at several "
                    "placements; real pipeline vs independent reader; each distinct",
            "samples": cases[1:3], "failures": failures}


def replay(payload):
    f = check_repeated(payload) if payload.get("repeated") else check(payload)
    return {"failed": f is not None, "observed": f}


if __name__ == "__main__":
    main_protocol(run, replay)
