"""Bounded API-level sweep for C05 (cross-check of the proved contract + the text/label path): every branch mnemonic,
displacements from -300 to +300 (numeric targets and label targets), placements at the window edges, with/without @=,
both ROM mappings; RAM run addresses and RAM targets must be rejected."""
import random

from common import assemble, main_protocol

from vf.specs import isa65816 as isa


def blob_path(n):
    import os
    import tempfile
    path = os.path.join(tempfile.gettempdir(), f"vfC05-blob{n}.bin")
    with open(path, "wb") as f:
        f.write(bytes((7 * k + 1) & 0xFF for k in range(n)))
    return path


def build(case):
    mn, rom, start, reloc, d, style = case["mn"], case["rom"], case["start"], case["reloc"], case["d"], case["style"]
    run = reloc if reloc is not None else start
    lines = ([case["pre"]] if case.get("pre") else []) + [f"*={start:#x}"]
    if reloc is not None:
        lines.append(f"@={reloc:#x}")
    if case.get("blob"):
        lines.append(f".incbin '{blob_path(case['blob'])}'")   # an included binary BEFORE the branch and its label: both sit len(blob) bytes further
    if style == "numeric":
        lines.append(f"{mn} {run + 2 + d:#x}")
    elif style == "label" and d >= 0:
        lines.append(f"{mn} target")
        lines += [".db 0"] * d
        lines.append("target:")
    else:  # backward label, d <= -2
        lines = lines[:]
        lines.append("target:")
        lines += [".db 0"] * (-d - 2)
        lines.append(f"{mn} target")
    return "\n".join(lines) + "\n"


def check(case):
    src = build(case)
    res = assemble(src, rom_type=case["rom"])
    d = case["d"]
    op = isa.ISA[case["mn"]]["rel8"]
    must_reject = case.get("ram") or not (-128 <= d <= 127)
    if res["status"] == "timeout":
        return "timeout"
    if res["status"] != "ok":
        return None if must_reject else f"in-range branch (d={d}) rejected: {(res['error'] or res['exc'])[:80]}"
    blocks = res["blocks"][1:] if case.get("pre") else res["blocks"]
    got = b"".join(b for a, b in blocks)
    if case.get("blob"):
        got = got[case["blob"]:]
    if case["style"] == "label" and d < 0:
        got = got[-2:]
    else:
        got = got[:2]
    if must_reject:
        return f"must be rejected (d={d}, ram={case.get('ram')}) but assembled to {got.hex()}"
    want = bytes([op, d & 0xFF])
    if got != want:
        return f"d={d}: assembled to {got.hex()}, expected {want.hex()}"
    return None


def gen(tier, rng):
    from a816.cpu.cpu_65c816 import snes_opcode_table
    mns = [m for m in sorted(snes_opcode_table) if m in isa.BRANCHES]
    ds = list(range(-300, 301)) if tier == "thorough" else [-300, -200, -131, -130, -129, -128, -127, -126, -3, -2, -1, 0, 1, 2, 125, 126, 127, 128, 129, 130, 200, 256, 300]
    places = {"low_rom": [(0x008200, None), (0x00FF80, None), (0x808400, None), (0x008000 + 0x400, 0x018400), (0x028000 + 0x300, 0x808300)],
              "high_rom": [(0xC00200, None), (0xC0FE80, None), (0x400300, None), (0xC10400, 0xC20400)]}
    for rom, pl in places.items():
        for start, reloc in pl:
            for mn in (mns if tier == "thorough" or (start, reloc) == pl[0] else ["bra", rng.choice(mns)]):
                for d in ds:
                    for style in ("numeric", "label"):
                        if style == "label" and d == -1:
                            continue
                        run = reloc if reloc is not None else start
                        t = run + 2 + d
                        if (t >> 16) != (run >> 16) or (rom == "low_rom" and (t & 0xFFFF) < 0x8000):
                            continue  # same bank, in window only
                        if style == "label" and rom == "low_rom" and ((start + 2 + d) & 0xFFFF) < 0x8000:
                            continue
                        yield {"mn": mn, "rom": rom, "start": start, "reloc": reloc, "d": d, "style": style}
    # re-positioning to the very first ROM byte (file offset 0) after code was placed elsewhere
    for rom, start, pre in (("low_rom", 0x008000, "*=0x008040\nnop"), ("low_rom", 0x808000, "*=0x018040\nnop"), ("high_rom", 0xC00000, "*=0xC10040\nnop"),
                            ("high_rom", 0x400000, "*=0xC00400\nnop"), ("low_rom", 0x008100, "*=0x008040\nnop\n@=0x008000")):
        for d in (-2, 0, 1, 127, 128, 200):
            for style in ("numeric", "label"):
                yield {"mn": "bra", "rom": rom, "start": start, "reloc": None, "d": d, "style": style, "pre": pre}
    # an .incbin in front of the branch and of the label it targets (labels after an included binary are further down by its length, in every pass)
    for rom, start, reloc in (("low_rom", 0x008200, None), ("low_rom", 0x008400, 0x018400), ("high_rom", 0xC00200, None)):
        for mn in mns:
            for d in (-12, -2, 0, 5, 127):
                for n in (1, 5, 300):
                    yield {"mn": mn, "rom": rom, "start": start, "reloc": reloc, "d": d, "style": "label", "blob": n}
    # RAM run addresses (after @=) and RAM targets
    for mn in mns:
        for d in (-5, 0, 14, 100):
            yield {"mn": mn, "rom": "low_rom", "start": 0x008200, "reloc": 0x7E2000, "d": d, "style": "numeric", "ram": True}
            yield {"mn": mn, "rom": "high_rom", "start": 0xC00200, "reloc": 0x7F0100, "d": d, "style": "numeric", "ram": True}
            if d >= 0:
                yield {"mn": mn, "rom": "low_rom", "start": 0x008200, "reloc": 0x7E2000, "d": d, "style": "label", "ram": True}
    for mn in mns[:3]:
        yield {"mn": mn, "rom": "low_rom", "start": 0x008200, "reloc": None, "d": 0x7E0000 - 0x008202, "style": "numeric", "ram": True}


def run(tier, seed):
    rng = random.Random(seed)
    cases = list(gen(tier, rng))
    failures = []
    for c in cases:
        f = check(c)
        if f and len(failures) < 10:
            failures.append({"ident": "bounded/branch-sweep", "script": "b_C05.py", "payload": c, "observed": f + " :: " + build(c)[:120].replace("\n", " / ")})
    return {"evaluations": len(cases), "distinct_nontrivial": len({str(c) for c in cases}),
            "rule": "branch mnemonic x displacement (-300..300; quick: boundary set) x numeric/label target x placements at window edges, primary and "
                    "mirror ranges, ROM @= relocation, LoROM and HiROM; RAM run addresses and RAM targets; each distinct",
            "samples": [build(cases[0]), build(cases[-1])], "failures": failures}


def replay(payload):
    f = check(payload)
    return {"failed": f is not None, "observed": f, "program": build(payload)}


if __name__ == "__main__":
    main_protocol(run, replay)
