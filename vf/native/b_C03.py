"""Bounded stand-in for C03 (and shared with C02): generated programs through the real pipeline vs the independent reference
model vf/native/refasm.py: writer blocks (offset + bytes, order) must be identical."""
import random

import refasm
from common import assemble, main_protocol


USER_MAP_PROGRAM = ".map identifier=9 bank_range=0x00,0x3f addr_range=0x0000,0xffff mask=0x10000\n*=0x018000\n.db 1, 2, 3\n"


def check(case):
    if case.get("after_user_map"):
        # an EARLIER assembly in this process declared its own `.map`: the mapping in force for the next program is still the default one
        assemble(USER_MAP_PROGRAM)
    rng = random.Random(case["seed"])
    mapping = case["mapping"]
    prog = refasm.gen_program(rng, mapping, size=case.get("size", 8))
    src = refasm.render(prog, rng) + "\n"
    ref = refasm.Ref(refasm.LOROM if mapping == "low_rom" else refasm.HIROM)
    try:
        want_blocks, want_labels = ref.run(prog)
    except KeyError:
        return None, src  # the reference itself runs off the mapped range: outside the quantifier
    res = assemble(src, rom_type=mapping)
    if res["status"] != "ok":
        return f"valid program rejected: {res['error'] or res['exc']}", src
    got = [(a, b) for a, b in res["blocks"]]
    if got != want_blocks:
        for i, (g, w) in enumerate(zip(got, want_blocks)):
            if g != w:
                return f"block {i}: got offset {g[0]:#x} bytes {g[1].hex()[:40]}, expected offset {w[0]:#x} bytes {w[1].hex()[:40]}", src
        return f"{len(got)} blocks written, expected {len(want_blocks)}", src
    return None, src


def run(tier, seed):
    n = 600 if tier == "thorough" else 120
    failures = []
    samples = []
    nontrivial = 0
    for i in range(n):
        case = {"seed": seed * 100003 + i, "mapping": "low_rom" if i % 3 else "high_rom", "size": 6 + (i % 7), "after_user_map": i % 10 == 5}
        f, src = check(case)
        if src.count("\n") > 4:
            nontrivial += 1
        if i < 2:
            samples.append(src)
        if f and len(failures) < 8:
            failures.append({"ident": "bounded/blocks-vs-reference", "script": "b_C03.py", "payload": case, "observed": f + " :: " + src[:300].replace("\n", " / ")})
    return {"evaluations": n, "distinct_nontrivial": nontrivial,
            "rule": "seeded random program trees (data directives, implied/immediate/absolute instructions, labels incl. re-used names in inner scopes, "
                    "blocks, .for, .if/else, *= and @= moves to ROM and RAM, starts at bank-window edges so blocks cross banks) under LoROM and HiROM, every tenth one after another program that declared its own `.map`; "
                    "writer blocks compared with the independent reference model; non-trivial = more than 4 source lines",
            "samples": samples, "failures": failures}


def replay(payload):
    f, src = check(payload)
    return {"failed": f is not None, "observed": f, "program": src}


if __name__ == "__main__":
    main_protocol(run, replay)
