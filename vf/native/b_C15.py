"""Bounded stand-in for C15 (termination): the assembler is run under a watchdog on (a) every sequence of up to L snippets from a
token alphabet covering the whole token set (exhaustive for short sequences), (b) seeded longer sequences, (c) every truncation,
line deletion and line duplication of valid programs, (d) byte soup.  Any input that does not finish with an output or a
reported error within the time limit is a violation."""
import itertools
import os
import random
import signal
import subprocess
import sys
from multiprocessing import Pool

from common import REPO_ROOT, VERIF_ROOT, main_protocol

ALPHABET = ["nop", "lda", "lda.w", "lda.", "#", "0x10", "12", "0b1", "0", "(", ")", "[", "]", ",x", ",", "x", "label:", "name", "name.sub", ":=", "=", "*=", "@=",
            "{", "}", "{{", "}}", ".macro", ".if", ".for", "else", ".scope", ".db", ".dw", ".text", ".ascii", ".table", ".include", ".incbin", ".map", ".struct",
            "'abc'", "'abc", "'", ";", "; c", "/*", "*/", "/* c */", "/*/", "/*/ c", "/**", "/*/*", "+", "-", "*", "&", "|", "~", "<<", ">>", "==", "!=", "<", ">", "\n", " ", "\t", "\0", "$", "\\", ".", "rts ; c",
            "bra", "m(", "m()", "1,", "identifier=1", "bank_range=0,1", ".q", "byte",
            # characters outside ASCII: letters (str.isalpha), digits (str.isdigit / isnumeric), spaces (str.isspace), others
            "\u00e9", "caf\u00e9", "\u03bb:", "\u00fc", "\u0661", "\u00b2", "\u00a0", "\u2028", "\u00a7", "\ufeff", "\U0001f600"]
VALID = [
    "*=0x008000\nstart:\nlda #0x12\nsta.w 0x2100\n.macro m(a, b) {\n.db a, b\n}\nm(1, 2)\n{\nloop:\ndex\nbne loop\n}\nrts ; done\n",
    "*=0x008000\n.scope s {\nl:\nnop\n}\n.if 1 {\n.dw s.l\n} else {\n.db 0\n}\n.for i := 0, 3 {\n.db i\n}\n/* block\ncomment */\n.ascii 'text'\nlda (0x10),y\nlda [0x10],y\nlda (0x10,x)\nlda 0x10,x\n",
    ".map identifier=1 bank_range=0x00,0x3f addr_range=0x8000,0xffff mask=0x8000\n*=0x008000\n.macro w(code) {\nphp\n{{ code }}\nplp\n}\nw({\nnop\n})\nx := 3 + 4 * 2\ny = x << 2\n.dl y\n",
]


VALID += [
    # expansion-time reads (conditions, loop bounds, macro arguments) several scopes BELOW the definition, and of undefined names from there
    "DEBUG := 1\nn := 3\n.macro dbg() {\n.if DEBUG {\nnop\n}\n}\n*=0x008000\n.scope s {\n{\ndbg()\n.for k := 0, n {\n{\n.db k, n\n.if UNDEFINED {\nrts\n} else {\n.if DEBUG {\nclc\n}\n}\n}\n}\n}\n}\n",
    "*=0x008000\n.macro r(d) {\n.if d {\n{\nr(d - 1)\n}\n} else {\n.db top\n}\n}\ntop := 7\n{\n{\n{\nr(4)\n.if nowhere {\nnop\n}\n}\n}\n}\n",
]


# macros applying themselves: guarded recursions expand completely; unguarded ones (single, double, mutual, through a code block) hit the interpreter's
# recursion limit ONCE and the assembly ends with that error -- it is not retried level by level
RECURSIVE = [
    "*=0x008000\n.macro t(n) {\n.if n {\nt(n - 1)\nt(n - 1)\n}\nnop\n}\nt(3)\n",
    "*=0x008000\n.macro t(n) {\nt(n - 1)\nnop\n}\nt(3)\n",
    "*=0x008000\n.macro t(n) {\nt(n - 1)\nt(n - 1)\nnop\n}\nt(3)\n",
    "*=0x008000\n.macro t(n) {\nt(n - 1)\nt(n - 1)\nt(n - 1)\n}\nt(1)\n",
    "*=0x008000\n.macro a(n) {\nb(n)\nb(n)\n}\n.macro b(n) {\na(n)\na(n)\n}\na(1)\n",
    "*=0x008000\n.macro w(code) {\nw({\n{{ code }}\n})\nw({\nnop\n})\n}\nw({\nnop\n})\n",
    "*=0x008000\n.macro t(n) {\n.for k := 0, 2 {\nt(n)\n}\n}\nt(1)\n",
]


def nested(rng):
    """a program whose expansion-time reads sit `depth` scopes below the definitions (blocks, named scopes, loop iterations, macro applications)"""
    depth = rng.randint(2, 6)
    head = "*=0x008000\nFLAG := %d\ncount := %d\n.macro probe(v) {\n.if FLAG {\n.db v\n}\n.if MISSING {\nnop\n}\n}\n" % (rng.choice([0, 1]), rng.randint(0, 3))
    opens, closes = [], []
    for i in range(depth):
        k = rng.choice(["block", "scope", "for", "if"])
        opens.append({"block": "{", "scope": ".scope s%d {" % i, "for": ".for i%d := 0, count {" % i, "if": ".if FLAG {"}[k])
        closes.append("}")
    inner = rng.choice(["probe(count)", ".if FLAG {\nnop\n}", ".for j := 0, count {\n.db j\n}", ".if MISSING {\nnop\n} else {\nclc\n}", "probe(MISSING)", ".db count, FLAG"])
    return head + "\n".join(opens) + "\n" + inner + "\n" + "\n".join(closes) + "\n"


def run_one(src, limit=4):
    """-> 'ok' | 'error' | 'exception:<T>' | 'TIMEOUT' ; runs in this process under SIGALRM (the scanner/parser are pure Python loops)"""
    from common import assemble
    r = assemble(src, timeout=limit)
    if r["status"] == "timeout":
        return "TIMEOUT"
    if r["status"] == "exception":
        return "exception:" + r.get("exc_type", "?")
    return r["status"]


def _limit_memory():
    import resource
    resource.setrlimit(resource.RLIMIT_AS, (6 << 30, 6 << 30))  # a runaway expansion must not take the machine down with it


def worker(src):
    cwd = os.getcwd()
    try:
        return (src, run_one(src))
    except BaseException as e:  # noqa: BLE001
        return (src, "TIMEOUT" if type(e).__name__ == "Timeout" else "exception:" + type(e).__name__)


def mutations(src, rng, n):
    lines = src.split("\n")
    out = []
    for k in range(0, len(src), max(1, len(src) // n)):
        out.append(src[:k])
    for i in range(len(lines)):
        out.append("\n".join(lines[:i] + lines[i + 1:]))
        out.append("\n".join(lines[:i + 1] + lines[i:]))
    for _ in range(n):
        i = rng.randrange(len(src))
        out.append(src[:i] + rng.choice(["\0", "'", "/*", "{", "}", "(", "$", ".", "\n", ";"]) + src[i + rng.randrange(3):])
    return out


def gen(tier, rng):
    L = 3 if tier == "thorough" else 2
    seqs = []
    for n in range(1, L + 1):
        for combo in itertools.product(ALPHABET, repeat=n):
            if n == 3 and tier == "thorough" and rng.random() > 0.12:
                continue
            for sep in (" ", "\n") if n > 1 else ("",):
                seqs.append(sep.join(combo))
    for _ in range(4000 if tier == "thorough" else 600):
        k = rng.randint(3, 12)
        seqs.append(rng.choice([" ", "\n", ""]).join(rng.choice(ALPHABET) for _ in range(k)))
    for v in VALID:
        seqs += mutations(v, rng, 200 if tier == "thorough" else 60)
    seqs += VALID + RECURSIVE
    for _ in range(400 if tier == "thorough" else 80):
        seqs.append(nested(rng))
    for _ in range(300 if tier == "thorough" else 60):
        seqs.append("".join(chr(rng.choice([rng.randrange(1, 128), rng.randrange(0, 32), 0x27, 0x2F, 0x2A, 0x3B, 0x0A])) for _ in range(rng.randint(1, 40))))
    return seqs


def ensure_table():
    """the table file the deep-nesting inputs load: a fixed name in the temp directory, (re)created on demand so that a replay finds it too"""
    import tempfile
    path = os.path.join(tempfile.gettempdir(), "vfC15-table.tbl")
    with open(path, "w") as f:
        f.write("41=A\n42=B\n43=C\n")
    return path


def ensure_cycles():
    """files that include themselves / each other (fixed names in the temp directory, re-created on demand): the assembly ends with an error"""
    import tempfile
    d = tempfile.gettempdir()
    me = os.path.join(d, "vfC15-self.s")
    a, b = os.path.join(d, "vfC15-a.s"), os.path.join(d, "vfC15-b.s")
    open(me, "w").write(f"nop\n.include '{me}'\nrts\n")
    open(a, "w").write(f"nop\n.include '{b}'\n")
    open(b, "w").write(f"clc\n.include '{a}'\n")
    return [f"*=0x008000\n.include '{me}'\n", f"*=0x008000\n.include '{a}'\nrts\n", f"*=0x008000\n{{\n.include '{b}'\n}}\n"]


def deep(tbl):
    """deeply nested scopes (40-64 levels of blocks / named scopes) around statements that look something up through the whole chain: a table, a symbol,
    a macro -- the work per lookup grows with the depth, not exponentially in it"""
    out = []
    for depth in (24, 40, 64):
        for opener in ("{", ".scope s%d {"):
            opens = "".join((opener % i if "%" in opener else opener) + "\n" for i in range(depth))
            closes = "}\n" * depth
            out.append(f"*=0x008000\n.table '{tbl}'\n" + opens + ".text 'ABC'\n" + closes)
            out.append("*=0x008000\nouter := 5\n.macro m(v) {\n.db v\n}\n" + opens + ".db outer\nm(outer)\n.if outer {\nnop\n}\n" + closes)
            out.append("*=0x008000\n" + opens + ".text 'ABC'\n.db missing_name\n" + closes)
    # texts with a `[` that opens neither an escape nor a table entry and is never closed; struct bodies that are never closed
    for t in ("AB[", "[end", "A[0x4", "[[[", "A[0x41]B[", "[]", "["):
        out.append(f"*=0x008000\n.table '{tbl}'\n.text '{t}'\nrts\n")
    out += [".struct s {", ".struct s { ; doc", ".struct point {\nbyte x\n", ".struct s {\n", ".struct", ".struct s"]
    return out


def run(tier, seed):
    rng = random.Random(seed)
    seqs = gen(tier, rng)
    seqs += deep(ensure_table()) + ensure_cycles()
    old = os.getcwd()
    os.chdir("/tmp")
    try:
        with Pool(16, initializer=_limit_memory) as pool:
            results = pool.map(worker, seqs, chunksize=50)
    finally:
        os.chdir(old)
    failures = []
    hangs = [(s, r) for s, r in results if r == "TIMEOUT"]
    seen = set()
    for s, r in hangs:
        key = s[-12:]
        if key in seen or len(failures) >= 8:
            continue
        seen.add(key)
        failures.append({"ident": "bounded/termination", "script": "b_C15.py", "payload": {"src": s}, "observed": f"does not terminate within the watchdog limit: {s[:80]!r}"})
    return {"evaluations": len(seqs), "distinct_nontrivial": len(set(seqs)),
            "rule": "token-alphabet sequences (78 snippets covering every token kind, unterminated strings/comments, NUL, junk): all sequences of length <= 2 "
                    "(thorough: plus 12% of length 3) with space/newline separators, seeded sequences of 3-12 snippets, every truncation / line deletion / line "
                    "duplication / single-character corruption of 5 valid programs, guarded and unguarded (single / double / mutual / code-block / loop) self-applying macros, table / symbol / macro lookups from 24-64 nested scopes, files that include themselves or each other, programs whose expansion-time symbol reads sit 2-6 scopes below the definitions (or read undefined names from there), byte soup; each under a 4 s watchdog; distinct = distinct sources",
            "samples": [seqs[5], seqs[len(seqs) // 2][:80]], "failures": failures, "outcomes": {k: sum(1 for _, r in results if r.split(':')[0] == k) for k in ("ok", "error", "exception", "TIMEOUT")}}


def replay(payload):
    ensure_table()
    ensure_cycles()
    r = run_one(payload["src"], limit=6)
    return {"failed": r == "TIMEOUT", "observed": r}


if __name__ == "__main__":
    main_protocol(run, replay)
