"""Bounded (finite, enumerated) text-level part of C01: characters -> tokens -> (mode, index, size) -> bytes, through the
real scanner, parser, codegen and emitter, for every mnemonic x operand shape x suffix x boundary value x letter case.
Expected bytes come from the independent ISA matrix (vf/specs/isa65816.py) and the operand syntax, not from the assembler."""
import itertools
import random
from multiprocessing import Pool

from common import assemble, main_protocol

from vf.specs import isa65816 as isa
from vf.specs.supported_set import SUPPORTED

# operand syntax -> ISA form per width (None: the 65c816 defines no such addressing form)
SHAPES = {
    "": {"-": "imp"},
    "#E": {"b": "imm", "w": "imm"},
    "E": {"b": "dp", "w": "abs", "l": "long"},
    "E,x": {"b": "dp_x", "w": "abs_x", "l": "long_x"},
    "E,y": {"b": "dp_y", "w": "abs_y"},
    "E,s": {"b": "sr"},
    "(E)": {"b": "ind_dp", "w": "ind_abs"},
    "(E),y": {"b": "ind_dp_y"},
    "(E),x": {}, "(E),s": {},
    "[E]": {"b": "lng_dp", "w": "lng_abs"},
    "[E],y": {"b": "lng_dp_y"},
    "[E],x": {}, "[E],s": {},
    "(E,x)": {"b": "ind_dp_x", "w": "ind_abs_x"},
    "(E,y)": {}, "(E,s)": {},
    "(E,s),y": {"b": "ind_sr_y"},
    "(E,x),y": {}, "(E,y),y": {}, "(E,s),x": {}, "(E,x),x": {},
    "#E,x": {}, "#E,y": {},
}
# the assembler's (mode, index) for a shape, to look the cell up in the frozen supported set
SHAPE_CELL = {"": ("none", None), "#E": ("immediate", None), "E": ("direct", None), "E,x": ("direct_indexed", "x"), "E,y": ("direct_indexed", "y"),
              "E,s": ("direct_indexed", "s"), "(E)": ("indirect", None), "(E),y": ("indirect_indexed", "y"), "[E]": ("indirect_long", None),
              "[E],y": ("indirect_indexed_long", "y"), "(E,x)": ("dp_or_sr_indirect_indexed", "x"), "(E,s),y": ("stack_indexed_indirect_indexed", "y")}


def width_of(v):
    return "b" if v <= 0xFF else "w" if v <= 0xFFFF else "l"


def render(mn, shape, suffix, value, variant):
    """variant bits: 1 mnemonic upper, 2 suffix upper, 4 index upper, 8 hex digits upper, 16 extra spaces"""
    e = hex(value)
    if variant & 8:
        e = "0x" + e[2:].upper()
    op = shape.replace("E", e)
    if variant & 4:
        op = op.replace(",x", ",X").replace(",y", ",Y").replace(",s", ",S")
    if variant & 16:
        op = op.replace(",", " , ").replace("(", "( ").replace("[", "[ ")
    m = mn.upper() if variant & 1 else mn
    s = ("." + (suffix.upper() if variant & 2 else suffix)) if suffix else ""
    return f"{m}{s} {op}".rstrip()


def expected_for(mn, shape, suffix, value):
    """-> ('bytes', bytes, must_accept) | ('reject',)"""
    if shape == "":
        if suffix:
            return ("reject",)
        opc = isa.opcode(mn, "imp", None)
        if opc is None:
            return ("reject",)
        return ("bytes", bytes([opc]), (mn, "none", None, None) in SUPPORTED)
    w = suffix or width_of(value)
    form = SHAPES[shape].get(w)
    opc = isa.opcode(mn, form, w)
    if opc is None:
        return ("reject",)
    k = {"b": 1, "w": 2, "l": 3}[w]
    data = bytes([opc]) + bytes((value >> (8 * i)) & 0xFF for i in range(k))
    cell = SHAPE_CELL.get(shape)
    return ("bytes", data, cell is not None and (mn, cell[0], cell[1], w) in SUPPORTED)


def check_stmt(args):
    mn, shape, suffix, value, variant = args
    stmt = render(mn, shape, suffix, value, variant)
    exp = expected_for(mn, shape, suffix, value)
    res = assemble("*=0x008000\n" + stmt + "\n")
    if res["status"] == "timeout":
        return (args, stmt, "timeout")
    if res["status"] != "ok":
        if exp[0] == "bytes" and exp[2]:
            return (args, stmt, f"supported statement rejected ({(res['error'] or res['exc'] or '')[:80]!r}); expected {exp[1].hex()}")
        return None
    got = b"".join(b for a, b in res["blocks"])
    if exp[0] == "reject":
        return (args, stmt, f"the 65c816 defines no such instruction but it assembled to {got.hex()}")
    if got != exp[1]:
        return (args, stmt, f"assembled to {got.hex()}, the ISA says {exp[1].hex()}")
    return None


def enumerate_cases(tier, rng):
    from a816.cpu.cpu_65c816 import snes_opcode_table

    mnemonics = [m for m in sorted(snes_opcode_table) if m not in isa.BRANCHES]
    values_all = [0x10, 0xFF, 0x100, 0x1234, 0xFFFF, 0x10000, 0x123456]
    for mn in mnemonics:
        for shape in SHAPES:
            for suffix in ("", "b", "w", "l"):
                vals = values_all if tier == "thorough" else ([0x10, 0x100, 0x10000] if not suffix else [0x12])
                if shape == "":
                    vals = [0]
                for v in vals:
                    variants = range(32) if tier == "thorough" and v in (0x10, 0x1234) else (0, 4 if "," in shape else 2, rng.choice([1, 6, 8, 15, 16, 31]))
                    for variant in variants:
                        yield (mn, shape, suffix, v, variant)


# operands written as EXPRESSIONS whose value decides the width: chains of equal-precedence operators group from the left
EXPRESSION_STATEMENTS = [("lda #10-3-2", "a905"), ("lda 0x1000>>4>>4", "a510"), ("sta 0x2100-0x80-0x80", "8d0020"), ("lda #2*3+4*5", "a91a"), ("lda 0x100-1", "a5ff"),
                         ("lda 0xff+1", "ad0001"), ("lda.w #1<<4<<4", "a90001"), ("jmp 0x10000-1-0", "4cffff"), ("lda 0x20-0x10+0x100", "ad1001")]


def run(tier, seed):
    rng = random.Random(seed)
    cases = list(enumerate_cases(tier, rng))
    with Pool(16) as pool:
        results = pool.map(check_stmt, cases, chunksize=200)
    failures = []
    seen_kinds = set()
    for r in results:
        if r is None:
            continue
        args, stmt, why = r
        kind = (args[0], args[1], args[2] or width_of(args[3]), why.split(" ")[0])
        if kind in seen_kinds:
            continue
        seen_kinds.add(kind)
        if len(failures) < 40:
            ident = "bounded/text/" + args[1].replace("E", "e") + ("/" + args[0] if args[1] in SHAPE_CELL else "")
            failures.append({"ident": ident, "script": "b_C01.py", "payload": {"args": list(args)}, "observed": f"`{stmt}`: {why}"})
    for stmt, want in EXPRESSION_STATEMENTS:
        res = assemble("*=0x008000\n" + stmt + "\n")
        got = b"".join(b for a, b in res["blocks"]).hex() if res["status"] == "ok" else f"rejected ({(res['error'] or res['exc'] or '')[:60]})"
        if got != want:
            failures.append({"ident": "bounded/text/expression-operand", "script": "b_C01.py", "payload": {"stmt": stmt, "want": want}, "observed": f"`{stmt}`: assembled to {got}, the ISA says {want}"})
    distinct = len({(c[0], c[1], c[2], c[3]) for c in cases})
    return {"evaluations": len(cases), "distinct_nontrivial": distinct, "exhaustive": False,
            "rule": "every non-branch mnemonic of the live table x 24 operand shapes (incl. malformed index combinations) x suffix (none,.b,.w,.l) "
                    "x boundary values x letter-case/spacing variants, assembled through the real pipeline and compared with the ISA matrix; "
                    "distinct = distinct (mnemonic, shape, suffix, value)",
            "samples": [render(*c) for c in cases[:3]] + [render(*cases[len(cases) // 2])], "failures": failures}


def replay(payload):
    if "stmt" in payload:
        res = assemble("*=0x008000\n" + payload["stmt"] + "\n")
        got = b"".join(b for a, b in res["blocks"]).hex() if res["status"] == "ok" else "rejected"
        return {"failed": got != payload["want"], "observed": got, "statement": payload["stmt"]}
    r = check_stmt(tuple(payload["args"]))
    return {"failed": r is not None, "observed": r[2] if r else None, "statement": render(*payload["args"])}


if __name__ == "__main__":
    main_protocol(run, replay)
