"""Bounded stand-in for C08: generated nestings of blocks, named scopes, macro applications and loops with definitions and
references placed backward / forward / shadowing / re-used in sibling scopes / qualified through named scopes, identifier shapes
incl. leading underscores and digits; the real pipeline vs the reference model's lexical resolution.  Metamorphic: consistent
renaming of a scope-local name, and adding unrelated definitions in another scope, leave the output unchanged."""
import random
import re

import refasm
from common import assemble, main_protocol

NAMES = ["loop", "_loop", "l1", "Done", "x_9", "_", "skip2", "A"]


def gen_scope_body(rng, depth, counter, named_ok=True):
    out = []
    local = []
    for _ in range(rng.randint(2, 5)):
        r = rng.random()
        if r < 0.35:
            name = rng.choice(NAMES)
            if name not in local:
                local.append(name)
                out.append(("label", name))
                out.append(("op", rng.choice(refasm.IMPLIED)))
        elif r < 0.6 and local:
            out.append(("abs", rng.choice(["jmp", "lda", "sta"]), rng.choice(local), "w"))
        elif r < 0.75 and depth < 3:
            out.append(("block", gen_scope_body(rng, depth + 1, counter)))
        elif r < 0.9 and depth < 2 and named_ok:
            counter["n"] += 1
            sname = f"s{counter['n']}"
            body = gen_scope_body(rng, depth + 1, counter, named_ok=False)
            inner = [s[1] for s in body if s[0] == "label"]
            ref_before = rng.random() < 0.5
            if inner and ref_before:
                out.append(("dw", [f"{sname}.{rng.choice(inner)}"]))
            out.append(("scope", sname, body))
            if inner:
                out.append(("abs", "jmp", f"{sname}.{rng.choice(inner)}", "w"))
        elif depth < 2:
            if rng.random() < 0.5:
                out.append(("for", "i", 0, rng.randrange(1, 3), [("label", rng.choice(NAMES)), ("db", ["i"])]))
            else:
                # a named scope inside each loop iteration, referenced (qualified) from that iteration
                counter["n"] += 1
                sname = f"it{counter['n']}"
                out.append(("for", "i", 0, rng.randrange(1, 4), [("scope", sname, [("op", "nop"), ("label", "here"), ("db", ["i"])]), ("abs", "jmp", f"{sname}.here", "w")]))
    # forward reference inside the scope
    if local and rng.random() < 0.7:
        out.insert(0, ("dw", [rng.choice(local)]))
    return out


def gen(rng):
    counter = {"n": 0}
    prog = [("star", rng.choice([0x008000, 0x018000])), ("label", "top"), ("op", "nop")]
    prog += gen_scope_body(rng, 0, counter)
    prog.append(("macro", "mk", ["v"], [("label", "loop"), ("db", ["v"]), ("abs", "jmp", "loop", "w")]))
    prog.append(("apply", "mk", [1]))
    prog.append(("apply", "mk", ["top"]))
    prog.append(("abs", "jmp", "top", "w"))
    return prog


def rename_in_first_scope(prog, rng):
    """Consistently rename one label of the first block/scope found (definitions and references inside that scope only)."""
    for idx, st in enumerate(prog):
        if st[0] in ("block", "scope"):
            body = st[1] if st[0] == "block" else st[2]
            names = [s[1] for s in body if s[0] == "label"]
            if not names or st[0] == "scope":
                continue
            old = names[0]
            new = old + "_renamed"

            def ren(x):
                if isinstance(x, str) and x == old:
                    return new
                if isinstance(x, list):
                    return [ren(y) for y in x]
                if isinstance(x, tuple):
                    if x[0] in ("block", "scope", "for") :
                        return x  # inner scopes may shadow: keep the renaming to this scope's own statements
                    return tuple(ren(y) for y in x)
                return x
            if any(old in str(s) for s in body if s[0] in ("block", "scope", "for")):
                continue
            return prog[:idx] + [("block", [ren(s) for s in body])] + prog[idx + 1:]
    return None


def add_unrelated(prog):
    return prog + [("block", [("label", "loop"), ("label", "_loop"), ("const", "unrelated", 99), ("label", "top")])]


def blocks_of(prog, rng_seed):
    src = refasm.render(prog, random.Random(rng_seed)) + "\n"
    return assemble(src), src


def check(case):
    rng = random.Random(case["seed"])
    prog = gen(rng)
    res, src = blocks_of(prog, case["seed"])
    try:
        want, labels = refasm.Ref(refasm.LOROM).run(prog)
    except KeyError:
        return None, src
    if res["status"] != "ok":
        return f"lexically valid program rejected: {res['error'] or res['exc']}", src
    got = [(a, b) for a, b in res["blocks"]]
    if got != want:
        for i, (g, w) in enumerate(zip(got, want)):
            if g != w:
                n = next((k for k, (x, y) in enumerate(zip(g[1], w[1])) if x != y), min(len(g[1]), len(w[1])))
                return f"block {i} byte {n}: got {g[1][max(0, n - 1):n + 3].hex()} but lexical resolution gives {w[1][max(0, n - 1):n + 3].hex()}", src
        return "block count differs", src
    ren = rename_in_first_scope(prog, rng)
    if ren is not None:
        r2, s2 = blocks_of(ren, case["seed"])
        if r2["status"] != "ok" or [(a, b) for a, b in r2["blocks"]] != got:
            return f"renaming a scope-local name changed the result ({r2['status']}: {r2['error'] or r2['exc'] or 'bytes differ'})", s2
    r3, s3 = blocks_of(add_unrelated(prog), case["seed"])
    if r3["status"] != "ok" or [(a, b) for a, b in r3["blocks"]] != got:
        return f"an unrelated definition in another scope changed the result ({r3['status']}: {r3['error'] or r3['exc'] or 'bytes differ'})", s3
    return None, src


def run(tier, seed):
    n = 800 if tier == "thorough" else 150
    failures = []
    samples = []
    distinct = set()
    for i in range(n):
        case = {"seed": seed * 999983 + i}
        f, src = check(case)
        distinct.add(src)
        if i < 1:
            samples.append(src)
        if f and len(failures) < 8:
            failures.append({"ident": "bounded/lexical-scoping", "script": "b_C08.py", "payload": case, "observed": f + " :: " + src[:500].replace("\n", " / ")})
    return {"evaluations": n, "distinct_nontrivial": len(distinct),
            "rule": "seeded nestings (blocks to depth 3, named scopes with qualified references placed before and after the scope, loops with local labels, "
                    "two applications of a macro with a local label) using 8 identifier shapes incl. leading underscores; each also renamed / extended "
                    "with unrelated definitions (metamorphic); vs the reference model; distinct sources",
            "samples": samples, "failures": failures}


def replay(payload):
    f, src = check(payload)
    return {"failed": f is not None, "observed": f, "program": src}


if __name__ == "__main__":
    main_protocol(run, replay)
