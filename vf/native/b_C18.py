"""Bounded stand-in for C18: generated tables written as real .tbl files and loaded through the real `.table` directive
(single/multi-character texts, single/multi-byte codes, overlapping prefixes, whitespace texts), strings over the table
alphabet + escapes + unknown characters: emitted bytes vs the reference encoder; decode round trip for unique prefix-free
codes; nested scopes use the enclosing table unless they load their own; layout size; the assumed hex-pair model vs the real function."""
import os
import random
import shutil
import tempfile

from common import assemble, main_protocol

from vf.specs import stubs, table_ref


def gen_table(rng, prefix_free_codes=True):
    texts = set()
    # letters, digits, blank and punctuation, and characters outside ASCII (accented Latin, kana, a symbol) as real script tables hold them
    pool = "abcdeXYZ 01_-" + ("\u00e9\u00f4\u30a2\u00a7" if rng.random() < 0.5 else "")
    r = rng.random()
    if r < 0.15:
        # characters some line-splitting functions treat as line boundaries although a text file's lines do not end there
        pool += "\x0b\x0c\x1c\x1d\x1e\x85\u2028\u2029"
    elif r < 0.3:
        # entries that are a prefix of the escape syntax: the escape still emits its raw byte
        texts |= set(rng.sample(["[", "[0", "[0x", "]", "0x", "x"], rng.randint(1, 3)))
    while len(texts) < rng.randint(2, 7):
        t = "".join(rng.choice(pool) for _ in range(rng.choice([1, 1, 1, 2, 3])))
        if t.strip() == "" and len(t) > 1:
            continue
        texts.add(t)
    texts |= {"a", "b", "ab"} if rng.random() < 0.5 else set()
    entries = {}
    used = set()
    for t in sorted(texts):
        while True:
            code = bytes(rng.randrange(1, 250) for _ in range(rng.choice([1, 1, 2])))
            if prefix_free_codes and any(code.startswith(u) or u.startswith(code) for u in used):
                continue
            if code in used:
                continue
            used.add(code)
            entries[t] = code
            break
    return entries


def table_file(entries, path):
    with open(path, "w", encoding="utf-8") as f:
        for t, code in entries.items():
            f.write(f"{code.hex().upper()}={t}\n")


def gen_text(rng, entries):
    alphabet = sorted({c for t in entries for c in t}) + ["?", "#"]
    parts = []
    for _ in range(rng.randint(0, 8)):
        r = rng.random()
        if r < 0.6:
            parts.append(rng.choice(list(entries)))
        elif r < 0.75:
            parts.append(f"[0x{rng.randrange(256):02X}]" if rng.random() < 0.7 else f"[0x{rng.randrange(16):x}]")
        elif r < 0.8:
            # NOT escapes (the syntax is `[0x` + hex digits + `]` exactly): capital X, a blank inside, no digits, a missing bracket -- ordinary characters
            parts.append(rng.choice(["[0X41]", "[0x 41]", "[0x]", "[0x41", "0x41]", "[ 0x41]", "[0xG1]"]))
        else:
            parts.append(rng.choice(alphabet))
    return "".join(parts).replace("'", "")


def matched_entries(entries, text):
    """texts of the entries matched by longest match at each position, or None when the text holds an escape or a character no entry covers"""
    if "[" in text:
        return None
    longest = max(len(k) for k in entries)
    out, p = [], 0
    while p < len(text):
        for m in range(min(longest, len(text) - p), 0, -1):
            if text[p:p + m] in entries:
                out.append(text[p:p + m])
                p += m
                break
        else:
            return None
    return out


def check(case):
    rng = random.Random(case["seed"])
    entries = gen_table(rng)
    text = gen_text(rng, entries)
    d = tempfile.mkdtemp(prefix="vfC18")
    try:
        path = os.path.join(d, "t.tbl")
        table_file(entries, path)
        want = bytes(table_ref.encode(entries, text))
        nest = case["nest"]
        if nest == 0:
            src = f"*=0x008000\n.table '{path}'\n.text '{text}'\nafter:\n"
        elif nest == 1:
            src = f"*=0x008000\n.table '{path}'\n{{\n{{\n.text '{text}'\n}}\n}}\nafter:\n"
        elif nest == 2:
            src = f"*=0x008000\n.table '{path}'\n.macro say() {{\n.text '{text}'\n}}\n{{\nsay()\n}}\nafter:\n"
        elif nest == 5:
            # a second .table in the SAME scope replaces the first: later text uses the new table only, earlier text keeps what it was encoded with
            other = os.path.join(d, "o.tbl")
            table_file({"q": b"\x99", "?": b"\x98\x97", "#": b"\x96", "??": b"\x95"}, other)
            src = f"*=0x008000\n.table '{other}'\n.text 'q'\n.table '{path}'\n.text '{text}'\nafter:\n"
            want = b"\x99" + want
        elif nest == 4:
            # a loop body that loads its own table: each iteration uses it, the text after the loop uses the enclosing scope's table again
            other = os.path.join(d, "o.tbl")
            table_file({"q": b"\x99"}, other)
            src = f"*=0x008000\n.table '{other}'\n.for k := 0, 2 {{\n.table '{path}'\n.text '{text}'\n}}\n.text 'q'\nafter:\n"
            want = want + want + b"\x99"
        else:
            other = os.path.join(d, "o.tbl")
            table_file({"q": b"\x99"}, other)
            src = f"*=0x008000\n.table '{other}'\n{{\n.table '{path}'\n{{\n.text '{text}'\n}}\n}}\n.text 'q'\nafter:\n"
            want = want + b"\x99"
        res = assemble(src)
        if res["status"] != "ok":
            return f"rejected: {res['error'] or res['exc']}", src
        got = b"".join(b for a, b in res["blocks"])
        if got != want:
            return f".text '{text}' with table {entries}: emitted {got.hex()}, reference {want.hex()}", src
        after = res["program"].resolver.scopes[0].symbols.get("after")
        if after != 0x008000 + len(want):
            return f"layout: label after the text = {after:#x}, expected {0x008000 + len(want):#x}", src
        # decode round trip (prefix-free unique codes): texts of the matched entries in order, raw bytes as escapes
        from script import Table
        t = Table(path)
        dec = t.to_text(bytes(table_ref.encode(entries, "".join(c for c in text))))
        matched = matched_entries(entries, text)
        if matched is not None and dec != "".join(matched):
            # every position of the text is covered by a (longest-match) entry and the codes are unique and prefix-free: decoding returns those entries' texts
            return f"round trip: decode({want.hex()}) = {dec!r}, the matched entries are {matched}", src
        if "[" not in text and all(ch in "".join(entries) for ch in text):
            # re-encode the decoded text: must give the same bytes
            if bytes(table_ref.encode(entries, dec)) != bytes(table_ref.encode(entries, text)):
                return f"round trip: decode({want.hex()}) = {dec!r} does not re-encode to the same bytes", src
        return None, src
    finally:
        shutil.rmtree(d, ignore_errors=True)


def check_hex_model(rng):
    from script import Table
    for _ in range(200):
        s = "".join(rng.choice("0123456789abcdefABCDEF") for _ in range(rng.choice([2, 4, 6, 3, 1])))
        try:
            a = Table.transform_byte_matches_to_int(s)
        except ValueError:
            a = "ValueError"
        try:
            b = stubs.pairs_of_hex_model(s)
        except ValueError:
            b = "ValueError"
        if a != b:
            return f"assumed contract of transform_byte_matches_to_int disagrees with the real function on {s!r}: {a} vs {b}"
    return None


def run(tier, seed):
    rng = random.Random(seed)
    n = 1200 if tier == "thorough" else 200
    failures = []
    distinct = set()
    samples = []
    for i in range(n):
        case = {"seed": seed * 7368787 + i, "nest": i % 6}
        f, src = check(case)
        distinct.add(src.split("tbl'")[-1])
        if i < 1:
            samples.append(src)
        if f and len(failures) < 8:
            failures.append({"ident": "bounded/table-text", "script": "b_C18.py", "payload": case, "observed": f})
    f = check_hex_model(rng)
    if f:
        failures.append({"ident": "bounded/assumed-hex-model", "script": "b_C18.py", "payload": {"hexmodel": seed}, "observed": f})
    return {"evaluations": n + 200, "distinct_nontrivial": len(distinct),
            "rule": "seeded tables (2-9 entries, 1-3 character texts incl. blanks and overlapping prefixes a/b/ab, unique prefix-free 1-2 byte codes) as real "
                    ".tbl files loaded by `.table`; texts mixing entries, escapes and unknown characters; at 6 scope placements (same scope, a second table replacing the first in one scope, two blocks down, a loop body with its own table, "
                    "inside a macro applied in a block, inner scope with its own table); emitted bytes, layout label and re-encoding of the decoded text",
            "samples": samples, "failures": failures}


def replay(payload):
    if "hexmodel" in payload:
        f = check_hex_model(random.Random(payload["hexmodel"]))
        return {"failed": f is not None, "observed": f}
    f, src = check(payload)
    return {"failed": f is not None, "observed": f, "program": src}


if __name__ == "__main__":
    main_protocol(run, replay)
