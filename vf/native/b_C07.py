"""Bounded stand-in for the text-level part of C07 (list parsing, .ascii, .incbin with real files), real pipeline."""
import os
import random
import string

# every printable ASCII character a quoted text can hold verbatim (the quote itself and the line end excluded), the backslash included
ASCII_TEXT = "".join(c for c in string.printable[:95] if c not in "'\n\r\x0b\x0c") + "\t"  # a TAB inside a text is a character like any other
import shutil
import tempfile

from common import assemble, main_protocol

from vf.specs import busmath


def le(v, k):
    return bytes((v >> (8 * i)) & 0xFF for i in range(k))


def lit(v, rng):
    if v < 0:
        return f"-{lit(-v, rng)}" if rng.random() < 0.5 else f"0-{lit(-v, rng)}"
    return rng.choice([str(v), hex(v), hex(v).upper().replace("0X", "0x")])


def run_case(case):
    """case: {'stmts': [[kind, payload]...], 'start': addr} -> failure string or None"""
    tmp = os.path.join(tempfile.gettempdir(), f"vfC07-{os.getpid()}")  # same paths re-used with new content across cases
    os.makedirs(tmp, exist_ok=True)
    try:
        lines = [f"*={case['start']:#x}"]
        expected = b""
        syms = {}
        off0 = busmath.lorom_offset(case["start"])
        for i, (kind, payload) in enumerate(case["stmts"]):
            if kind in ("db", "dw", "dl", "pointer"):
                k = {"db": 1, "dw": 2, "dl": 3, "pointer": 3}[kind]
                lines.append(f".{kind} " + payload["text"])
                for v in payload["values"]:
                    expected += le(v, k)
            elif kind == "ascii":
                lines.append(f".ascii '{payload}'")
                expected += payload.encode("ascii", errors="ignore")  # characters outside ASCII are not emitted (and take no room in the layout)
            elif kind == "incbin":
                if "same_as" in payload:
                    # the SAME file included again (a sprite sheet, a font used twice): verbatim again; its start symbol names the last copy
                    path = os.path.join(tmp, f"blob{payload['same_as']}.bin")
                    data = open(path, "rb").read()
                else:
                    path = os.path.join(tmp, f"blob{i}.bin")
                    data = bytes(payload["data"]) if "data" in payload else bytes((j * 7 + payload["seed"]) & 0xFF for j in range(payload["len"]))
                    with open(path, "wb") as f:
                        f.write(data)
                lines.append(f".incbin '{path}'")
                base = path.replace("/", "_").replace(".", "_")
                syms[base] = busmath.rom_address(0, 0x8000, off0 + len(expected))
                syms[base + "__size"] = len(data)
                expected += data
        lines.append("after_all:")
        src = "\n".join(lines) + "\n"
        res = assemble(src)
        if res["status"] != "ok":
            return f"rejected: {res['error'] or res['exc']}"
        got = b"".join(b for a, b in res["blocks"])
        if res["blocks"] and res["blocks"][0][0] != off0:
            return f"first block at {res['blocks'][0][0]:#x}, expected {off0:#x}"
        pos = off0
        for a, b in res["blocks"]:
            if a != pos:
                return f"a block of {len(b)} bytes is written at {a:#x}, the bytes before it end at {pos:#x} (no `*=` in this program: the output is one contiguous run)"
            pos += len(b)
        if got != expected:
            n = next((i for i, (x, y) in enumerate(zip(got, expected)) if x != y), min(len(got), len(expected)))
            return f"bytes differ at {n}: got {got[n:n+8].hex()} expected {expected[n:n+8].hex()} (lengths {len(got)}/{len(expected)})"
        scope = res["program"].resolver.current_scope
        want_after = busmath.rom_address(0, 0x8000, off0 + len(expected))
        if scope.symbols.get("after_all") != want_after:
            return f"label after the directives = {scope.symbols.get('after_all'):#x}, expected {want_after:#x}"
        for k, v in syms.items():
            if scope.symbols.get(k) != v:
                return f"symbol {k} = {scope.symbols.get(k)}, expected {v}"
        return None
    finally:
        if case.get("last", True):
            shutil.rmtree(tmp, ignore_errors=True)


def gen_case(rng, big):
    stmts = []
    for _ in range(rng.randint(1, 4)):
        kind = rng.choice(["db", "dw", "dl", "pointer", "db", "dw", "dl", "ascii", "incbin"])
        if kind in ("db", "dw", "dl", "pointer"):
            vals = [rng.choice([0, 1, 0xFF, 0x100, 0xFFFF, 0x10000, 0xFFFFFF, 0x1000000, 0x12345678, 0xFFFFFFFF, 0x100000000, 0x80123456, -1, -2, -128,
                                -0x8000, -0x800000, -0x12345678, rng.randint(-2**33, 2**33)]) for _ in range(rng.randint(1, 5))]
            sep = rng.choice([", ", ",", " , "])
            stmts.append([kind, {"values": vals, "text": sep.join(lit(v, rng) for v in vals)}])
        elif kind == "ascii":
            stmts.append(["ascii", "".join(rng.choice(ASCII_TEXT) for _ in range(rng.randint(0, 12))).rstrip("\\")])
        else:
            ln = rng.choice([0, 1, 2, 0x20, 0x7FFF, 0x8000, 0x8001, 0x10010]) if big else rng.choice([0, 1, 2, 0x20, 0x1FF])
            stmts.append(["incbin", {"len": ln, "seed": rng.randint(0, 255)}])
    start = rng.choice([0x008000, 0x00FFF0, 0x018000, 0x02FFFE, 0x10FFFF])
    return {"stmts": stmts, "start": start}


def run(tier, seed):
    rng = random.Random(seed)
    failures = []
    n = 200 if tier == "thorough" else 40
    distinct = set()
    samples = []
    history = []
    fixed = [{"stmts": [["ascii", ASCII_TEXT], ["db", {"values": [1], "text": "1"}]], "start": 0x008000},  # every printable character at once (backslash, quotes, brackets, ;)
             {"stmts": [["ascii", "C:\\SNES\\rom.sfc"], ["ascii", "a\\b\\\\c"]], "start": 0x00FFF0},
             {"stmts": [["ascii", "A\tB\t\tC"], ["db", {"values": [9, 4, 5], "text": "(1 + 2) * 3, 4, 5"}], ["dw", {"values": [0x12, 0x1234], "text": "(0x1200 >> 8) & 0xFF, (0x12 << 8) + 0x34"}],
                        ["dl", {"values": [3, -1], "text": "(1 + 2), -1"}]], "start": 0x008000},
             # texts that look like something else to a helper shared with path directives: home-directory / environment / glob / escape syntax
             {"stmts": [["incbin", {"len": 5, "seed": 3}], ["db", {"values": [0xAA], "text": "0xAA"}], ["incbin", {"same_as": 0}], ["incbin", {"len": 0, "seed": 0}], ["incbin", {"same_as": 0}]], "start": 0x008000},
             # one contiguous run of more than 64 KiB in which a multi-byte statement straddles the 0xFFFF-th byte
             {"stmts": [["db", {"values": [1], "text": "1"}], ["incbin", {"len": 0x12345, "seed": 5}], ["dw", {"values": [0x1234], "text": "0x1234"}]], "start": 0x008000},
             {"stmts": [["db", {"values": [1], "text": "1"}], ["dl", {"values": [0x10000 + k for k in range(0x5560)], "text": ",".join(hex(0x10000 + k) for k in range(0x5560))}], ["db", {"values": [2], "text": "2"}]],
              "start": 0x008000},
             # long lists (tables of a thousand and more entries are ordinary): every value, in order
             {"stmts": [["db", {"values": [k & 0xFF for k in range(1500)], "text": ", ".join(str(k & 0xFF) for k in range(1500))}],
                        ["dw", {"values": [0x1000 + k for k in range(1100)], "text": ",".join(hex(0x1000 + k) for k in range(1100))}]], "start": 0x008000},
             # characters outside ASCII (dropped, in the layout too) and double quotes (ordinary characters) inside the text
             {"stmts": [["ascii", "caf\u00e9 au lait"], ["ascii", "\u00e9"], ["ascii", 'say "hi" twice'], ["ascii", '"'], ["db", {"values": [7], "text": "7"}]], "start": 0x008000},
             # an escaped quote (backslash + quote, both emitted) at the end, at the start, alone, and doubled: only the two DELIMITERS are dropped
             {"stmts": [["ascii", "say \\'hi\\'"], ["ascii", "\\'"], ["ascii", "\\'a"], ["ascii", "a\\'"], ["ascii", "\\'\\'"], ["db", {"values": [7], "text": "7"}]], "start": 0x008000},
             {"stmts": [["ascii", "~/SAVE 1"], ["ascii", "~"], ["ascii", "$HOME %PATH% *.bin"], ["ascii", "~root/x"]], "start": 0x008000}]
    for i in range(n):
        case = fixed[i] if i < len(fixed) else gen_case(rng, big=(i % 5 == 0))
        case["last"] = i == n - 1
        distinct.add(str(case))
        f = run_case(case)
        if i < 2:
            samples.append(case)
        if f and len(failures) < 6:
            failures.append({"ident": "bounded/data-directives", "script": "b_C07.py", "payload": dict(case, history=[h for h in history if any(k == "incbin" for k, _ in h["stmts"])][-6:]), "observed": f})
        history.append(case)
    return {"evaluations": n, "distinct_nontrivial": len(distinct),
            "rule": "a file included several times, lists of 1 500 and 1 100 values, four fixed .ascii programs (incl. escaped quotes at either end of the text) holding every printable character and path-like texts, then seeded programs of 1-4 data directives (.db/.dw/.dl/.pointer lists with boundary, negative and over-wide values in several "
                    "literal styles and separators, .ascii, .incbin of real temp files incl. lengths crossing bank ends) at window-edge start "
                    "addresses; output bytes, first offset, trailing label and incbin symbols compared with the statement's definition",
            "samples": samples, "failures": failures}


def replay(payload):
    for prev in payload.get("history", []):
        prev["last"] = False
        run_case(prev)
    payload["last"] = True
    f = run_case(payload)
    return {"failed": f is not None, "observed": f}


if __name__ == "__main__":
    main_protocol(run, replay)
