"""Bounded text-level part of C06: expression TEXTS (all operators, parentheses, literals in all bases and letter cases, symbols,
spacing variants) evaluated in every context that accepts their operators, through the real scanner / parser / evaluator,
against the reference semantics vf/specs/expr_ref.py."""
import random

from common import assemble, main_protocol

from vf.specs import expr_ref

BIN = ["*", "+", "-", "<<", ">>", "&", "|"]
UN = ["-", "~"]
LEAVES = [0, 1, 2, 3, 7, 8, 15, 16, 0xFF, 0x100, 0x1234, 0xFFFF, 0x10000, 0x123456]
DIRECTIVE_OPS = {"+", "-", "&", "*", "<<", ">>"}   # operators the statement-level lexer produces


def gen_tree(rng, depth, syms):
    r = rng.random()
    if depth == 0 or r < 0.3:
        if syms and rng.random() < 0.3:
            return ("id", rng.choice(sorted(syms)))
        v = rng.choice(LEAVES)
        style = rng.choice(["dec", "hex", "HEX", "bin"])
        text = {"dec": str(v), "hex": hex(v), "HEX": "0x" + hex(v)[2:].upper(), "bin": bin(v)}[style]
        return ("num", text)
    if r < 0.45:
        return ("un", rng.choice(UN), gen_tree(rng, depth - 1, syms))
    if r < 0.6:
        return ("par", gen_tree(rng, depth - 1, syms))
    op = rng.choice(BIN)
    right = gen_tree(rng, depth - 1, syms)
    if op in ("<<", ">>"):
        right = ("num", str(rng.choice([0, 1, 4, 8, 16])))
    return ("bin", op, gen_tree(rng, depth - 1, syms), right)


def normalise(t, parent=None, side=None):
    """Add the parentheses the conventional reading needs so that the TEXT denotes the tree."""
    k = t[0]
    if k in ("id", "num"):
        return t
    if k == "par":
        return ("par", normalise(t[1]))
    if k == "un":
        c = normalise(t[2], "un", "r")
        if c[0] == "bin":
            c = ("par", c)
        return ("un", t[1], c)
    l, r = normalise(t[2], t[1], "l"), normalise(t[3], t[1], "r")

    def wrap(c, s):
        if c[0] == "bin":
            cl, pl = expr_ref.LEVEL[c[1]], expr_ref.LEVEL[t[1]]
            if cl > pl or (cl == pl and s == "r"):
                return ("par", c)
        return c
    return ("bin", t[1], wrap(l, "l"), wrap(r, "r"))


def text_of(t, rng, spacing):
    toks = expr_ref.tokens_of(t)
    out = ""
    prev = None
    for x in toks:
        sep = {"none": "", "all": " ", "mixed": rng.choice(["", " ", "  "])}[spacing]
        # never glue two operators into another token (- - stays apart, << is one token)
        if prev is not None and ((prev in "-~" and x in "-~") or (prev[-1] in "<>" and x[0] in "<>") or (prev[-1:].isalnum() and x[:1].isalnum())):
            sep = sep or " "
        out += (sep if prev is not None else "") + x
        prev = x
    return out


def ops_of(t):
    return {x for x in expr_ref.tokens_of(t) if x in BIN or x in UN}


CONTEXTS = ["operand", "db", "assign", "symbol", "macro_arg", "if", "for_bound", "star_eq", "direct", "direct_x"]


def program(ctx, text, defs):
    pre = "*=0x008000\n" + "".join(f"{k} := {v}\n" for k, v in defs.items())
    if ctx == "operand":
        return pre + f"lda.w #{text}\n", "w"
    if ctx == "direct":
        return pre + f"lda {text}\n", "direct"      # no suffix, no `#`: the operand lexer's own path (a leading parenthesised group is followed by an operator)
    if ctx == "direct_x":
        return pre + f"lda {text},x\n", "direct_x"
    if ctx == "db":
        return pre + f".dl {text}\n", "l"
    if ctx == "assign":
        return pre + f"zz := {text}\n.dl zz\n", "l"
    if ctx == "symbol":
        return pre + f"zz = {text}\n.dl zz\n", "l"
    if ctx == "macro_arg":
        return pre + f".macro m(p) {{\n.dl p\n}}\nm({text})\n", "l"
    if ctx == "if":
        return pre + f".if {text} {{\n.db 1\n}} else {{\n.db 0\n}}\n", "bool"
    if ctx == "for_bound":
        return pre + f".for k := 0, {text} {{\n.db 7\n}}\n", "count"
    return pre + f"*={text}\n.db 1\n", "pos"


def leading_group_then_operator(text):
    depth = 0
    for i, c in enumerate(text.strip()):
        if c == "(":
            depth += 1
        elif c == ")":
            depth -= 1
            if depth == 0:
                rest = text.strip()[i + 1:].strip()
                return rest[:1] in ("+", "-", "*", "&", "|", "<", ">")
    return False


def check(case):
    rng = random.Random(case["seed"])
    # ordinary names, among them names that merely START like a mnemonic (jmp_table, and_mask ...), an upper-case one, one with digits
    defs = {"sa": 5, "sb": 0x1234, "sc": 0xFF, "jmp_table": 0x1234, "and_mask": 0x0F, "inc_step": 2, "Bit_Flag": 0x80, "sec2": 7, "ldax": 9, "_mask": 0x30, "_m2": 0x10, "__x": 3}
    tree = normalise(gen_tree(rng, case["depth"], defs))
    text = text_of(tree, rng, case["spacing"])
    env = dict(defs)
    try:
        want = expr_ref.eval_tree(tree, env)
        refuses = False
    except (RuntimeError, ValueError):
        refuses = True
        want = None
    ctx = case["ctx"]
    if ctx in ("direct", "direct_x"):
        # `lda (expr)` alone is an indirection, not an expression: only texts whose leading parenthesis is closed before an operator follows are direct operands
        if want is None or not (0 <= want <= 0xFFFFFF) or text.lstrip().startswith("(") and not leading_group_then_operator(text):
            return None, text
    if ctx not in ("operand", "direct", "direct_x") and not ops_of(tree) <= DIRECTIVE_OPS:
        return None, text  # this context does not accept all of the expression's operators: nothing claimed
    if want is not None and abs(want) > 1 << 40:
        return None, text
    src, kind = program(ctx, text, defs)
    if kind == "count" and (want is None or not (0 <= want <= 64)):
        return None, text
    if kind == "pos" and (want is None or not (0x8000 <= want <= 0x6FFFFF and (want & 0xFFFF) >= 0x8000)):
        return None, text
    res = assemble(src)
    if refuses:
        return (None if res["status"] != "ok" else f"`{text}` has no value in the reference (refused) but assembled in context {ctx}"), text
    if res["status"] != "ok":
        return f"`{text}` = {want} rejected in context {ctx}: {(res['error'] or res['exc'] or '')[:100]}", text
    data = b"".join(b for a, b in res["blocks"])
    if kind in ("direct", "direct_x"):
        n = 1 if want <= 0xFF else 2 if want <= 0xFFFF else 3
        opc = {"direct": (0xA5, 0xAD, 0xAF), "direct_x": (0xB5, 0xBD, 0xBF)}[kind][n - 1]
        got, exp = data, bytes([opc] + [(want >> (8 * i)) & 0xFF for i in range(n)])
    elif kind == "w":
        got, exp = data[1:3], bytes([want & 0xFF, (want >> 8) & 0xFF])
    elif kind == "l":
        got, exp = data[:3], bytes([(want >> (8 * i)) & 0xFF for i in range(3)])
    elif kind == "bool":
        got, exp = data[:1], bytes([1 if want != 0 else 0])
    elif kind == "count":
        got, exp = data, b"\x07" * want
    else:
        got, exp = bytes([res["blocks"][0][0] & 0xFF, (res["blocks"][0][0] >> 8) & 0xFF]), None
        off = ((want >> 16) * 0x8000 + (want & 0x7FFF))
        exp = bytes([off & 0xFF, (off >> 8) & 0xFF])
    if got != exp:
        return f"`{text}` in context {ctx}: got {got.hex()}, conventional value {want} -> {exp.hex()}", text
    return None, text


def run(tier, seed):
    n = 6000 if tier == "thorough" else 1200
    failures = []
    kinds = set()
    texts = set()
    samples = []
    for i in range(n):
        case = {"seed": seed * 1000003 + i, "depth": 1 + i % 4, "spacing": ("none", "all", "mixed")[i % 3], "ctx": CONTEXTS[(i // 3) % len(CONTEXTS)]}
        f, text = check(case)
        texts.add((text, case["ctx"]))
        if i in (5, 40):
            samples.append({"text": text, "context": case["ctx"]})
        if f:
            k = (case["ctx"], f.split(":")[0][-30:])
            if len(failures) < 10 and k not in kinds:
                kinds.add(k)
                failures.append({"ident": f"bounded/expression-text/{case['ctx']}", "script": "b_C06.py", "payload": case, "observed": f})
    return {"evaluations": n, "distinct_nontrivial": len(texts),
            "rule": "seeded expression trees (depth 1-4) rendered as text with none/all/mixed spacing, literals in decimal / 0x lower / 0x upper / 0b, symbols, "
                    "evaluated in 8 contexts (operand, data directive, :=, =, macro argument, .if, .for bound, *=) that accept their operators; "
                    "distinct = distinct (text, context)",
            "samples": samples, "failures": failures}


def replay(payload):
    f, text = check(payload)
    return {"failed": f is not None, "observed": f, "text": text}


if __name__ == "__main__":
    main_protocol(run, replay)
