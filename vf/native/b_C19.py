"""Bounded stand-in for C19: histories of assemblies (valid, failing part-way, defining macros / symbols / tables / custom .map
mappings, other ROM types, re-used Program-independent state) run in ONE process before a probe, compared with the probe
assembled alone in a FRESH process (blocks, symbol values, error text); and repeated assemblies."""
import json
import os
import random
import subprocess
import sys
import tempfile

from common import REPO_ROOT, VERIF_ROOT, assemble, hexblocks, main_protocol

HISTORY = [
    ("macro-def", "low_rom", "*=0x008000\n.macro load_imm(v) {\nlda #v\nrts\n}\nload_imm(0x34)\n"),
    ("macro-def-then-fail", "low_rom", "*=0x008000\n.macro helper(v) {\n.db v\n}\nhelper(1)\nlda.w undefined_symbol\n"),
    ("symbols", "low_rom", "*=0x018000\nshared := 0x42\nstart:\nK = 7\n.db shared, K\n"),
    ("custom-map", "low_rom", ".map identifier=1 bank_range=0xc0,0xff addr_range=0x8000,0xffff mask=0x8000\n*=0xc08000\n.db 1\n"),
    ("custom-map-mirrored", "low_rom", ".map identifier=1 bank_range=0x00,0x3f addr_range=0x8000,0xffff mask=0x8000 mirror_bank_range=0x80,0xbf\n*=0x808000\n.db 1\n"),
    ("custom-map-2", "low_rom", ".map identifier=3 bank_range=0x00,0x3f addr_range=0x0000,0xffff mask=0x10000\n.map identifier=4 bank_range=0x7e,0x7f addr_range=0,0xffff mask=0x10000 writable=1\n*=0x001000\n.db 2\n"),
    ("hirom", "high_rom", "*=0xC00000\nlda #1\n*=0x7E0000\n"),
    ("scan-error", "low_rom", "*=0x008000\nlda $12\n"),
    ("named-scope", "low_rom", "*=0x008000\n.scope lib {\nentry:\nrts\n}\njsr.w lib.entry\n"),
    ("for-loop", "low_rom", "*=0x008000\n.for i := 0, 4 {\n.db i\n}\n"),
    ("table", "low_rom", "TABLE"),
    ("unmapped", "low_rom", "*=0x700000\nnop\n"),
    # a large but ordinary source (about 24 000 tokens): whatever the assembler tunes process-wide for it (interpreter limits ...) must not outlive it
    ("big-table", "low_rom", "*=0x008000\n" + "".join(".db " + ", ".join(str((r * 7 + c) % 256) for c in range(8)) + "\n" for r in range(1500))),
]
PROBES = [
    ("uses-undefined-macro", "low_rom", "*=0x008000\nload_imm(0x12)\n"),
    ("uses-undefined-helper", "low_rom", "*=0x008000\nhelper(3)\n"),
    ("uses-undefined-symbol", "low_rom", "*=0x008000\n.db shared\n"),
    ("default-map-mirror", "low_rom", "*=0xc08000\n.db 0xAA\nl:\n.dl l\n"),
    ("default-map-low-bank", "low_rom", "*=0x008000\nstart:\nlda.w start\n*=0x018000\n.dl start\n"),
    ("default-hirom", "high_rom", "*=0x7E0000\n@=0x7E0010\nx:\n*=0xC00000\n.dl x\n"),
    ("scope-export", "low_rom", "*=0x008000\n.dw lib.entry\n"),
    ("text-without-table", "low_rom", "*=0x008000\n.text 'ab'\n"),
    ("plain", "low_rom", "*=0x00FFFE\nlda #0x12\nsta.l 0x7E0000\nrts\n"),
    # a `.map` that leaves the optional attributes out gets the directive's defaults (ROM, no mirror) -- not what an earlier `.map` of the process said
    ("map-without-optional-attributes", "low_rom", ".map identifier=5 bank_range=0x00,0x3f addr_range=0x8000,0xffff mask=0x8000\n*=0x018000\n.db 7\nhere:\n.dl here\n"),
    ("map-without-mirror-then-mirror-bank", "low_rom", ".map identifier=5 bank_range=0x00,0x3f addr_range=0x8000,0xffff mask=0x8000\n*=0x808000\nnop\n"),
    # a terminating recursion 400 applications deep: beyond the interpreter's default recursion limit, so it fails -- alone and after any history alike
    ("deep-recursion", "low_rom", "*=0x008000\n.macro down(n) {\n.db n & 0xFF\n.if n {\ndown(n - 1)\n}\n}\ndown(400)\n"),
]


def observe(src, rom, tbl=None):
    if src == "TABLE":
        src = f"*=0x008000\n.table '{tbl}'\n.text 'ab'\n"
    res = assemble(src, rom_type=rom)
    syms = {}
    if res["status"] == "ok":
        for i, sc in enumerate(res["program"].resolver.scopes):
            for k, v in sorted(sc.symbols.items()):
                if isinstance(v, int):
                    syms[f"{i}/{k}"] = v
    import re
    # object addresses inside a repr (`<... object at 0x7f...>`) are not part of the assembly's result
    err = re.sub(r" at 0x[0-9a-fA-F]+", " at 0x?", (res["error"] or res["exc"] or ""))[:160]
    if "recursion" in err.lower():
        err = "RecursionError"  # which call happens to hit the interpreter's limit is not part of the result
    return {"status": res["status"], "blocks": hexblocks(res["blocks"]), "symbols": syms, "error": err}


def fresh_process(src, rom):
    code = ("import sys, json; sys.path.insert(0, %r); sys.path.insert(0, %r)\n"
            "from b_C19 import observe\nprint(json.dumps(observe(%r, %r)))\n") % (os.path.join(VERIF_ROOT, "vf", "native"), VERIF_ROOT, src, rom)
    env = dict(os.environ, PYTHONPATH=f"{VERIF_ROOT}:{REPO_ROOT}", VERIF_REPO=REPO_ROOT)
    p = subprocess.run([sys.executable, "-c", code], capture_output=True, text=True, env=env, timeout=60)
    return json.loads(p.stdout.strip().splitlines()[-1])


def check(case):
    """Run in a subprocess: the history in one process, then the probe; compare with the probe alone in a fresh process."""
    code = ("import sys, json; sys.path.insert(0, %r); sys.path.insert(0, %r)\n"
            "import b_C19\nprint(json.dumps(b_C19.run_history(%r)))\n") % (os.path.join(VERIF_ROOT, "vf", "native"), VERIF_ROOT, case)
    env = dict(os.environ, PYTHONPATH=f"{VERIF_ROOT}:{REPO_ROOT}", VERIF_REPO=REPO_ROOT)
    p = subprocess.run([sys.executable, "-c", code], capture_output=True, text=True, env=env, timeout=120)
    if p.returncode != 0:
        return f"history runner crashed: {p.stderr[-300:]}"
    after = json.loads(p.stdout.strip().splitlines()[-1])
    name, rom, src = PROBES[case["probe"]]
    alone = fresh_process(src, rom)
    for obs in after:
        if obs != alone:
            diff = [k for k in alone if alone[k] != obs.get(k)]
            return f"probe {name} after history {[HISTORY[h][0] for h in case['history']]}: {diff} differ: alone {json.dumps({k: alone[k] for k in diff})[:200]} vs {json.dumps({k: obs[k] for k in diff})[:200]}"
    return None


def run_history(case):
    d = tempfile.mkdtemp(prefix="vfC19")
    tbl = os.path.join(d, "t.tbl")
    open(tbl, "w").write("41=a\n42=b\n")
    try:
        for h in case["history"]:
            name, rom, src = HISTORY[h]
            observe(src, rom, tbl)
        name, rom, src = PROBES[case["probe"]]
        return [observe(src, rom), observe(src, rom)]   # twice: repeatability
    finally:
        os.unlink(tbl)
        os.rmdir(d)


FILES_RUNNER = r"""
import sys, os, json
sys.path.insert(0, %(native)r); sys.path.insert(0, %(verif)r)
from common import RecordingWriter
from a816.program import Program
def build(path):
    w = RecordingWriter()
    try:
        rc = Program().assemble_with_emitter(path, w)
    except Exception as e:
        rc = type(e).__name__
    return {"rc": rc, "blocks": [[a, bytes(b).hex()] for a, b in w.blocks]}
os.chdir(%(cwd)r)
for h in %(history)r:
    build(h)
print(json.dumps([build("probe.s"), build("probe.s")]))
"""


def check_files(case):
    """Sources assembled through the FILE API: earlier assemblies of sources that live in another directory (valid, or failing part-way) must not
    change what a later source with relative file names includes; and a fresh process gives the same result whatever its hash seed."""
    import shutil
    root = tempfile.mkdtemp(prefix="vfC19f")
    try:
        other, here = os.path.join(root, "other"), os.path.join(root, "here")
        os.makedirs(other)
        os.makedirs(here)
        for d, fill, tail in ((other, b"AAAAAAAA", "nop\nnop\n"), (here, b"WXYZ", "lda #0x12\nrts\n")):
            open(os.path.join(d, "data.bin"), "wb").write(fill)
            open(os.path.join(d, "tail.s"), "w").write(tail)
        open(os.path.join(other, "main.s"), "w").write("*=0x008000\n.incbin 'data.bin'\n.include 'tail.s'\n")
        open(os.path.join(other, "broken.s"), "w").write("*=0x008000\n.incbin 'data.bin'\nlda.w no_such_symbol\n")
        # an IPS patch with overlapping records: the order in which they are re-emitted decides the image
        recs = [(0x10, b"\x01\x02\x03\x04"), (0x12, b"\xAA\xBB"), (0x100, b"\x10\x20\x30\x40"), (0x102, b"\x55"), (0x103, b"\x66\x77")]
        raw = b"PATCH" + b"".join(o.to_bytes(3, "big") + len(d).to_bytes(2, "big") + d for o, d in recs) + b"EOF"
        open(os.path.join(here, "p.ips"), "wb").write(raw)
        open(os.path.join(here, "probe.s"), "w").write("*=0x008000\n.incbin 'data.bin'\n.include 'tail.s'\n.include_ips 'p.ips', 0\n")
        env = dict(os.environ, PYTHONPATH=f"{VERIF_ROOT}:{REPO_ROOT}", VERIF_REPO=REPO_ROOT)
        results = {}
        for label, history, seedv in (("alone, hash seed 0", [], "0"), ("alone, hash seed 1", [], "1"), ("alone, hash seed 7", [], "7"),
                                      ("after a source in another directory", [os.path.join(other, "main.s")], "0"),
                                      ("after a failing source in another directory", [os.path.join(other, "broken.s")], "0")):
            code = FILES_RUNNER % {"native": os.path.join(VERIF_ROOT, "vf", "native"), "verif": VERIF_ROOT, "cwd": here, "history": history}
            p = subprocess.run([sys.executable, "-c", code], capture_output=True, text=True, env=dict(env, PYTHONHASHSEED=seedv), timeout=120)
            if p.returncode != 0:
                return f"runner crashed ({label}): {p.stderr[-300:]}"
            results[label] = json.loads(p.stdout.strip().splitlines()[-1])
        ref = results["alone, hash seed 0"][0]
        if ref["rc"] != 0:
            return f"the probe alone is rejected: {ref}"
        want = [[o, d.hex()] for o, d in recs] + [[0x0, "5758595aa91260"]]  # the patch records are written when the directive is reached, the pending code block at the end
        if ref["blocks"] != want:
            return f"the probe alone writes {ref['blocks']}, expected {want}"
        for label, (first, second) in results.items():
            if first != ref or second != ref:
                return f"probe {label}: {json.dumps(first)[:200]} / {json.dumps(second)[:120]} differs from the probe alone: {json.dumps(ref)[:200]}"
        return None
    finally:
        shutil.rmtree(root, ignore_errors=True)


def run(tier, seed):
    rng = random.Random(seed)
    cases = []
    for p in range(len(PROBES)):
        for h in range(len(HISTORY)):
            cases.append({"history": [h], "probe": p})
    for _ in range(120 if tier == "thorough" else 25):
        cases.append({"history": [rng.randrange(len(HISTORY)) for _ in range(rng.randint(2, 5))], "probe": rng.randrange(len(PROBES))})
    if tier != "thorough":
        cases = [c for i, c in enumerate(cases) if len(c["history"]) > 1 or (i * 7 + seed) % 3 == 0 or HISTORY[c["history"][0]][0] in ("macro-def", "custom-map", "custom-map-2", "custom-map-mirrored", "macro-def-then-fail", "big-table")]
    failures = []
    for c in cases:
        f = check(c)
        if f and len(failures) < 8:
            failures.append({"ident": "bounded/history-vs-fresh-process", "script": "b_C19.py", "payload": c, "observed": f})
    f = check_files({})
    if f:
        failures.append({"ident": "bounded/file-api-histories-and-hash-seeds", "script": "b_C19.py", "payload": {"files": True}, "observed": f})
    return {"evaluations": len(cases) + 5, "distinct_nontrivial": len({json.dumps(c) for c in cases}) + 5,
            "rule": "a probe with relative .incbin / .include / .include_ips (overlapping records) through the FILE API, alone under three hash seeds and after sources "
                    "assembled from another directory (valid / failing); every probe after every single earlier assembly (12 kinds: macro / symbol / table / custom .map definitions, failures part-way, a 24 000-token source, "
                    "HiROM) and seeded histories of 2-5 assemblies, in one process, vs the probe alone in a fresh process; probe run twice (repeatability); "
                    "compares status, blocks, all symbol values and the error text",
            "samples": cases[:2], "failures": failures}


def replay(payload):
    f = check_files(payload) if payload.get("files") else check(payload)
    return {"failed": f is not None, "observed": f}


if __name__ == "__main__":
    main_protocol(run, replay)
