"""Bounded stand-in for C19: histories of assemblies (valid, failing part-way, defining macros / symbols / tables / custom .map
mappings, other ROM types, re-used Program-independent state) run in ONE process before a probe, compared with the probe
assembled alone in a FRESH process (blocks, symbol values, error text); and repeated assemblies."""
import json
import os
import random
import subprocess
import sys
import tempfile

from common import REPO_ROOT, VERIF_ROOT, assemble, hexblocks, main_protocol

HISTORY = [
    ("macro-def", "low_rom", "*=0x008000\n.macro load_imm(v) {\nlda #v\nrts\n}\nload_imm(0x34)\n"),
    ("macro-def-then-fail", "low_rom", "*=0x008000\n.macro helper(v) {\n.db v\n}\nhelper(1)\nlda.w undefined_symbol\n"),
    ("symbols", "low_rom", "*=0x018000\nshared := 0x42\nstart:\nK = 7\n.db shared, K\n"),
    ("custom-map", "low_rom", ".map identifier=1 bank_range=0xc0,0xff addr_range=0x8000,0xffff mask=0x8000\n*=0xc08000\n.db 1\n"),
    ("custom-map-2", "low_rom", ".map identifier=3 bank_range=0x00,0x3f addr_range=0x0000,0xffff mask=0x10000\n.map identifier=4 bank_range=0x7e,0x7f addr_range=0,0xffff mask=0x10000 writable=1\n*=0x001000\n.db 2\n"),
    ("hirom", "high_rom", "*=0xC00000\nlda #1\n*=0x7E0000\n"),
    ("scan-error", "low_rom", "*=0x008000\nlda $12\n"),
    ("named-scope", "low_rom", "*=0x008000\n.scope lib {\nentry:\nrts\n}\njsr.w lib.entry\n"),
    ("for-loop", "low_rom", "*=0x008000\n.for i := 0, 4 {\n.db i\n}\n"),
    ("table", "low_rom", "TABLE"),
    ("unmapped", "low_rom", "*=0x700000\nnop\n"),
]
PROBES = [
    ("uses-undefined-macro", "low_rom", "*=0x008000\nload_imm(0x12)\n"),
    ("uses-undefined-helper", "low_rom", "*=0x008000\nhelper(3)\n"),
    ("uses-undefined-symbol", "low_rom", "*=0x008000\n.db shared\n"),
    ("default-map-mirror", "low_rom", "*=0xc08000\n.db 0xAA\nl:\n.dl l\n"),
    ("default-map-low-bank", "low_rom", "*=0x008000\nstart:\nlda.w start\n*=0x018000\n.dl start\n"),
    ("default-hirom", "high_rom", "*=0x7E0000\n@=0x7E0010\nx:\n*=0xC00000\n.dl x\n"),
    ("scope-export", "low_rom", "*=0x008000\n.dw lib.entry\n"),
    ("text-without-table", "low_rom", "*=0x008000\n.text 'ab'\n"),
    ("plain", "low_rom", "*=0x00FFFE\nlda #0x12\nsta.l 0x7E0000\nrts\n"),
]


def observe(src, rom, tbl=None):
    if src == "TABLE":
        src = f"*=0x008000\n.table '{tbl}'\n.text 'ab'\n"
    res = assemble(src, rom_type=rom)
    syms = {}
    if res["status"] == "ok":
        for i, sc in enumerate(res["program"].resolver.scopes):
            for k, v in sorted(sc.symbols.items()):
                if isinstance(v, int):
                    syms[f"{i}/{k}"] = v
    import re
    # object addresses inside a repr (`<... object at 0x7f...>`) are not part of the assembly's result
    err = re.sub(r" at 0x[0-9a-fA-F]+", " at 0x?", (res["error"] or res["exc"] or ""))[:160]
    return {"status": res["status"], "blocks": hexblocks(res["blocks"]), "symbols": syms, "error": err}


def fresh_process(src, rom):
    code = ("import sys, json; sys.path.insert(0, %r); sys.path.insert(0, %r)\n"
            "from b_C19 import observe\nprint(json.dumps(observe(%r, %r)))\n") % (os.path.join(VERIF_ROOT, "vf", "native"), VERIF_ROOT, src, rom)
    env = dict(os.environ, PYTHONPATH=f"{VERIF_ROOT}:{REPO_ROOT}", VERIF_REPO=REPO_ROOT)
    p = subprocess.run([sys.executable, "-c", code], capture_output=True, text=True, env=env, timeout=60)
    return json.loads(p.stdout.strip().splitlines()[-1])


def check(case):
    """Run in a subprocess: the history in one process, then the probe; compare with the probe alone in a fresh process."""
    code = ("import sys, json; sys.path.insert(0, %r); sys.path.insert(0, %r)\n"
            "import b_C19\nprint(json.dumps(b_C19.run_history(%r)))\n") % (os.path.join(VERIF_ROOT, "vf", "native"), VERIF_ROOT, case)
    env = dict(os.environ, PYTHONPATH=f"{VERIF_ROOT}:{REPO_ROOT}", VERIF_REPO=REPO_ROOT)
    p = subprocess.run([sys.executable, "-c", code], capture_output=True, text=True, env=env, timeout=120)
    if p.returncode != 0:
        return f"history runner crashed: {p.stderr[-300:]}"
    after = json.loads(p.stdout.strip().splitlines()[-1])
    name, rom, src = PROBES[case["probe"]]
    alone = fresh_process(src, rom)
    for obs in after:
        if obs != alone:
            diff = [k for k in alone if alone[k] != obs.get(k)]
            return f"probe {name} after history {[HISTORY[h][0] for h in case['history']]}: {diff} differ: alone {json.dumps({k: alone[k] for k in diff})[:200]} vs {json.dumps({k: obs[k] for k in diff})[:200]}"
    return None


def run_history(case):
    d = tempfile.mkdtemp(prefix="vfC19")
    tbl = os.path.join(d, "t.tbl")
    open(tbl, "w").write("41=a\n42=b\n")
    try:
        for h in case["history"]:
            name, rom, src = HISTORY[h]
            observe(src, rom, tbl)
        name, rom, src = PROBES[case["probe"]]
        return [observe(src, rom), observe(src, rom)]   # twice: repeatability
    finally:
        os.unlink(tbl)
        os.rmdir(d)


def run(tier, seed):
    rng = random.Random(seed)
    cases = []
    for p in range(len(PROBES)):
        for h in range(len(HISTORY)):
            cases.append({"history": [h], "probe": p})
    for _ in range(120 if tier == "thorough" else 25):
        cases.append({"history": [rng.randrange(len(HISTORY)) for _ in range(rng.randint(2, 5))], "probe": rng.randrange(len(PROBES))})
    if tier != "thorough":
        cases = [c for i, c in enumerate(cases) if len(c["history"]) > 1 or (i * 7 + seed) % 3 == 0 or HISTORY[c["history"][0]][0] in ("macro-def", "custom-map", "custom-map-2", "macro-def-then-fail")]
    failures = []
    for c in cases:
        f = check(c)
        if f and len(failures) < 8:
            failures.append({"ident": "bounded/history-vs-fresh-process", "script": "b_C19.py", "payload": c, "observed": f})
    return {"evaluations": len(cases), "distinct_nontrivial": len({json.dumps(c) for c in cases}),
            "rule": "every probe after every single earlier assembly (11 kinds: macro / symbol / table / custom .map definitions, failures part-way, "
                    "HiROM) and seeded histories of 2-5 assemblies, in one process, vs the probe alone in a fresh process; probe run twice (repeatability); "
                    "compares status, blocks, all symbol values and the error text",
            "samples": cases[:2], "failures": failures}


def replay(payload):
    f = check(payload)
    return {"failed": f is not None, "observed": f}


if __name__ == "__main__":
    main_protocol(run, replay)
