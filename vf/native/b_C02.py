"""Bounded stand-in for C02: every label of generated programs (nesting, loops, conditionals, *= / @= moves, bank crossings,
names re-used in inner scopes) equals the reference model's address, and the data emitted for `.dl label` agrees (via C03's
block comparison); plus hand-written programs for .incbin start symbols, named-scope exports and width inference from symbols."""
import os
import random
import tempfile

import refasm
from common import assemble, main_protocol


def check_generated(case):
    rng = random.Random(case["seed"])
    mapping = case["mapping"]
    prog = refasm.gen_program(rng, mapping, size=case.get("size", 8))
    src = refasm.render(prog, rng) + "\n"
    ref = refasm.Ref(refasm.LOROM if mapping == "low_rom" else refasm.HIROM)
    try:
        want_blocks, want_labels = ref.run(prog)
    except KeyError:
        return None, src
    res = assemble(src, rom_type=mapping)
    if res["status"] != "ok":
        return f"valid program rejected: {res['error'] or res['exc']}", src
    scopes = res["program"].resolver.scopes
    for key, addr in want_labels.items():
        sid, name = key.split("/")
        sid = int(sid)
        if sid >= len(scopes) or name not in scopes[sid].labels:
            return f"label {name} of scope #{sid} is not defined", src
        got = scopes[sid].labels[name]
        if got != addr:
            return f"label {name} (scope #{sid}) = {got:#x}, the next byte is emitted at {addr:#x}", src
    if [(a, b) for a, b in res["blocks"]] != want_blocks:
        return "emitted blocks differ from the reference (label values used as data disagree)", src
    return None, src


HAND = [
    # (name, source, expected symbol values {name: value} in the root scope, expected outcome)
    ("named-scope-export-backward", "*=0x008000\n.scope s {\nnop\nl:\nnop\n}\njmp.w s.l\n.dw s.l\n", {"s.l": 0x008001}, "ok"),
    ("named-scope-export-forward", "*=0x018000\njmp.w s.l\n.scope s {\nnop\nl:\nnop\n}\nend:\n", {"s.l": 0x018004, "end": 0x018005}, "ok"),
    ("bank-crossing-label", "*=0x00FFFE\n.dl 0x123456\nafter:\n.dw 1\n", {"after": 0x018001}, "ok"),
    ("hirom-bank-crossing-label", "*=0xC0FFFF\n.dw 0x1234\nafter:\n", {"after": 0xC10001}, "ok:high_rom"),
    ("width-from-backward-symbol", "*=0x008000\nv = 0x1234\nlda v\nafter:\n", {"after": 0x008003}, "ok-or-reject"),
    ("width-from-shadowed-symbol", "*=0x008000\nx := 0x10\n{\nlda x\nx:\n}\nend:\n.dl end\n", {}, "reject-or-consistent"),
    ("ram-relocated-labels", "*=0x008000\n@=0x7e2000\nr1:\nnop\nr2:\n*=0x008010\nback:\n", {"r1": 0x7E2000, "r2": 0x7E2001, "back": 0x008010}, "ok"),
]


def check_hand(i):
    name, src, expect, mode = HAND[i]
    rom = mode.split(":")[1] if ":" in mode else "low_rom"
    res = assemble(src, rom_type=rom)
    if mode.startswith("ok") and mode != "ok-or-reject" and res["status"] != "ok":
        return f"{name}: rejected: {res['error'] or res['exc']}"
    if res["status"] != "ok":
        return None
    syms = res["program"].resolver.scopes[0].symbols
    for k, v in expect.items():
        if syms.get(k) != v:
            return f"{name}: {k} = {syms.get(k)!r}, expected {v:#x}"
    if mode == "reject-or-consistent":
        # accepted: then `end` must be where the .dl data really is
        img_off = res["blocks"][0][0] + len(res["blocks"][0][1]) - 3
        end = syms["end"]
        if refasm.LOROM.offset(end) != img_off:
            return f"{name}: label end = {end:#x} but the data after it sits at offset {img_off:#x}"
    return None


def check_incbin(n, start):
    d = tempfile.mkdtemp(prefix="vfC02")
    path = os.path.join(d, "blob.bin")
    open(path, "wb").write(bytes(i & 0xFF for i in range(n)))
    try:
        res = assemble(f"*={start:#x}\nbefore:\n.incbin '{path}'\nafter:\n.dl after\n")
        if res["status"] != "ok":
            return f"incbin program rejected: {res['error'] or res['exc']}"
        syms = res["program"].resolver.scopes[0].symbols
        base = path.replace("/", "_").replace(".", "_")
        want_after = refasm.LOROM.advance(start, n)
        if syms.get(base) != start or syms.get(base + "__size") != n or syms.get("after") != want_after:
            return f"incbin({n} bytes at {start:#x}): start symbol {syms.get(base)!r}, size {syms.get(base + '__size')!r}, after = {syms.get('after')!r} (expected {want_after:#x})"
        return None
    finally:
        os.unlink(path)
        os.rmdir(d)


def run(tier, seed):
    n = 500 if tier == "thorough" else 100
    failures = []
    samples = []
    nontrivial = 0
    for i in range(n):
        case = {"seed": seed * 7919 + i, "mapping": "low_rom" if i % 3 else "high_rom", "size": 6 + (i % 7)}
        f, src = check_generated(case)
        nontrivial += src.count(":\n") > 0
        if i < 1:
            samples.append(src)
        if f and len(failures) < 8:
            failures.append({"ident": "bounded/labels-vs-reference", "script": "b_C02.py", "payload": {"gen": case}, "observed": f + " :: " + src[:300].replace("\n", " / ")})
    for i in range(len(HAND)):
        f = check_hand(i)
        if f:
            failures.append({"ident": "bounded/hand-written", "script": "b_C02.py", "payload": {"hand": i}, "observed": f})
    for nbytes, start in ((0, 0x008000), (5, 0x00FFFE), (0x8000, 0x018000), (0x8001, 0x00FFFF), (0x10010, 0x018000)):
        f = check_incbin(nbytes, start)
        if f:
            failures.append({"ident": "bounded/incbin-symbols", "script": "b_C02.py", "payload": {"incbin": [nbytes, start]}, "observed": f})
    return {"evaluations": n + len(HAND) + 5, "distinct_nontrivial": nontrivial + len(HAND) + 5,
            "rule": "seeded program trees (see C03) -- every label of every scope compared with the reference model; 7 hand-written programs (named-scope "
                    "exports forward/backward, bank-crossing labels, width inferred from symbols incl. the shadowing witness, RAM-relocated labels); "
                    ".incbin start/size symbols for lengths crossing one and two banks; non-trivial = defines at least one label",
            "samples": samples, "failures": failures}


def replay(payload):
    if "gen" in payload:
        f, src = check_generated(payload["gen"])
    elif "hand" in payload:
        f = check_hand(payload["hand"])
    else:
        f = check_incbin(*payload["incbin"])
    return {"failed": f is not None, "observed": f}


if __name__ == "__main__":
    main_protocol(run, replay)
