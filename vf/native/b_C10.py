"""Bounded twins for C10 (and the loop/conditional part of C08): generated programs built around .if / .for -- condition values
zero / non-zero / negative / undefined, with and without else, loop bounds empty / single / many from constants and macro
parameters, bodies with labels, nested loops and conditionals using the loop variable, use inside macros -- through the real
pipeline vs the reference model, which by construction IS the hand-expanded program (it unrolls loops and selects branches)."""
import random

import refasm
from common import assemble, main_protocol


# a condition that mentions an undefined name is false as a whole, whatever the rest of it would evaluate to
UNDEFINED_COMPOUND = ["UNDEFINED_NAME + 1", "1 - UNDEFINED_NAME", "ONE + UNDEFINED_NAME", "1 << UNDEFINED_NAME"]  # (`|` is not part of the expression syntax outside instruction operands)


def body(rng, depth, var, labels):
    out = []
    if var and rng.random() < 0.35:
        # an assignment in a loop body belongs to the iteration (assigned once per scope: emission reads the scope's final value)
        out += [("const", "x", var), ("db", ["x"])]
    for _ in range(rng.randint(1, 4)):
        r = rng.random()
        if r < 0.3:
            out.append(("db", [rng.choice([var, rng.randrange(256)]) if var else rng.randrange(256) for _ in range(rng.randint(1, 3))]))
        elif r < 0.4 and var:
            out.append(("imm", rng.choice(refasm.IMM), var, "b"))
        elif r < 0.5:
            labels["n"] += 1
            name = rng.choice(["loop", "skip"]) if depth > 0 and rng.random() < 0.6 else f"L{labels['n']}"
            if not any(s[0] == "label" and s[1] == name for s in out):
                out.append(("label", name))
                if rng.random() < 0.7:
                    out.append(("abs", "jmp", name, "w"))
        elif r < 0.7 and depth < 3:
            cond = rng.choice([var, "ZERO", "ONE", "NEG", "UNDEFINED_NAME", 0, 1, 2, var + " + UNDEFINED_NAME"]) if var else rng.choice(["ZERO", "ONE", "NEG", "UNDEFINED_NAME", 0, 3] + UNDEFINED_COMPOUND)
            out.append(("if", cond, body(rng, depth + 1, var, labels), body(rng, depth + 1, var, labels) if rng.random() < 0.6 else None))
        elif r < 0.9 and depth < 2:
            v2 = "j" if var == "i" else "i"
            lo = rng.choice([0, 1])
            hi = rng.choice([var, lo, lo + 1, lo + 3]) if var else rng.choice([lo, lo + 1, lo + 2, lo + 4, 0])
            out.append(("for", v2, lo, hi, body(rng, depth + 1, v2, labels)))
        else:
            out.append(("op", rng.choice(refasm.IMPLIED)))
    return out


def gen(rng):
    labels = {"n": 0}
    prog = [("star", rng.choice([0x008000, 0x00FFF0, 0x018000])), ("const", "ZERO", 0), ("const", "ONE", 1), ("const", "NEG", -5), ("const", "x", 0x55)]
    if rng.random() < 0.5:
        prog.append(("macro", "rep", ["n", "val"], [("for", "k", 0, "n", [("db", ["val", "k"])]), ("if", "n", [("op", "nop")], [("op", "clc")])]))
    prog += body(rng, 0, None, labels)
    if any(s[0] == "macro" for s in prog):
        prog.append(("apply", "rep", [rng.choice([0, 1, 3]), rng.randrange(256)]))
        prog.append(("for", "i", 0, 3, [("apply", "rep", ["i", 7])]))
    if rng.random() < 0.5:
        # a condition / bound read through scopes that define NOTHING themselves: a macro without parameters applied in a bare block
        prog.append(("macro", "flagged", [], [("for", "q", 0, 2, [("if", "ONE", [("db", ["q"])], [("db", [0xEE])]), ("for", "r", 0, "ONE", [("db", [0xCC])])])]))
        prog.append(("block", [("apply", "flagged", [])]))
        prog.append(("block", [("block", [("if", "NEG", [("op", "nop")], [("op", "clc")])])]))
    if rng.random() < 0.5:
        # a definition written in a conditional block / loop body takes effect only when that block is assembled (DEBUG / RELEASE variants of one macro)
        cond = rng.choice(["ZERO", "ONE", "UNDEFINED_NAME", 0, 2])
        prog.append(("macro", "put", [], [("db", [0x11])]))
        prog.append(("if", cond, [("macro", "put", [], [("db", [0x22])])], [("macro", "put", [], [("db", [0x33])])] if rng.random() < 0.5 else None))
        prog.append(("for", "z", 0, rng.choice([0, 0, 1]), [("macro", "put", [], [("db", [0x44])])]))
        prog.append(("apply", "put", []))
    prog.append(("db", ["x"]))  # the outer name is neither overwritten by, nor visible from, the iterations' own assignments
    return prog


def check(case):
    rng = random.Random(case["seed"])
    prog = gen(rng)
    src = refasm.render(prog, rng) + "\n"
    try:
        want, labels = refasm.Ref(refasm.LOROM).run(prog)
    except KeyError:
        return None, src
    res = assemble(src)
    if res["status"] != "ok":
        return f"the hand-expanded program assembles but the directive form is rejected: {res['error'] or res['exc']}", src
    got = [(a, b) for a, b in res["blocks"]]
    if got != want:
        for i, (g, w) in enumerate(zip(got, want)):
            if g != w:
                n = next((k for k, (x, y) in enumerate(zip(g[1], w[1])) if x != y), min(len(g[1]), len(w[1])))
                return f"block {i} differs from the hand-expanded program at byte {n}: got {g[1][n:n+8].hex()} expected {w[1][n:n+8].hex()} (lengths {len(g[1])}/{len(w[1])})", src
        return f"{len(got)} blocks, hand-expanded program has {len(want)}", src
    return None, src


def run(tier, seed):
    n = 800 if tier == "thorough" else 150
    failures = []
    samples = []
    distinct = set()
    for i in range(n):
        case = {"seed": seed * 104729 + i}
        f, src = check(case)
        distinct.add(src)
        if i < 1:
            samples.append(src)
        if f and len(failures) < 8:
            failures.append({"ident": "bounded/twin-loops-conditionals", "script": "b_C10.py", "payload": case, "observed": f + " :: " + src[:400].replace("\n", " / ")})
    return {"evaluations": n, "distinct_nontrivial": len(distinct),
            "rule": "seeded programs around .if (zero / non-zero / negative / undefined conditions, constants and loop variables, with/without else) and .for "
                    "(empty / single / many, bounds from constants, enclosing loop variables and macro parameters; bodies with local labels, nested loops "
                    "and conditionals, data and immediates using the loop variable; loops applying macros) vs the reference expansion; distinct sources",
            "samples": samples, "failures": failures}


def replay(payload):
    f, src = check(payload)
    return {"failed": f is not None, "observed": f, "program": src}


if __name__ == "__main__":
    main_protocol(run, replay)
