"""Bounded stand-in for C11: sequences of (address, bytes) through the real IPSWriter into a real file object, parsed back
with the independent IPS reader (vf/specs/ips_format.py) and compared with the blocks applied directly."""
import io
import random
import struct

from common import main_protocol

from vf.specs import ips_format


def pattern(n, seed):
    """block contents: an int seeds a byte pattern; ("mix", alphabet, s) draws every byte from a small alphabet (fills, padding, masks);
    ("dev", value, pos, other) is a constant fill with ONE deviating byte"""
    if isinstance(seed, (list, tuple)):
        if seed[0] == "mix":
            alpha, r = list(seed[1]), random.Random(seed[2])
            return bytes(r.choice(alpha) for _ in range(n))
        if seed[0] == "dev":
            b = bytearray([seed[1]]) * n
            if n:
                b[seed[2] % n] = seed[3]
            return bytes(b)
        raise ValueError(seed)
    return bytes(((i * 31 + seed) ^ (i >> 8)) & 0xFF for i in range(n))


def check(case):
    from a816.writers import IPSWriter

    copier = case["copier"]
    shift = 0x200 if copier else 0
    f = io.BytesIO()
    w = IPSWriter(f, copier)
    w.begin()
    expected = {}
    written_any_refused = False
    for addr, n, seed in case["blocks"]:
        data = pattern(n, seed)
        off = addr + shift
        starts = [off + k * 0xFFFF for k in range((n + 0xFFFE) // 0xFFFF)]  # record offsets of the standard split
        representable = all(0 <= s < 0x1000000 and s != 0x454F46 for s in starts)
        try:
            w.write_block(data, addr)
        except (struct.error, RuntimeError) as e:
            if representable:
                return f"representable block ({addr:#x}, {n} bytes) refused: {e}"
            # refused as it must be; the assembly stops here and the driver closes the patch: what has been written so far is still a well-formed
            # file -- PATCH, whole records, EOF, and nothing after the end marker
            w.end()
            raw = f.getvalue()
            try:
                records, end = ips_format.parse(raw)
            except ips_format.IpsFormatError as e2:
                return f"after a refused block the closed file is not a well-formed IPS file: {e2}"
            if end != len(raw):
                return f"after a refused block the closed file has {len(raw) - end} bytes after the EOF marker"
            return None
        if n > 0 and not representable:
            return f"block at {addr:#x}+{n}: a record offset is not representable (>= 2^24, negative, or 0x454F46 = 'EOF') and was accepted"
        for i, b in enumerate(data):
            expected[off + i] = b
    w.end()
    raw = f.getvalue()
    try:
        records, end = ips_format.parse(raw)
    except ips_format.IpsFormatError as e:
        return f"output is not a well-formed IPS file: {e}"
    if end != len(raw):
        return f"reader stops at byte {end} of {len(raw)}: trailing garbage / premature EOF marker"
    for off, payload in records:
        if len(payload) == 0:
            return f"zero-length record at {off:#x}"
    img = ips_format.apply(records)
    if img != expected:
        bad = sorted(set(img.items()) ^ set(expected.items()))[:3]
        return f"patched image differs from the written blocks, e.g. {[(hex(a), b) for a, b in bad]}"
    # order / coverage: concatenated payloads are exactly the blocks in write order
    want = b"".join(pattern(n, seed) for addr, n, seed in case["blocks"])
    got = b"".join(p for _, p in records)
    if want != got:
        return "records do not cover the blocks exactly once in write order"
    return None


def gen(tier, rng):
    lens = [0, 1, 2, 26, 0xFFFE, 0xFFFF, 0x10000, 0x10001, 2 * 0xFFFF - 1, 2 * 0xFFFF, 2 * 0xFFFF + 1, 3 * 0xFFFF, 3 * 0xFFFF + 1]
    if tier == "thorough":
        lens += [k * 0xFFFF + d for k in range(4, 9) for d in (-1, 0, 1)]
    addrs = [0, 1, 0x1FF, 0x200, 0x8000, 0xFE00, 0xFFFF, 0x10000, 0x1FE00, 0x454F46, 0x454F46 - 0x200, 0x454F46 - 0xFFFF, 0x454F45, 0x454F47, 0xFFFDFF, 0xFFFE00,
             0xFFFFFF, 0x1000000, 0x1000001, 0xFF8000, -1]
    for copier in (False, True):
        for n in lens:
            for a in (addrs if n in (1, 26, 0x10001) or tier == "thorough" else addrs[:6] + [0xFF8000]):
                yield {"copier": copier, "blocks": [(a, n, rng.randrange(256))]}
        for _ in range(40 if tier == "thorough" else 12):
            k = rng.randint(2, 5)
            yield {"copier": copier, "blocks": [(rng.choice([rng.randrange(0, 0xF00000), rng.choice(addrs[:9])]), rng.choice(lens[:8] + [rng.randrange(0, 300)]), rng.randrange(256))
                                                for _ in range(k)]}


def gen_header_patterns(tier, rng):
    """records whose 5 header bytes contain 'E','O','F' across the offset / size fields (only the OFFSET 0x454F46 is the EOF marker)"""
    for copier in (False, True):
        d = 0x200 if copier else 0
        for off, n in ((0x00454F, 0x4600), (0x00454F, 0x46AB), (0x120045, 0x4F46), (0x034F46, 5), (0x454F45, 1), (0x004546, 0x4F46)):
            yield {"copier": copier, "blocks": [(off - d, n, rng.randrange(256))]}
        yield {"copier": copier, "blocks": [(0x03454F - 0xFFFF - d, 0xFFFF + 0x4612, 7)]}
        # blocks that END exactly at the top of the 24-bit offset space
        for n in (1, 2, 0xFFFF, 0x10001):
            yield {"copier": copier, "blocks": [(0x1000000 - n - d, n, 3)]}


def gen_contents(tier, rng):
    """blocks whose bytes come from a tiny alphabet: constant fills, 00/FF mixtures, fills with a single deviating byte (first, last, middle)"""
    lens = [1, 2, 3, 8, 9, 10, 16, 300, 0xFFFF, 0x10001] + ([0x10000, 2 * 0xFFFF + 9] if tier == "thorough" else [])
    for copier in (False, True):
        for n in lens:
            for alpha in ([0], [0xFF], [0x20], [0, 0xFF], [0xFF, 0], [0, 1], [0xFE, 0xFF], [0, 0x80, 0xFF]):
                yield {"copier": copier, "blocks": [(rng.choice([0, 0x8000, 0x1FE00]), n, ("mix", alpha, rng.randrange(1000)))]}
            for value, other in ((0, 0xFF), (0xFF, 0), (0, 1), (0x20, 0x21)):
                for pos in (0, n - 1, n // 2, 0xFFFE, 0xFFFF):
                    yield {"copier": copier, "blocks": [(0x8000, n, ("dev", value, pos, other))]}


def gen_histories(tier, rng):
    """sequences in which a write is REPEATED after an overlapping one (the last write must win), or repeated back to back, or rewritten with other data"""
    for copier in (False, True):
        for _ in range(30 if tier == "thorough" else 8):
            base = rng.choice([0, 0x8000, 0x1FE00, rng.randrange(0, 0xF00000)])
            n = rng.choice([1, 2, 5, 26, 300])
            sa, sb = rng.randrange(256), rng.randrange(256)
            a = (base, n, sa)
            inner = (base + rng.randrange(0, n), rng.randint(1, 3), sb)
            yield {"copier": copier, "blocks": [a, inner, a]}
            yield {"copier": copier, "blocks": [a, a]}
            yield {"copier": copier, "blocks": [(base + 5, 3, sb), (base, rng.choice([0x1000, 0x1800, 0x10001]), sa)]}
            yield {"copier": copier, "blocks": [(base + 0x900, 2, sb), (base + 0x10, 7, sa), (base, 0x2000, sa), (base + 0x900, 2, sb)]}
            yield {"copier": copier, "blocks": [a, (base, n, sb), a, inner]}


def run(tier, seed):
    rng = random.Random(seed)
    cases = list(gen(tier, rng)) + list(gen_histories(tier, rng)) + list(gen_header_patterns(tier, rng)) + list(gen_contents(tier, rng))
    failures = []
    for c in cases:
        f = check(c)
        if f and len(failures) < 10:
            failures.append({"ident": "bounded/ips-roundtrip", "script": "b_C11.py", "payload": c, "observed": f})
    return {"evaluations": len(cases), "distinct_nontrivial": len({str(c) for c in cases}),
            "rule": "block sequences (lengths 0, 1, around every multiple of 65535; addresses 0 .. beyond 2^24 incl. 0x454F46 and 0xFE00-type copier carries; "
                    "with/without copier header; 1-5 blocks; repeated / overlapping / rewritten blocks; contents from byte patterns, tiny alphabets (fills, 00/FF mixtures) and fills with one deviating byte) written by the real IPSWriter to a real BytesIO, parsed by an independent reader",
            "samples": cases[:2], "failures": failures}


def replay(payload):
    payload["blocks"] = [tuple(b) for b in payload["blocks"]]  # (contents given as lists are accepted by pattern())
    f = check(payload)
    return {"failed": f is not None, "observed": f}


if __name__ == "__main__":
    main_protocol(run, replay)
