"""Bounded stand-in for C12: the option lattice (format x mapping x copier-header x defines) x programs valid under the
mapping, through the real command line in a subprocess, compared with the in-memory API; SFC image == IPS applied to an
empty image; the exported symbol file against hand-derived label definitions."""
import itertools
import os
import random
import shutil
import subprocess
import sys
import tempfile

from common import REPO_ROOT, assemble, main_protocol

from vf.specs import ips_format

PROGRAMS = {
    "low": ["*=0x008000\nstart:\nlda #K\nsta 0x2100\n.dw start\n*=0x018200\nfar:\n.db 1, 2, 3\njmp.l far\n",
            # the define is used while the source is EXPANDED (.if condition, .for bound, := right-hand side), and a string holds a TAB
            "*=0x008000\n.if K {\nlda #0x12\n} else {\nlda #0x34\n}\n.for i := 0, K - K + 2 {\n.db i + K\n}\ncopy := K + 1\n.db copy\n.ascii 'COL1\tCOL2'\n",
            "*=0x00FFFC\n.dl 0x123456\n.dl 0x654321\nafter:\n.dw after\n",
            # blocks made of zero bytes only: one overwriting earlier bytes, one being the highest block of the image (a cleared vector)
            "*=0x008000\n.db 0x11, 0x22, 0x33, K\n*=0x008001\n.db 0, 0\n*=0x00ffe4\n.dw 0x0000\n",
            # blocks written in DESCENDING address order, the later one overlapping the earlier one's start: the image keeps the highest byte, the later write wins
            "*=0x018000\n.db 0x11, 0x12, 0x13, K\n*=0x008000\nlda #K\nrts\n*=0x017FFE\n.db 0x21, 0x22, 0x23\n"],
    "low2": ["*=0x808000\nstart:\nlda #K\n.dl start\n*=0x818100\n.db 9\n", "*=0x818000\n.db 1, 2, K\n*=0x808000\nlda #K\n"],
    "high": ["*=0xC00000\nstart:\nlda #K\n.dl start\n*=0xC1FFFE\n.dw 0x1234\n.dw 0x5678\n", "*=0x400010\n.db K\nhere:\n.dl here\n",
             "*=0xC10000\n.db 0x11, 0x12, K\n*=0xC00000\nlda #K\n*=0xC0FFFF\n.db 0x31, 0x32\n"],
}
ROM = {"low": "low_rom", "low2": "low_rom_2", "high": "high_rom"}
# one contiguous run of more than two full IPS records (> 0x1FFFE bytes, no *= in between): the patch needs three records
BIG = {"low": "*=0x008000\nlda #K\n.incbin '{BIG}'\nend:\n.dl end\n", "low2": "*=0x808000\nlda #K\n.incbin '{BIG}'\n", "high": "*=0xC00000\nlda #K\n.incbin '{BIG}'\n.db 1\n"}
BIG_LEN = 2 * 0xFFFF + 5


def cli(args, cwd):
    env = dict(os.environ, PYTHONPATH=REPO_ROOT)
    return subprocess.run([sys.executable, "-m", "a816.cli"] + args, capture_output=True, text=True, env=env, timeout=60, cwd=cwd)


def check(case):
    wd = tempfile.mkdtemp(prefix="vfC12")
    try:
        if case["prog"] == "big":
            big = os.path.join(wd, "big.bin")
            open(big, "wb").write(bytes((i * 7 + (i >> 8)) & 0xFF for i in range(BIG_LEN)))
            src = BIG[case["mapping"]].replace("{BIG}", big)
        else:
            src = PROGRAMS[case["mapping"]][case["prog"]]
        k = case["k"]
        ref = assemble(src, rom_type=ROM[case["mapping"]], defines={"K": k})
        if ref["status"] != "ok":
            return f"in-memory API rejects the reference program: {ref['error'] or ref['exc']}"
        blocks = ref["blocks"]
        open(os.path.join(wd, "p.s"), "w").write(src)
        kt = {"dec": str(k), "hex": hex(k), "bin": bin(k)}[case["kstyle"]]
        args = ["-o", "out.bin", "-f", case["fmt"], "-m", case["mapping"]] + (["--copier-header"] if case["copier"] else []) + ["p.s", "-D", f"K={kt}"] + (
            ["UNUSED=1"] if case.get("extra_define") else [])
        p = cli(args, wd)
        if p.returncode != 0:
            return f"CLI failed (status {p.returncode}) where the in-memory API succeeds: {(p.stdout + p.stderr)[-200:]}"
        raw = open(os.path.join(wd, "out.bin"), "rb").read()
        shift = 0x200 if case["copier"] and case["fmt"] == "ips" else 0
        want_img = {}
        for a, b in blocks:
            for i, x in enumerate(b):
                want_img[a + shift + i] = x
        if case["fmt"] == "ips":
            try:
                recs, end = ips_format.parse(raw)
            except ips_format.IpsFormatError as e:
                return f"CLI patch is not well formed: {e}"
            split = [(a + shift + k, b[k:k + 0xFFFF]) for a, b in blocks for k in range(0, len(b), 0xFFFF)]  # a block longer than one record is split at 65535
            if [(a, b) for a, b in recs] != split:
                return f"IPS records {[(hex(a), b.hex()[:12]) for a, b in recs]} differ from in-memory blocks {[(hex(a + shift), b.hex()[:12]) for a, b in blocks]}"
            got_img = ips_format.apply(recs)
        else:
            got_img = {i: x for i, x in enumerate(raw) if i in want_img or x != 0}
            if len(raw) != max(want_img) + 1:
                return f"SFC image length {len(raw)} != last written offset + 1 = {max(want_img) + 1}"
        if got_img != want_img:
            bad = sorted(set(got_img.items()) ^ set(want_img.items()))[:4]
            return f"{case['fmt']} output differs from the in-memory blocks at {[(hex(a), x) for a, x in bad]}"
        return None
    finally:
        shutil.rmtree(wd, ignore_errors=True)


SYM_PROG = ("*=0x008000\nstart:\nnop\n{\nstart:\nnop\ninner:\n}\n.scope sc {\nl:\nnop\n}\n.for i := 0, 3 {\nloop_label:\nnop\n}\n"
            ".macro m() {\nin_macro:\nnop\n}\nm()\n*=0x7e0010\nram_label:\n*=0xC12345\n")
SYM_EXPECT = sorted([(" 0:8000", "start"), (" 0:8001", "start"), (" 0:8002", "inner"), (" 0:8002", "l"), (" 0:8006", "in_macro"), ("7e:  10", "ram_label")])


def check_symbols():
    from a816.program import Program
    from common import RecordingWriter
    wd = tempfile.mkdtemp(prefix="vfC12s")
    try:
        p = Program()
        src = SYM_PROG.replace("*=0xC12345\n", "")
        err = p.assemble_string_with_emitter(src, "t.s", RecordingWriter())
        if err:
            return f"symbol program rejected: {err}"
        path = os.path.join(wd, "o.sym")
        p.exports_symbol_file(path)
        lines = open(path).read().split("\n")
        if lines[0] != "[labels]":
            return "symbol file does not start with [labels]"
        got = sorted((l[:7], l[8:]) for l in lines[1:] if l)
        if got != SYM_EXPECT:
            return f"symbol file lists {got}, expected {SYM_EXPECT}"
        return None
    finally:
        shutil.rmtree(wd, ignore_errors=True)


def gen(tier, rng):
    pts = list(itertools.product(("ips", "sfc"), ("low", "low2", "high"), (False, True)))
    for fmt, mapping, copier in pts:
        progs = range(len(PROGRAMS[mapping]))
        for pi in progs:
            for kstyle in (("dec", "hex", "bin") if tier == "thorough" else (rng.choice(["dec", "hex", "bin"]),)):
                yield {"fmt": fmt, "mapping": mapping, "copier": copier, "prog": pi, "k": rng.choice([5, 0x7F, 0xFF, 0x12, 0, 0]), "kstyle": kstyle,
                       "extra_define": rng.random() < 0.5}


def check_rebuild(case):
    """two successive builds to the SAME output path: the second output is the second program's blocks applied to an empty image / patch
    (nothing of the first build survives)"""
    wd = tempfile.mkdtemp(prefix="vfC12r")
    try:
        first = "*=0x008000\nlda #0x12\nsta.w 0x2100\n*=0x008100\n.db 1, 2, 3, 4\n"
        second = "*=0x008000\nrts\n*=0x008040\n.db 9\n"
        out = os.path.join(wd, "out.bin")
        for name, src in (("a.s", first), ("b.s", second)):
            open(os.path.join(wd, name), "w").write(src)
            p = cli(["-o", "out.bin", "-f", case["fmt"], "-m", "low", name], wd)
            if p.returncode != 0:
                return f"CLI failed on {name}: {(p.stdout + p.stderr)[-200:]}"
        ref = assemble(second, rom_type="low_rom")
        want = {}
        for a, b in ref["blocks"]:
            for i, x in enumerate(b):
                want[a + i] = x
        raw = open(out, "rb").read()
        if case["fmt"] == "ips":
            got = ips_format.apply(ips_format.parse(raw)[0])
        else:
            got = {i: x for i, x in enumerate(raw) if i in want or x != 0}
            if len(raw) != max(want) + 1:
                return f"second SFC image is {len(raw)} bytes long, expected {max(want) + 1}: content of the first build survives"
        if got != want:
            return f"second build's output differs from its own blocks applied to an empty image at {sorted(set(got.items()) ^ set(want.items()))[:4]}"
        return None
    finally:
        shutil.rmtree(wd, ignore_errors=True)


def gen_big(tier, rng):
    for mapping in (("low", "low2", "high") if tier == "thorough" else (rng.choice(["low", "low2", "high"]),)):
        for fmt, copier in (("ips", False), ("ips", True), ("sfc", False)):
            yield {"fmt": fmt, "mapping": mapping, "copier": copier, "prog": "big", "k": 0x12, "kstyle": "hex", "extra_define": False}


def run(tier, seed):
    rng = random.Random(seed)
    cases = list(gen(tier, rng)) + list(gen_big(tier, rng))
    failures = []
    for c in cases:
        f = check(c)
        if f and len(failures) < 10:
            failures.append({"ident": f"bounded/cli-lattice/{c['fmt']}-{c['mapping']}", "script": "b_C12.py", "payload": c, "observed": f})
    f = check_symbols()
    if f:
        failures.append({"ident": "bounded/symbol-file", "script": "b_C12.py", "payload": {"symbols": True}, "observed": f})
    for fmt in ("sfc", "ips"):
        f = check_rebuild({"fmt": fmt})
        if f:
            failures.append({"ident": f"bounded/rebuild-same-path/{fmt}", "script": "b_C12.py", "payload": {"rebuild": True, "fmt": fmt}, "observed": f})
    return {"evaluations": len(cases) + 3, "distinct_nontrivial": len({str(c) for c in cases}) + 3,
            "rule": "every point of format x mapping x copier-header with -D defines in decimal/hex/binary, programs valid under the mapping (bank "
                    "crossing, two blocks, one contiguous run of more than two full IPS records through .incbin), real CLI in a subprocess vs in-memory API blocks; IPS parsed by the independent reader; SFC image == blocks "
                    "applied to an empty image; plus two successive builds to the same output path (both formats) and one symbol-file program with labels in root/block/named/loop/macro scopes and RAM",
            "samples": cases[:2], "failures": failures}


def replay(payload):
    f = check_symbols() if payload.get("symbols") else check_rebuild(payload) if payload.get("rebuild") else check(payload)
    return {"failed": f is not None, "observed": f}


if __name__ == "__main__":
    main_protocol(run, replay)
