"""Helpers for the native (real code, /venv/bin/python) side: API-level assembly with a recording writer."""
from __future__ import annotations

import json
import os
import signal
import sys

VERIF_ROOT = os.path.dirname(os.path.dirname(os.path.dirname(os.path.abspath(__file__))))
REPO_ROOT = os.environ.get("VERIF_REPO", "/repo")
for p in (VERIF_ROOT, REPO_ROOT):
    if p not in sys.path:
        sys.path.insert(0, p)

import logging  # noqa: E402

logging.disable(logging.CRITICAL)


class RecordingWriter:
    def __init__(self):
        self.blocks = []
        self.began = self.ended = 0

    def begin(self):
        self.began += 1

    def write_block_header(self, block, block_address):
        pass

    def write_block(self, block, block_address):
        self.blocks.append((block_address, bytes(block)))

    def end(self):
        self.ended += 1


class Timeout(BaseException):
    """raised by the watchdog; a BaseException so that no `except Exception` of the code under test can swallow it"""


def _alarm(signum, frame):
    raise Timeout()


def assemble(src, filename="t.s", rom_type=None, timeout=10, defines=None):
    """-> dict(status = ok | error | exception | timeout, blocks, error, exc, program)"""
    import contextlib
    import io

    from a816.program import Program

    p = Program()
    if rom_type is not None:
        from a816.cpu.cpu_65c816 import RomType

        p.resolver.rom_type = RomType[rom_type]
    for k, v in (defines or {}).items():
        p.resolver.current_scope.add_symbol(k, v)
    w = RecordingWriter()
    res = {"status": "ok", "blocks": [], "error": None, "exc": None}
    old = signal.signal(signal.SIGALRM, _alarm)
    # the alarm REPEATS every second after the first expiry: a handler invoked at the interpreter's recursion limit dies with a RecursionError of its
    # own, which code that catches RecursionError would swallow together with the watchdog
    signal.setitimer(signal.ITIMER_REAL, timeout, 1.0)
    try:
        with contextlib.redirect_stdout(io.StringIO()):
            err = p.assemble_string_with_emitter(src, filename, w)
        if err is not None:
            res["status"] = "error"
            res["error"] = err
    except Timeout:
        signal.setitimer(signal.ITIMER_REAL, 0)
        res["status"] = "timeout"
    except BaseException as e:  # noqa: BLE001
        res["status"] = "exception"
        res["exc"] = f"{type(e).__name__}: {e}"
        res["exc_type"] = type(e).__name__
        res["exc_obj"] = e
    finally:
        signal.setitimer(signal.ITIMER_REAL, 0)
        signal.signal(signal.SIGALRM, old)
    res["blocks"] = w.blocks
    res["program"] = p
    return res


def image(blocks):
    """Apply blocks in order to a sparse image -> dict offset -> byte."""
    img = {}
    for addr, data in blocks:
        for i, b in enumerate(data):
            img[addr + i] = b
    return img


def hexblocks(blocks):
    return [[a, b.hex()] for a, b in blocks]


def main_protocol(run, replay):
    """stdin JSON {tier, seed} -> run(tier, seed); {replay: payload} -> replay(payload)."""
    req = json.load(sys.stdin)
    real_stdout = sys.stdout
    sys.stdout = sys.stderr  # whatever the code under test prints must not end up in the result channel
    try:
        if "replay" in req:
            out = replay(req["replay"])
        else:
            out = run(req.get("tier", "quick"), int(req.get("seed", 0)))
    finally:
        sys.stdout = real_stdout
    sys.stdout.write("\n@@VF-RESULT@@")
    json.dump(out, sys.stdout, default=str)
