"""Bounded stand-in / cross-check for C04 on the real code (labelled bounded; never counted as proved):
 * both built-in buses: every bank x window-edge offsets x increments against the textbook formulas
 * seeded random `.map` configurations written as source text (so parse_map and generate_map are on the path),
   checked against the generic range formula."""
import random

from common import assemble, main_protocol

from vf.specs import busmath


def check_builtin(kind, addr, n):
    """-> None or failure description (an exception of the code under test where the formulas define a result is a failure, not a crash of this script)"""
    try:
        return _check_builtin(kind, addr, n)
    except Exception as e:  # noqa: BLE001
        return f"unexpected {type(e).__name__}: {e}"


def _check_builtin(kind, addr, n):
    from a816.symbols import high_rom_bus, low_rom_bus

    bus = low_rom_bus if kind == "low" else high_rom_bus
    bank = addr >> 16
    if kind == "low":
        rom = bank <= 0x6F or 0x80 <= bank <= 0xCF
        ram = 0x7E <= bank <= 0x7F
        inwin = (addr & 0xFFFF) >= 0x8000
        off = busmath.lorom_offset(addr)
        top = 0x6F if bank <= 0x6F else 0xCF
        size = 0x8000
    else:
        ram = 0x7E <= bank <= 0x7F
        rom = (0x40 <= bank <= 0x7D) or bank >= 0xC0
        inwin = True
        off = busmath.hirom_offset(addr)
        top = 0x7D if bank <= 0x7D else 0xFF
        size = 0x10000
    try:
        a = bus.get_address(addr)
    except KeyError:
        return None if not (rom or ram) else f"mapped bank {bank:#x} rejected"
    if not (rom or ram):
        return f"unmapped bank {bank:#x} accepted"
    if ram:
        if a.physical is not None:
            return "RAM address has a file offset"
        if (addr + n) >> 16 in (0x7E, 0x7F) and (a + n).logical_value != addr + n:
            return "RAM advance is not plain addition"
        return None
    if not inwin:
        return None
    if a.physical != off:
        return f"offset {a.physical} != textbook {off}"
    first = (bank - (off // size)) & 0xFF
    tgt_bank = first + (off + n) // size
    if tgt_bank > top:
        return None  # leaves the mapped range: outside the quantifier
    r = a + n
    if r.physical != off + n:
        return f"advance by {n}: offset {r.physical} != {off + n}"
    if (r.logical_value >> 16) != tgt_bank or (kind == "low" and (r.logical_value & 0xFFFF) < 0x8000):
        return f"advance by {n}: lands at {r.logical_value:#x} outside the range/window"
    if (a + 0).logical_value != addr:
        return "advance by 0 is not the identity"
    return None


def num(v, style):
    """a number of the `.map` directive in the literal styles the scanner accepts"""
    return {"hex": f"{v:#x}", "dec": str(v), "bin": f"{v:#b}"}[style]


def map_program(cfg):
    lines = []
    for i, e in enumerate(cfg):
        st = e.get("style", "hex")
        l = f".map identifier={e['id']} bank_range={num(e['lo'], st)},{num(e['hi'], st)} addr_range={num(e['alo'], st)},{num(0xffff, st)} mask={num(e['mask'], st)}"
        if e["ram"]:
            l += " writable=1"
        elif (e["lo"] + e["hi"] + i) % 2 == 0:
            l += " writable=0"   # ROM said explicitly: the same as leaving the attribute out
        if e["mirror"]:
            l += f" mirror_bank_range={num(e['mirror'][0], st)},{num(e['mirror'][1], st)}"
        lines.append(l)
    return "\n".join(lines) + "\n"


def check_map_cfg(cfg, probes):
    try:
        return _check_map_cfg(cfg, probes)
    except Exception as e:  # noqa: BLE001
        return f"unexpected {type(e).__name__}: {e}"


def _check_map_cfg(cfg, probes):
    src = map_program(cfg)
    res = assemble(src + "*=" + hex(probes[0][0]) + "\n")
    # the program above only has to parse; the probes go through the resolver's bus
    if res["status"] not in ("ok",):
        # a probe address that is RAM/unmapped may fail the `*=`; retry without it
        res = assemble(src)
        if res["status"] != "ok":
            return f"map program rejected: {res['error'] or res['exc']}"
    bus = res["program"].resolver.bus
    view = {}
    for e in cfg:  # later definitions win, mirror after primary
        for b in range(e["lo"], e["hi"] + 1):
            view[b] = (e, e["lo"])
        if e["mirror"]:
            for b in range(e["mirror"][0], e["mirror"][1] + 1):
                view[b] = (e, e["mirror"][0])
    for addr, n in probes:
        bank = addr >> 16
        try:
            a = bus.get_address(addr)
        except KeyError:
            if bank in view:
                return f"mapped bank {bank:#x} rejected"
            continue
        if bank not in view:
            return f"unmapped bank {bank:#x} accepted"
        e, first = view[bank]
        if e["ram"]:
            if a.physical is not None:
                return f"RAM bank {bank:#x} has offset"
            continue
        if not busmath.in_window(e["mask"], addr) or (addr & 0xFFFF) < e["alo"]:
            continue  # below the declared window (e.g. the lower half of a 64K bank declared with addr_range=0x8000,0xffff) the statement assigns no offset
        off = busmath.rom_offset(first, e["mask"], addr)
        if a.physical != off:
            return f"{addr:#x}: offset {a.physical} != {off}"
        tgt = busmath.rom_address(first, e["mask"], off + n)
        tb = tgt >> 16
        if tb not in view or view[tb] != (e, first):
            continue
        r = a + n
        if r.logical_value != tgt or r.physical != off + n:
            return f"{addr:#x}+{n}: got {r.logical_value:#x}/{r.physical}, expected {tgt:#x}/{off + n}"
    return None


def gen_cfg(rng):
    n = rng.randint(1, 3)
    # identifiers are numbers; a later one may be a PREFIX of an earlier one's spelling (12 then 1, 10 then 1, 21 then 2): still different mappings
    ids = rng.choice([[1, 2, 3], [12, 1, 2], [10, 1, 100], [21, 2, 212], [3, 2, 1]])
    cfg = []
    used = set()
    for i in range(n):
        for _ in range(20):
            lo = rng.randint(0, 0xF0)
            hi = min(0xFF, lo + rng.choice([0, 1, 3, 0x0F, 0x3F]))
            rngs = [(lo, hi)]
            mirror = None
            if rng.random() < 0.5:
                mlo = rng.randint(0, 0xF0)
                mirror = (mlo, min(0xFF, mlo + (hi - lo)))
                rngs.append(mirror)
            banks = {b for a, c in rngs for b in range(a, c + 1)}
            if len(banks) == sum(c - a + 1 for a, c in rngs) and not (banks & used):
                used |= banks
                mask = rng.choice([0x8000, 0x10000])
                cfg.append({"id": ids[i], "lo": lo, "hi": hi, "mask": mask, "alo": (0x10000 - mask) if (mask == 0x8000 or rng.random() < 0.6) else 0x8000, "ram": rng.random() < 0.25, "mirror": mirror, "style": rng.choice(["hex", "hex", "dec", "bin"])})
                break
    return cfg


def probes_for(cfg, rng):
    ps = []
    for e in cfg:
        for (lo, hi) in [(e["lo"], e["hi"])] + ([e["mirror"]] if e["mirror"] else []):
            for bank in {lo, hi, (lo + hi) // 2}:
                for low in (0x10000 - e["mask"], 0xFFFF, 0x8000, 0xFFFE, rng.randint(0, 0xFFFF)):
                    for n in (0, 1, 2, 0x7FFF, 0x8000, 0x10000, 0x18001, rng.randint(0, 0x30000)):
                        ps.append(((bank << 16) | low, n))
    ps.append((rng.randint(0, 0xFFFFFF), 1))
    return ps


def run(tier, seed):
    rng = random.Random(seed)
    failures = []
    evaluations = 0
    distinct = set()
    samples = []
    lows = [0x0000, 0x0001, 0x7FFF, 0x8000, 0x8001, 0xFFFE, 0xFFFF]
    incs = [0, 1, 2, 0x7FFF, 0x8000, 0x8001, 0xFFFF, 0x10000, 0x18000]
    for kind in ("low", "high"):
        for bank in range(256):
            for low in lows + [rng.randint(0, 0xFFFF)]:
                for n in incs if tier == "thorough" else incs[:6]:
                    addr = (bank << 16) | low
                    evaluations += 1
                    distinct.add((kind, addr, n))
                    f = check_builtin(kind, addr, n)
                    if f and len(failures) < 5:
                        failures.append({"ident": f"bounded/builtin-{kind}", "script": "b_C04.py", "payload": {"what": "builtin", "kind": kind, "addr": addr, "n": n},
                                         "observed": f})
    samples.append({"builtin probe": ["low", hex(0x00FFFF), 1]})
    ncfg = 150 if tier == "thorough" else 25
    for i in range(ncfg):
        cfg = gen_cfg(rng)
        if not cfg:
            continue
        probes = probes_for(cfg, rng)
        evaluations += len(probes)
        distinct.add(("cfg", str(cfg)))
        f = check_map_cfg(cfg, probes)
        if i < 2:
            samples.append({"map program": map_program(cfg)})
        if f and len(failures) < 8:
            failures.append({"ident": "bounded/map-config", "script": "b_C04.py", "payload": {"what": "cfg", "cfg": cfg, "probes": probes}, "observed": f})
    return {"evaluations": evaluations, "distinct_nontrivial": len(distinct),
            "rule": "every bank x 8 window-edge offsets x increments on both live built-in buses vs textbook LoROM/HiROM formulas; seeded random "
                    "`.map` programs (1-3 disjoint entries, optional mirror, 32K/64K, ROM/RAM) through the real parser, probes at range/window edges; "
                    "distinct = distinct (bus, address, increment) triples + distinct configurations",
            "samples": samples, "failures": failures}


def replay(payload):
    if payload["what"] == "builtin":
        f = check_builtin(payload["kind"], payload["addr"], payload["n"])
    else:
        f = check_map_cfg(payload["cfg"], [tuple(p) for p in payload["probes"]])
    return {"failed": f is not None, "observed": f}


if __name__ == "__main__":
    main_protocol(run, replay)
