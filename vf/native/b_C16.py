"""Bounded metamorphic stand-in for C16: compositions of the listed presentation changes applied at every applicable position
of valid programs (hand-written ones covering every operand shape, and generated ones); bytes, offsets and all symbol values of
the re-laid-out program must equal those of the original."""
import os
import random
import re
import shutil
import tempfile

import refasm
from common import assemble, hexblocks, main_protocol

HAND = [
    """*=0x008000
start:
lda #0x12
lda.w #0x1234
lda 0x10
lda.w 0x1234,x
ldx 0x10,y
lda.b 0x03,s
lda (0x10)
lda (0x10),y
lda [0x10]
lda [0x10],y
lda (0x10,x)
lda (0x03,s),y
jmp.w (0x1234)
jmp.w [0x1234]
sta.l 0x7e1234,x
nop
rts
.db 1,2,0xff
.dw start+1,0xabcd
.dl start
value := 3+4*2
other = value<<2
lda #value&0xff
lda.w #other|1
lda #0x12ab >> 8
lda #(3 + 4) - 1
lda.w (3 + 4) * 2 - 1
lda.w #1 << 4
.db 1 << 4, 0x80 >> 3
shifted = 0xF0 >> 4
.db shifted
{
inner:
bra inner
}
.macro put(a,b) {
.db a,b
}
put(1,value)
.if value {
sec
} else {
clc
}
.for i := 0,3 {
.db i
}
end:
""",
    """*=0x01fffe
first:
.dl first
second:
ldx #0xab
loop:
dex
bne loop
jsr.l 0xc08000
.scope lib {
entry:
rtl
}
jmp.w lib.entry
.ascii 'it''s'
.ascii 'COL1\tCOL2\t\tEND'
after_text:
.dw after_text
""".replace("''", ""),
    # conditionals without an else block, directly followed by blocks: a comment between them is only a comment, whatever it says
    """*=0x008000
flag := 1
.if flag {
lda #1
}
{
lda #2
}
.if 0 {
lda #3
}
{
lda #4
}
a := 0x10
A := 0x21
asl a
rol a
dec A
lsr a
done:
.dw done
""",
]
OPS = None


def ops_set():
    from a816.cpu.cpu_65c816 import snes_opcode_table
    return set(snes_opcode_table)


def t_case(line, rng):
    m = re.match(r"^(\s*)([a-z]{3})(\.[bwl])?(\s|$)(.*)$", line, re.S)
    if m and m.group(2) in ops_set():
        mn = m.group(2).upper() if rng.random() < 0.6 else m.group(2).capitalize()
        sz = (m.group(3) or "")
        sz = sz.upper() if rng.random() < 0.6 else sz
        rest = m.group(5)
        rest = re.sub(r",\s*([xys])\b", lambda k: k.group(0).replace(k.group(1), k.group(1).upper()) if rng.random() < 0.7 else k.group(0), rest)
        line = f"{m.group(1)}{mn}{sz}{m.group(4)}{rest}"
    if "'" not in line:
        line = re.sub(r"0x([0-9a-fA-F]+)", lambda k: "0x" + (k.group(1).upper() if rng.random() < 0.5 else k.group(1).lower()), line)
    return line


def t_spaces(line, rng):
    if "'" in line or line.strip().startswith((".macro", ".for", ".if", ".scope", "}")) or ":=" in line and False:
        return line
    m = re.match(r"^(\s*)([a-zA-Z]{3})(\.[bwlBWL])?\s+(.*)$", line)
    if m and m.group(2).lower() in ops_set() and m.group(4):
        operand = m.group(4)
        operand = re.sub(r"\s*([+*&|]|<<|>>)\s*", lambda k: rng.choice(["", " ", "  "]) + k.group(1) + rng.choice(["", " "]), operand)
        # a BINARY minus (something that ends a term before it, something that starts one after it): blanks around it are free as well
        operand = re.sub(r"(?<=[0-9a-zA-Z_)])\s*-\s*(?=[0-9a-zA-Z_(])", lambda k: rng.choice(["", " ", "  "]) + "-" + rng.choice(["", " "]), operand)
        operand = re.sub(r"\s*,\s*", lambda k: rng.choice(["", " "]) + "," + rng.choice(["", " ", "  "]), operand)
        operand = re.sub(r"([(\[])\s*(?=[0-9a-zA-Z_])", lambda k: k.group(1) + rng.choice(["", " "]), operand)
        operand = re.sub(r"(?<=[0-9a-zA-Z])\s*([)\]])", lambda k: rng.choice(["", " "]) + k.group(1), operand)  # also after an inner index register: `(0x10,s ),y`
        operand = re.sub(r"^#\s*", lambda k: "#" + rng.choice(["", " "]), operand)
        return f"{m.group(1)}{m.group(2)}{m.group(3) or ''}{rng.choice([' ', '  ', '   '])}{operand}"
    if line.strip().startswith((".db", ".dw", ".dl")) or ":=" in line or re.match(r"^\s*\w+\s*=", line):
        line = re.sub(r"\s*,\s*", lambda k: rng.choice(["", " "]) + "," + rng.choice(["", " ", "  "]), line)
        line = re.sub(r"(?<=[0-9a-zA-Z_])\s*([+*&]|<<|>>)\s*(?=[0-9a-zA-Z_(])", lambda k: rng.choice(["", " "]) + k.group(1) + rng.choice(["", " "]), line)
    return line


def relayout(lines, rng, use_include, tmpdir):
    out = []
    depth = 0
    for line in lines:
        if rng.random() < 0.25:
            out.append(rng.choice(["", "   ", "\t"]))
        if rng.random() < 0.2:
            out.append(rng.choice(["; a comment", "  ; indented comment with 'quote and /* inside", ";", "; else", ";else", "; nop", ";}", "; {"]))
        if rng.random() < 0.12 and depth == 0:
            out.append(rng.choice(["/* block comment */", "/* a\n   multi-line\n   comment */", "/* doc **/", "/** doc **/", "/***/", "/**/", "/**** banner ****/", "/* a * b / c ** d */",
                                   "/* \u00e9t\u00e9 ; 'quote' */", "/* block comments start with /* and end here */", "/*/* banner */", "/* a /* b */"]))
        l = line
        if rng.random() < 0.5:
            l = t_case(l, rng)
        if rng.random() < 0.5:
            l = t_spaces(l, rng)
        if rng.random() < 0.4:
            l = rng.choice(["  ", "\t", "    "]) + l
        if rng.random() < 0.3:
            l = l + rng.choice([" ", "   ", "\t"])
        if rng.random() < 0.2 and "'" not in l and l.strip() and not l.strip().endswith("{"):
            l = l + rng.choice([" ; eol comment", ";c", "  ; LDA #1", " ;; note", " ; a; b ; c", ";;", " ; tail ;", " ; x /* y"])
        out.append(l)
        depth += line.count("{") - line.count("}")
    text = "\n".join(out) + "\n"
    if use_include:
        # move a run of top-level statements into an included file
        # boundaries between top-level units (a unit = one line, or a whole balanced { } construct such as a macro definition)
        cuts = [0]
        d = 0
        for i, line in enumerate(out):
            code = line.split(";")[0] if "'" not in line else line
            if "/*" in line or "*/" in line or "\n" in line:
                d += 100 if "\n" in line or ("/*" in line and "*/" not in line) else 0
            d += code.count("{") - code.count("}")
            if d >= 100 and "*/" in line:
                d -= 100
            if d == 0:
                cuts.append(i + 1)
        runs = [(a, b - 1) for a in cuts for b in cuts if a < b <= a + 8 and a > 0]
        if runs:
            a, b = rng.choice(runs)
            inc = os.path.join(tmpdir, f"part{rng.randrange(1000)}.s")
            open(inc, "w").write("\n".join(out[a:b + 1]) + "\n")
            text = "\n".join(out[:a] + [f".include '{inc}'"] + out[b + 1:]) + "\n"
    return text


def observe(src):
    res = assemble(src)
    syms = {}
    if res["status"] == "ok":
        for i, sc in enumerate(res["program"].resolver.scopes):
            for k, v in sorted(sc.symbols.items()):
                if isinstance(v, int):
                    syms[f"{i}/{k}"] = v
    return res["status"], hexblocks(res["blocks"]), syms, (res["error"] or res["exc"] or "")[:160]


REPEATED_RUNS = [["lda #0x12", ".db 1, 2, 3", "inx"], ["nop"], [".dw 0x1234", "rts"], ["{", "l:", "bra l", "}"], ["k := 5", ".db k"]]


def check_twice(case):
    """a run of statements that occurs several times (at top level, in a named scope, in a block), EVERY occurrence replaced by an .include of the same file"""
    rng = random.Random(case["seed"])
    run_ = REPEATED_RUNS[case["run"] % len(REPEATED_RUNS)]
    tmp = tempfile.mkdtemp(prefix="vfC16t")
    try:
        inc = os.path.join(tmp, "part.s")
        open(inc, "w").write(relayout(run_, rng, False, tmp))
        use = [f".include '{inc}'"]

        def prog(r):
            return ["*=0x008000", "start:"] + r + ["mid:", "lda.w mid", ".scope s {"] + r + ["inner:", "}", "{"] + r + ["}"] + (r if case["run"] % 2 else []) + ["after:", ".dw after", ".dw s.inner"]
        ref = observe("\n".join(prog(run_)) + "\n")
        if ref[0] != "ok":
            raise RuntimeError(f"base program does not assemble: {ref[3]}")
        variant = "\n".join(prog(use)) + "\n"
        got = observe(variant)
        shown = variant.replace(inc, "part.s")
        if got[0] != "ok":
            return f"the program with the repeated run included is rejected: {got[3]}", shown
        if got[1] != ref[1]:
            return f"bytes/offsets differ when a repeated run is included from one file: {got[1][:2]} vs {ref[1][:2]}", shown
        if got[2] != ref[2]:
            return f"symbol values differ when a repeated run is included from one file: {[k for k in ref[2] if got[2].get(k) != ref[2][k]][:3]}", shown
        return None, shown + "# " + str(case["seed"])
    finally:
        shutil.rmtree(tmp, ignore_errors=True)


def check_nested(case):
    """a run that itself includes a file by a RELATIVE name is moved into a file of another directory that happens to hold a file of the same name: the
    name keeps meaning what it meant where the run was written (relative names are looked up from the working directory)"""
    rng = random.Random(case["seed"])
    tmp = tempfile.mkdtemp(prefix="vfC16n")
    cwd = os.getcwd()
    try:
        os.makedirs(os.path.join(tmp, "lib"))
        open(os.path.join(tmp, "tables.s"), "w").write(".db 0x11, 0x22\n")
        open(os.path.join(tmp, "lib", "tables.s"), "w").write(".db 0x99, 0x98, 0x97\n")
        run_ = [".include 'tables.s'", "lda.w start", "inner:"]
        open(os.path.join(tmp, "lib", "part.s"), "w").write(relayout(run_, rng, False, tmp))
        open(os.path.join(tmp, "part.s"), "w").write(relayout(run_, rng, False, tmp))
        os.chdir(tmp)
        ref = observe("\n".join(["*=0x008000", "start:"] + run_ + ["rts", "after:", ".dw after, inner"]) + "\n")
        if ref[0] != "ok":
            raise RuntimeError(f"base program does not assemble: {ref[3]}")
        where = ["lib/part.s", "part.s"][case["nested"] % 2]
        variant = "\n".join(["*=0x008000", "start:", f".include '{where}'", "rts", "after:", ".dw after, inner"]) + "\n"
        got = observe(variant)
        if got[0] != "ok":
            return f"the program with the run moved to {where} is rejected: {got[3]}", variant
        if got[1] != ref[1] or got[2] != ref[2]:
            return f"moving a run that includes 'tables.s' into {where} changes the output: {got[1][:2]} vs {ref[1][:2]}", variant
        return None, variant + "# " + str(case["seed"])
    finally:
        os.chdir(cwd)
        shutil.rmtree(tmp, ignore_errors=True)


def check(case):
    if "nested" in case:
        return check_nested(case)
    if "run" in case:
        return check_twice(case)
    rng = random.Random(case["seed"])
    if case["base"] < len(HAND):
        base = HAND[case["base"]]
    else:
        g = random.Random(case["base"])
        base = refasm.render(refasm.gen_program(g, "low_rom", size=8), random.Random(1)) + "\n"
    lines = [l for l in base.split("\n") if l != "" or False]
    tmp = tempfile.mkdtemp(prefix="vfC16")
    try:
        ref = observe("\n".join(lines) + "\n")
        if ref[0] != "ok":
            if case["base"] < len(HAND):
                raise RuntimeError(f"hand-written base program {case['base']} does not assemble: {ref[3]}")
            return None, base  # not a valid program: outside the quantifier
        variant = relayout(lines, rng, case.get("include", False), tmp)
        got = observe(variant)
        if got[0] != "ok":
            return f"the re-laid-out program is rejected: {got[3]}", variant
        if got[1] != ref[1]:
            return f"bytes/offsets differ: {got[1][:2]} vs {ref[1][:2]}", variant
        if got[2] != ref[2]:
            diff = [k for k in ref[2] if got[2].get(k) != ref[2][k]][:3]
            return f"symbol values differ: {diff}", variant
        return None, variant
    finally:
        shutil.rmtree(tmp, ignore_errors=True)


def run(tier, seed):
    n = 1500 if tier == "thorough" else 300
    failures = []
    distinct = set()
    samples = []
    kinds = set()
    for i in range(n + (40 if tier == "thorough" else 10)):
        case = {"seed": seed * 2147483 + i, "base": (i % 9) if i % 9 < len(HAND) else 100 + i % 40, "include": i % 3 == 0}
        if i >= n:
            case = {"seed": seed * 2147483 + i, "run": i - n}
            if (i - n) % 5 == 4:
                case = {"seed": seed * 2147483 + i, "nested": (i - n) // 5}
        f, variant = check(case)
        distinct.add(variant)
        if i == 1:
            samples.append(variant[:600])
        if f:
            k = f[:40]
            if k not in kinds and len(failures) < 10:
                kinds.add(k)
                failures.append({"ident": "bounded/relayout", "script": "b_C16.py", "payload": case, "observed": f + " :: " + variant[:300].replace("\n", " / ")})
    return {"evaluations": n + (40 if tier == "thorough" else 10), "distinct_nontrivial": len(distinct),
            "rule": "random compositions of: blank lines, indentation, trailing blanks, full-line and end-of-line ';' comments, one-line and multi-line /* */ comments "
                    "between statements, blanks next to operators / commas / inside brackets, letter case of mnemonics / size suffixes / index registers / hex digits, "
                    "moving a run of top-level statements into an .include'd file, a repeated run (top level / named scope / block) included from ONE file at every occurrence, a run with a relative .include of its own moved into another directory holding a same-named file -- on 3 hand-written programs covering every operand shape, TABs inside strings and else-less conditionals followed by blocks and 40 generated programs; "
                    "compares blocks and all symbol values with the original",
            "samples": samples, "failures": failures}


def replay(payload):
    f, variant = check(payload)
    return {"failed": f is not None, "observed": f, "program": variant}


if __name__ == "__main__":
    main_protocol(run, replay)
