"""A small independent reference model of the assembler's OUTPUT for a restricted statement language, written from the
property statements (C02/C03/C07/C08/C10) and the textbook mapping formulas -- not from the assembler's code.
Programs are trees of statements; `render` turns them into source text (with seeded layout variation), `reference`
computes the blocks a correct assembler must hand to the writer and the value of every label."""
import random

from vf.specs import busmath, isa65816

IMPLIED = ["nop", "inx", "iny", "dex", "dey", "clc", "sec", "sei", "pha", "pla", "phx", "plx", "phy", "ply", "php", "plp", "rts", "rtl", "rti", "tax", "tay",
           "txa", "tya", "xba", "xce", "txs", "tsx", "tcd", "tdc", "phb", "plb", "phd", "pld", "phk", "wai", "stp"]
IMM = ["lda", "ldx", "ldy", "adc", "and", "cmp", "cpx", "cpy", "eor", "sbc", "bit", "ora"]
ABS = ["lda", "sta", "ldx", "ldy", "stx", "sty", "stz", "adc", "and", "cmp", "eor", "ora", "sbc", "inc", "dec", "jmp", "jsr", "bit"]


class Mapping:
    """View of a bus as a list of (first_bank, last_bank, base_bank, bank_size, is_rom) entries; later entries win."""

    def __init__(self, entries):
        self.entries = entries

    def entry(self, addr):
        bank = addr >> 16
        for lo, hi, base, size, rom in reversed(self.entries):
            if lo <= bank <= hi:
                return (lo, hi, base, size, rom)
        return None

    def offset(self, addr):
        e = self.entry(addr)
        if e is None or not e[4]:
            return None
        return busmath.rom_offset(e[2], e[3], addr)

    def advance(self, addr, n):
        e = self.entry(addr)
        if e is None:
            raise KeyError(addr)
        if not e[4]:
            return addr + n
        return busmath.rom_address(e[2], e[3], busmath.rom_offset(e[2], e[3], addr) + n)


LOROM = Mapping([(0x00, 0x6F, 0x00, 0x8000, True), (0x80, 0xCF, 0x80, 0x8000, True), (0x7E, 0x7F, 0x7E, 0x10000, False)])
HIROM = Mapping([(0x40, 0x7F, 0x40, 0x10000, True), (0xC0, 0xFF, 0xC0, 0x10000, True), (0x7E, 0x7F, 0x7E, 0x10000, False)])


def le(v, k):
    return bytes((v >> (8 * i)) & 0xFF for i in range(k))


class Ref:
    """Reference evaluation: two passes like any assembler (labels first), over the expanded statement list."""

    def __init__(self, mapping):
        self.mapping = mapping

    def expand(self, stmts, env_stack, out, scope_path="", counters=None):
        """Flatten blocks / loops / conditionals into a list of primitive statements with resolved scoping of label names:
        every label gets a unique key scope_path/name; references are resolved lexically at expansion."""
        for st in stmts:
            k = st[0]
            if k == "block":
                self._scope(st[1], env_stack, out, scope_path)
            elif k == "scope":
                frame = self._scope(st[2], env_stack, out, scope_path)
                for name, key in list(frame["labels"].items()):
                    env_stack[-1]["labels"][f"{st[1]}.{name}"] = key
            elif k == "for":
                lo = self.lookup_const(st[2], env_stack) if isinstance(st[2], str) else st[2]
                hi = self.lookup_const(st[3], env_stack) if isinstance(st[3], str) else st[3]
                for i in range(lo, hi):
                    self._scope(st[4], env_stack, out, scope_path, {st[1]: i})
            elif k == "splice":
                blk = self.lookup_const(st[1], env_stack)
                self.expand(list(blk[1]), env_stack, out, scope_path)
            elif k == "macro":
                env_stack[0].setdefault("macros", {})[st[1]] = (st[2], st[3])
            elif k == "apply":
                params, body = env_stack[0]["macros"][st[1]]
                if len(st[2]) < len(params):
                    raise IndexError("too few macro arguments")
                # arguments are evaluated at the call site, then bound in the application's own scope
                vals = [a if (isinstance(a, tuple) and a[0] == "blockarg") else self.resolve_value(a, env_stack) for a in st[2]]
                self._scope(body, env_stack, out, scope_path, dict(zip(params, vals)))
            elif k == "if":
                cond = st[1]
                val = self.lookup_const(cond, env_stack) if isinstance(cond, str) else cond
                branch = st[2] if (val is not None and val != 0) else st[3]
                if branch is not None:
                    # a conditional is not a scope (C08 lists blocks, named scopes, macro applications and loop iterations)
                    for b in branch:
                        if b[0] == "label":
                            env_stack[-1]["labels"][b[1]] = f"{env_stack[-1]['id']}/{b[1]}"
                    self.expand(branch, env_stack, out, scope_path)
            elif k == "const":
                v = st[2]
                if isinstance(v, str) and self.lookup_const(v, env_stack) is not None:
                    v = self.lookup_const(v, env_stack)  # `name := other` is evaluated where it is written
                env_stack[-1]["consts"][st[1]] = v
            elif k == "label":
                key = f"{env_stack[-1]['id']}/{st[1]}"
                env_stack[-1]["labels"][st[1]] = key
                out.append(("label", key))
            else:
                out.append(self.resolve_refs(st, env_stack))
        return out

    _next = 0

    def _scope(self, body, env_stack, out, scope_path, consts=None):
        Ref._next += 1
        frame = {"id": Ref._next, "labels": {}, "consts": dict(consts or {}), "pending": []}
        # labels are visible in their whole scope (forward references): pre-register
        for st in body:
            if st[0] == "label":
                frame["labels"][st[1]] = f"{frame['id']}/{st[1]}"
        env_stack.append(frame)
        self.expand(body, env_stack, out, scope_path)
        env_stack.pop()
        return frame

    def lookup_const(self, name, env_stack):
        for f in reversed(env_stack):
            if name in f["consts"]:
                return f["consts"][name]
        return None

    def resolve_value(self, v, env_stack):
        if isinstance(v, tuple) and v[0] == "dec":
            return self.resolve_value(v[1], env_stack) - 1
        if isinstance(v, str):
            for f in reversed(env_stack):
                if v in f["consts"]:
                    return f["consts"][v]
                if v in f["labels"]:
                    return ("labelref", f["labels"][v])
            # a label that becomes visible later (forward reference, export of a named scope defined further down):
            # resolved lexically against the same chain of scopes once all labels are known
            return ("lazy", v, tuple(env_stack))
        return v

    def resolve_refs(self, st, env_stack):
        def res(v):
            return self.resolve_value(v, env_stack)
        if st[0] in ("db", "dw", "dl"):
            return (st[0], [res(v) for v in st[1]])
        if st[0] in ("imm", "abs"):
            return (st[0], st[1], res(st[2]), st[3])
        return st

    def size(self, st):
        k = st[0]
        if k in ("db", "dw", "dl"):
            return {"db": 1, "dw": 2, "dl": 3}[k] * len(st[1])
        if k == "op":
            return 1
        if k in ("imm", "abs"):
            return 1 + {"b": 1, "w": 2, "l": 3}[st[3]]
        return 0

    def run(self, program):
        Ref._next = 0
        root = {"id": 0, "labels": {}, "consts": {}, "pending": []}
        for st in program:
            if st[0] == "label":
                root["labels"][st[1]] = f"0/{st[1]}"
        flat = self.expand(program, [root], [])
        # pass 1: label addresses
        labels = {}
        addr = None
        for st in flat:
            if st[0] == "label":
                labels[st[1]] = addr
            elif st[0] in ("star", "at"):
                addr = st[1]
            else:
                n = self.size(st)
                if n:
                    addr = self.mapping.advance(addr, n)
        # pass 2: bytes and blocks
        blocks = []
        cur = b""
        cur_off = None
        off = None

        def val(v):
            if isinstance(v, tuple) and v[0] == "lazy":
                for f in reversed(v[2]):
                    if v[1] in f["labels"]:
                        return labels[f["labels"][v[1]]]
                raise KeyError(v[1])
            return labels[v[1]] if isinstance(v, tuple) else v
        for st in flat:
            k = st[0]
            if k == "star":
                if cur:
                    blocks.append((cur_off, cur))
                cur = b""
                o = self.mapping.offset(st[1])
                if o is not None:
                    off = o
                cur_off = off
            elif k == "at" or k == "label":
                pass
            else:
                if k in ("db", "dw", "dl"):
                    w = {"db": 1, "dw": 2, "dl": 3}[k]
                    b = b"".join(le(val(v), w) for v in st[1])
                elif k == "op":
                    b = bytes([isa65816.ISA[st[1]]["imp"]])
                elif k == "imm":
                    b = bytes([isa65816.ISA[st[1]]["imm"]]) + le(val(st[2]), {"b": 1, "w": 2}[st[3]])
                elif k == "abs":
                    form = {"b": "dp", "w": "abs", "l": "long"}[st[3]]
                    b = bytes([isa65816.ISA[st[1]][form]]) + le(val(st[2]), {"b": 1, "w": 2, "l": 3}[st[3]])
                cur += b
                off += len(b)
        if cur:
            blocks.append((cur_off, cur))
        return blocks, labels


def render(program, rng, indent=0):
    """Source text of a program tree (layout varied by rng: spacing, case of hex digits, comments)."""
    out = []
    pad = " " * indent

    def num(v):
        if isinstance(v, tuple) and v[0] == "dec":
            return f"{v[1]} - 1"
        if isinstance(v, tuple) and v[0] == "blockarg":
            return "{\n" + render(list(v[1]), rng, indent + 2) + "\n" + pad + "}"
        if isinstance(v, str):
            return v
        if v < 0:
            return f"-{num(-v)}"
        return rng.choice([hex(v), str(v), "0x" + hex(v)[2:].upper()])
    for st in program:
        k = st[0]
        if k in ("db", "dw", "dl"):
            out.append(f"{pad}.{k} " + rng.choice([", ", ","]).join(num(v) for v in st[1]))
        elif k == "op":
            out.append(f"{pad}{st[1]}")
        elif k == "imm":
            out.append(f"{pad}{st[1]}.{st[3]} #{num(st[2])}")
        elif k == "abs":
            out.append(f"{pad}{st[1]}.{st[3]} {num(st[2])}")
        elif k == "star":
            out.append(f"{pad}*={st[1]:#x}")
        elif k == "at":
            out.append(f"{pad}@={st[1]:#x}")
        elif k == "label":
            out.append(f"{pad}{st[1]}:")
        elif k == "const":
            out.append(f"{pad}{st[1]} := {num(st[2])}")
        elif k == "splice":
            out.append(f"{pad}{{{{ {st[1]} }}}}")
        elif k == "macro":
            out.append(f"{pad}.macro {st[1]}({', '.join(st[2])}) {{")
            out.append(render(st[3], rng, indent + 2))
            out.append(pad + "}")
        elif k == "apply":
            out.append(f"{pad}{st[1]}({rng.choice([', ', ',']).join(num(a) for a in st[2])})".replace("\u200b", ""))
        elif k == "scope":
            out.append(f"{pad}.scope {st[1]} {{")
            out.append(render(st[2], rng, indent + 2))
            out.append(pad + "}")
        elif k == "block":
            out.append(pad + "{")
            out.append(render(st[1], rng, indent + 2))
            out.append(pad + "}")
        elif k == "for":
            out.append(f"{pad}.for {st[1]} := {st[2]}, {st[3]} {{")
            out.append(render(st[4], rng, indent + 2))
            out.append(pad + "}")
        elif k == "if":
            out.append(f"{pad}.if {num(st[1])} {{")
            out.append(render(st[2], rng, indent + 2))
            if st[3] is not None:
                out.append(pad + "} else {")
                out.append(render(st[3], rng, indent + 2))
            out.append(pad + "}")
        if rng.random() < 0.08:
            out.append(pad + "; comment")
    return "\n".join(out)


def gen_program(rng, mapping_name="low_rom", depth=0, allow_moves=True, labels=None, size=8, loops=True, shared_locals=None):
    """Random program tree.  Label names are unique per program except deliberately re-used short names in inner scopes."""
    labels = labels if labels is not None else {"n": 0}
    prog = []
    starts = {"low_rom": [0x008000, 0x00FFF0, 0x018000, 0x02FFFD, 0x808000, 0x81FFFE, 0x3FFFFC, 0x408000, 0x6F8000, 0xBFFFFE, 0xC08000, 0xCFFF00],
              "high_rom": [0xC00000, 0xC0FFF8, 0xC10000, 0x400000, 0x41FFFE, 0x7D0000, 0x7DFF00, 0xFF0000, 0xFFFF00, 0x5FFFFD]}[mapping_name]
    ram = [0x7E2000, 0x7F0100]
    if depth == 0:
        prog.append(("star", rng.choice(starts)))
    local_labels = shared_locals if shared_locals is not None else []
    for _ in range(rng.randint(1, size)):
        r = rng.random()
        if r < 0.25:
            k = rng.choice(["db", "dw", "dl"])
            vals = [rng.choice([0, 1, 0x7F, 0xFF, 0x100, 0xFFFF, 0x12345, 0xFFFFFF, rng.randrange(1 << 24)]) for _ in range(rng.randint(1, 4))]
            if local_labels and rng.random() < 0.5 and k == "dl":
                vals[0] = rng.choice(local_labels)
            prog.append((k, vals))
        elif r < 0.40:
            prog.append(("op", rng.choice(IMPLIED)))
        elif r < 0.50:
            prog.append(("imm", rng.choice(IMM), rng.randrange(256), "b"))
        elif r < 0.62:
            tgt = rng.choice(local_labels) if local_labels and rng.random() < 0.6 else rng.randrange(0x10000)
            prog.append(("abs", rng.choice(ABS), tgt, "w"))
        elif r < 0.74:
            labels["n"] += 1
            name = rng.choice(["loop", "l", "done"]) if depth > 0 and rng.random() < 0.5 else f"lab{labels['n']}"
            if name not in local_labels:
                local_labels.append(name)
                prog.append(("label", name))
        elif r < 0.82 and depth < 3:
            prog.append(("block", gen_program(rng, mapping_name, depth + 1, False, labels, max(2, size // 2), loops)))
        elif r < 0.88 and depth < 2 and loops:
            a = rng.randrange(3)
            prog.append(("for", "i", a, a + rng.randrange(4), gen_program(rng, mapping_name, depth + 1, False, labels, 3, False)))
        elif r < 0.93 and depth < 2:
            prog.append(("if", rng.choice([0, 1, 2, -1]), gen_program(rng, mapping_name, depth + 1, False, labels, 3, loops, local_labels),
                         gen_program(rng, mapping_name, depth + 1, False, labels, 2, loops, local_labels) if rng.random() < 0.5 else None))
        elif allow_moves and depth == 0:
            if rng.random() < 0.6:
                prog.append(("star", rng.choice(starts)))
            else:
                prog.append(("at", rng.choice(ram + starts)))
    return prog
