"""Bounded fault injection for C14: each class of definite error injected at several statement positions of valid programs,
through all four entry points (string API, Program.assemble, Program.assemble_as_patch, the command line in a subprocess)."""
import contextlib
import io
import logging
import os
import random
import shutil
import subprocess
import sys
import tempfile

from common import REPO_ROOT, VERIF_ROOT, RecordingWriter, main_protocol

VALID = [
    "*=0x008000\nstart:\nlda #0x12\nsta 0x2100\nrts\n",
    "*=0x008000\n.macro m(a) {\nlda #a\n}\nm(1)\nm(2)\nloop:\ndex\nbne loop\nrts\n",
    "*=0x018000\n{\nx := 3\n.db x, 2\n}\n.dw 0x1234\nend:\n.dl end\n",
    "*=0x008000\n.scope s {\nl:\nnop\n}\njmp.w s.l\n",
]
ERRORS = {
    "lexical-invalid-char": "lda $12",
    "lexical-unterminated-string": ".ascii 'abc",
    "syntax-bad-operand": "lda (0x10",
    "syntax-stray-token": ") nop",
    "undefined-symbol-operand": "lda.w missing_symbol",
    "undefined-symbol-data": ".dw missing_symbol",
    "undefined-macro": "no_such_macro(1)",
    "unsupported-addressing-mode": "stx 0x10,x",
    "unsupported-width": "lda.l #0x123456",
    "bad-size-suffix": "lda.q 0x10",
    "bad-index": "lda 0x10,q",
    "branch-out-of-range": "bra far_away\n.dw 0,0,0,0,0,0,0,0,0,0,0,0,0,0,0,0,0,0,0,0,0,0,0,0,0,0,0,0,0,0,0,0,0,0,0,0,0,0,0,0,0,0,0,0,0,0,0,0,0,0,0,0,0,0,0,0,0,0,0,0,0,0,0,0,0,0,0,0,0,0\nfar_away:",
    "branch-just-out-of-range": "bra just_far\n" + ".db 0\n" * 128 + "just_far:",
    "indexed-immediate": "lda #0x12,x",
    # a branch to the same offset in ANOTHER bank: the target is exactly 64 KiB (a multiple of it) of ROM away, far out of an 8-bit displacement's reach
    "branch-to-the-same-offset-two-banks-up": "*=0x008000\nbra other_bank\n*=0x028002\nother_bank:\nnop",
    "branch-to-a-numeric-target-in-another-bank": "*=0x008000\nbeq 0x028010",
    "undefined-code-block": "{{ no_such_block }}",
    "unmapped-address": "*=0x700000\nnop",
    "unmapped-address-beyond-the-24-bit-bus": "*=0x1008000\nnop",
    "unmapped-address-beyond-the-bus-mirror-bits": "*=0x2808000\nnop",
    "missing-include": ".include 'no_such_file.s'",
    "missing-incbin": ".incbin 'no_such_file.bin'",
    "too-few-macro-args": ".macro two(a, b) {\n.db a, b\n}\ntwo(1)",
    # the same kinds of error INSIDE a construct whose expansion is selected / repeated / spliced
    "undefined-macro-inside-taken-if": ".if 1 {\nno_such_macro(1)\n} else {\nnop\n}",
    "undefined-code-block-inside-taken-if": ".if 1 {\n{{ no_such_block }}\n}",
    "undefined-macro-inside-else": ".if 0 {\nnop\n} else {\nno_such_macro(1)\n}",
    "undefined-macro-inside-for": ".for k := 0, 2 {\nno_such_macro(k)\n}",
    "undefined-macro-inside-macro-body": ".macro outer_m() {\nno_such_macro(1)\n}\nouter_m()",
    "undefined-symbol-inside-block": "{\nlda.w missing_symbol\n}",
    "unterminated-comment-slash-star-slash": "/*/ nop",
    "unterminated-comment": "/* never closed",
    "lexical-error-inside-an-included-file": ".include '{INC:lda $12}'",
    "syntax-error-inside-an-included-file": ".include '{INC:lda (0x10}'",
    "syntax-error-inside-a-nested-include": ".include '{INC:.include \x27{INC2:) nop}\x27}'",
    "stray-closing-brace": "}\nnop",
    # an undefined symbol whose only use is the definition of a name nobody reads, or an argument the macro body never uses
    "undefined-symbol-in-an-unused-definition": "unused_name = missing_symbol",
    "undefined-symbol-in-an-unused-definition-in-a-block": "{\nunused_name = missing_symbol + 1\n}",
    "undefined-symbol-as-an-unused-macro-argument": ".macro ignores(a) {\nnop\n}\nignores(missing_symbol)",
    "undefined-symbol-shadowing-definition": "twice_defined = 1\n{\ntwice_defined = missing_symbol\n}",
    "stray-closing-brace-after-block": "{\nnop\n}\n}\nnop",
}


# constructs cut off right before their closing token: injected as the LAST thing of the source, with nothing (not even a newline) after them
TRUNCATED = ["load(1, 2", "lda [0x10", ".macro other", ".macro other(a", ".macro other(a)", "{{ name", "lda (0x10", "m(1,", "lda #", ".db 1,", ".if 1 {", ".for k := 0,", "x :=", "lda.w", ".scope s",
             # the LAST statement of the source runs off the end of the mapped address space (bank 0x70 / 0xD0 are unmapped under LoROM): an unmapped-address error
             "*=0x6FFFFE\nlda.l 0x123456\n", "*=0xCFFFFE\nlda.l 0x123456\n", "*=0x6FFFFF\n.dw 0x1234\n", "*=0x6FFFFD\n.dl 1\n.db 2\n"]


def materialise_includes(err, wd):
    """`{INC:text}` / `{INC2:text}` in an error statement stand for the name of a file (created in the working directory) that holds `text`"""
    import re
    for tag in ("INC2", "INC"):
        while True:
            m = re.search(r"\{%s:([^{}]*)\}" % tag, err)
            if not m:
                break
            name = f"{tag.lower()}_{abs(hash(m.group(1))) % 100000}.s"
            with open(os.path.join(wd, name), "w") as f:
                f.write("nop\n" + m.group(1) + "\nnop\n")
            err = err[:m.start()] + name + err[m.end():]
    return err


def inject(valid, err, pos):
    lines = valid.split("\n")
    # never split a block: candidate positions are top-level line boundaries (brace depth 0)
    depth = 0
    cands = [0]
    for i, l in enumerate(lines):
        depth += l.count("{") - l.count("}")
        if depth == 0:
            cands.append(i + 1)
    at = cands[pos % len(cands)]
    return "\n".join(lines[:at] + [err] + lines[at:])


class Capture(logging.Handler):
    def __init__(self):
        super().__init__()
        self.msgs = []

    def emit(self, record):
        self.msgs.append(record.getMessage())


def run_entry(entry, src, workdir):
    """-> (reported_failure: bool, announced_success: bool, detail)"""
    from a816.program import Program

    logging.disable(logging.NOTSET)
    cap = Capture()
    for name in ("a816", "x816"):
        lg = logging.getLogger(name)
        lg.addHandler(cap)
        lg.setLevel(logging.DEBUG)
        lg.propagate = False
    asm = os.path.join(workdir, "prog.s")
    with open(asm, "w") as f:
        f.write(src)
    out = os.path.join(workdir, "out.bin")
    try:
        with contextlib.redirect_stdout(io.StringIO()), contextlib.redirect_stderr(io.StringIO()):
            try:
                if entry == "string":
                    r = Program().assemble_string_with_emitter(src, "prog.s", RecordingWriter())
                    failed = r is not None
                elif entry == "assemble":
                    failed = Program().assemble(asm, out) != 0
                elif entry == "patch":
                    failed = Program().assemble_as_patch(asm, out) != 0
                else:
                    env = dict(os.environ, PYTHONPATH=REPO_ROOT)
                    p = subprocess.run([sys.executable, "-m", "a816.cli", "-o", out, asm] + (["-f", "sfc"] if entry == "cli-sfc" else []),
                                       capture_output=True, text=True, env=env, timeout=60, cwd=workdir)
                    cap.msgs.append(p.stdout + p.stderr)
                    failed = p.returncode != 0
            except BaseException as e:  # noqa: BLE001
                failed = True
                cap.msgs.append(f"raised {type(e).__name__}")
    finally:
        for name in ("a816", "x816"):
            logging.getLogger(name).removeHandler(cap)
    success = any("Success" in m for m in cap.msgs)
    return failed, success, " | ".join(m[:60] for m in cap.msgs[-2:])


def isa_rejects(rng, n):
    """statements the 65c816 does not define (mnemonic x operand shape x width from the ISA matrix of vf/specs/isa65816.py, as in C01's sweep): each is an
    `unsupported addressing mode or width` error that has to reach the caller"""
    import b_C01
    from a816.cpu.cpu_65c816 import snes_opcode_table
    pool = []
    for mn in sorted(snes_opcode_table):
        if mn in b_C01.isa.BRANCHES:
            continue
        for shape in b_C01.SHAPES:
            for suffix in ("", "b", "w", "l"):
                v = 0x12 if suffix else rng.choice([0x10, 0x100, 0x10000])
                if shape and b_C01.expected_for(mn, shape, suffix, v)[0] == "reject":
                    pool.append([mn, shape, suffix, v, 0])
    return rng.sample(pool, min(n, len(pool)))


def check(case):
    wd = tempfile.mkdtemp(prefix="vfC14")
    try:
        if case.get("isa_reject") is not None:
            import b_C01
            src = VALID[case["valid"]] + b_C01.render(*case["isa_reject"]) + "\nnop\n"
        elif case.get("truncated") is not None:
            src = VALID[case["valid"]] + TRUNCATED[case["truncated"]]
        else:
            src = VALID[case["valid"]] if case["error"] is None else inject(VALID[case["valid"]], materialise_includes(ERRORS[case["error"]], wd), case["pos"])
        cwd = os.getcwd()
        os.chdir(wd)
        try:
            failed, success, detail = run_entry(case["entry"], src, wd)
        finally:
            os.chdir(cwd)
        if case["error"] is None:
            if failed or (case["entry"] != "string" and not success):
                return f"valid program reported as failure via {case['entry']} ({detail})"
            return None
        if not failed:
            return f"{case['error']} via {case['entry']}: status/None says success ({detail})"
        if success:
            return f"{case['error']} via {case['entry']}: failure status but success announced ({detail})"
        return None
    finally:
        shutil.rmtree(wd, ignore_errors=True)


def gen(tier, rng):
    entries = ["string", "assemble", "patch"]
    for v in range(len(VALID)):
        for e in entries + ["cli"]:
            yield {"valid": v, "error": None, "pos": 0, "entry": e}
    for err in ERRORS:
        for e in entries:
            for pos in ((0, 1, 2, 3, 5) if tier == "thorough" else (rng.randrange(6), rng.randrange(6))):
                yield {"valid": rng.randrange(len(VALID)), "error": err, "pos": pos, "entry": e}
        yield {"valid": rng.randrange(len(VALID)), "error": err, "pos": rng.randrange(6), "entry": "cli"}
        if tier == "thorough":
            yield {"valid": rng.randrange(len(VALID)), "error": err, "pos": rng.randrange(6), "entry": "cli-sfc"}
    for r in isa_rejects(rng, 60 if tier == "thorough" else 12):   # through the full entry-point machinery; ALL of them through the string API in run()
        yield {"valid": 0, "error": "not-a-65c816-instruction:" + " ".join(str(x) for x in r[:3]), "isa_reject": r, "pos": 0, "entry": rng.choice(entries)}
    for k, t in enumerate(TRUNCATED):
        for e in (entries if tier == "thorough" else [entries[k % 3]]) + (["cli"] if tier == "thorough" or k % 4 == 0 else []):
            yield {"valid": rng.randrange(len(VALID)), "error": "truncated:" + t, "truncated": k, "pos": 0, "entry": e}


def run(tier, seed):
    rng = random.Random(seed)
    cases = list(gen(tier, rng))
    failures = []
    kinds = set()
    for c in cases:
        f = check(c)
        if f and (c["error"], c["entry"]) not in kinds and len(failures) < 12:
            kinds.add((c["error"], c["entry"]))
            failures.append({"ident": f"bounded/fault-injection/{c['entry']}", "script": "b_C14.py", "payload": c, "observed": f})
    # every mnemonic x operand shape x width the 65c816 does not define, through the string API (in-process): an error must come back
    import b_C01
    from common import assemble
    pool = isa_rejects(rng, 10 ** 9)
    for r in pool:
        stmt = b_C01.render(*r)
        res = assemble("*=0x008000\n" + stmt + "\nnop\n")
        if res["status"] == "ok" and ("isa", r[0]) not in kinds and len(failures) < 16:
            kinds.add(("isa", r[0]))
            failures.append({"ident": "bounded/fault-injection/string", "script": "b_C14.py", "payload": {"valid": 0, "error": "not-a-65c816-instruction", "isa_reject": r, "pos": 0, "entry": "string"},
                             "observed": f"`{stmt}` is not a 65c816 instruction but the string API reports success ({b''.join(b for _a, b in res['blocks']).hex()})"})
    return {"evaluations": len(cases) + len(pool), "distinct_nontrivial": len({str(c) for c in cases}) + len(pool),
            "rule": "40 kinds of definite error (incl. undefined symbols nobody reads) x statement positions, 15 constructs cut off right before their closing token at the very end of the source, every mnemonic x operand-shape x width combination the 65c816 does not define (string API; a sample through the other entry points), x 4 entry points (CLI in a subprocess) on 4 valid base programs; "
                    "plus the valid programs themselves (must succeed); distinct = distinct (program, error, position, entry point)",
            "samples": cases[:1] + cases[20:22], "failures": failures}


def replay(payload):
    f = check(payload)
    return {"failed": f is not None, "observed": f}


if __name__ == "__main__":
    main_protocol(run, replay)
