"""Bounded cross-check for C20 on the real code: offsets of the 4 MiB space (all of them in the thorough tier,
a stride + every range edge in the quick tier) under the three modes, against the textbook formulas and the live buses."""
import random
import warnings

from common import main_protocol

from vf.specs import busmath, le

warnings.simplefilter("ignore")


def check_offset(o, mode_name):
    from a816.cpu.cpu_65c816 import RomType, rom_to_snes, snes_to_rom
    from a816.symbols import high_rom_bus, low_rom_bus

    mode = RomType[mode_name]
    first = {"low_rom": 0, "low_rom_2": 0x80, "high_rom": 0xC0}[mode_name]
    size = 0x10000 if mode_name == "high_rom" else 0x8000
    r = rom_to_snes(o, mode)
    if r != busmath.rom_address(first, size, o):
        return f"rom_to_snes({o:#x}) = {r:#x}"
    bus = high_rom_bus if mode_name == "high_rom" else low_rom_bus
    lim = {"low_rom": 0x380000, "low_rom_2": 0x280000, "high_rom": 0x400000}[mode_name]
    if o < lim and bus.get_address(r).physical != o:
        return f"bus offset of {r:#x} is {bus.get_address(r).physical}"
    if (mode_name != "low_rom_2" or o < 0x200000) and snes_to_rom(r) != o:
        return f"snes_to_rom({r:#x}) = {snes_to_rom(r):#x}"
    return None


def check_pointer(base, p):
    import struct

    from script.formulas import base_relative_16bits_pointer_formula, long_low_rom_pointer

    o = base + p
    if not (0 <= o < 0x800000):
        return None  # outside the quantifier
    try:
        r = long_low_rom_pointer(base)(p)
    except struct.error:
        return "in-range pointer refused"
    if not le.is_le(r, busmath.rom_address(0, 0x8000, o), 3):
        return f"long_low_rom_pointer({base:#x})({p:#x}) = {r.hex()}"
    v = bytes([p & 0xFF, (p >> 8) & 0xFF])
    if base_relative_16bits_pointer_formula(base)(v) != (p & 0xFFFF) + base:
        return "base_relative formula"
    return None


def run(tier, seed):
    rng = random.Random(seed)
    failures = []
    n = 0
    edges = [0, 1, 0x7FFF, 0x8000, 0x8001, 0xFFFF, 0x10000, 0x1FFFFF, 0x200000, 0x27FFFF, 0x280000, 0x37FFFF, 0x380000, 0x3FFFFF]
    offs = range(0, 0x400000) if tier == "thorough" else sorted(set(edges + list(range(0, 0x400000, 0x1FF)) + [rng.randrange(0x400000) for _ in range(500)]))
    for mode in ("low_rom", "low_rom_2", "high_rom"):
        for o in offs:
            n += 1
            f = check_offset(o, mode)
            if f and len(failures) < 5:
                failures.append({"ident": f"bounded/offset-{mode}", "script": "b_C20.py", "payload": {"what": "offset", "o": o, "mode": mode}, "observed": f})
    pairs = [(b, p) for b in (0, 0x10, 0x7FFF, 0x8000, 0x100000, 0x3F0000, rng.randrange(0x400000)) for p in (0, 1, 12, 0x7FFF, 0x8000, 0xFFFF, rng.randrange(0x10000))]
    pairs += [(0x7F0000, 0xFFFF), (0x7FFFFF, 1), (-1, 0), (0x800000, 0)]
    for b, p in pairs:
        n += 1
        f = check_pointer(b, p)
        if f and len(failures) < 8:
            failures.append({"ident": "bounded/pointer", "script": "b_C20.py", "payload": {"what": "pointer", "base": b, "p": p}, "observed": f})
    # the legacy helpers are pure functions of their arguments: what mapping some Program of the process selected before must not matter
    from a816.program import Program
    for selected in ("high", "low2", "low"):
        Program().set_mapping(selected)
        for b, p in pairs[:14]:
            n += 1
            f = check_pointer(b, p)
            if f and len(failures) < 8:
                failures.append({"ident": "bounded/pointer", "script": "b_C20.py", "payload": {"what": "pointer", "base": b, "p": p, "after_set_mapping": selected},
                                 "observed": f + f" after a Program of the process selected the {selected} mapping"})
        for mode in ("low_rom", "low_rom_2", "high_rom"):
            for o in edges:
                n += 1
                f = check_offset(o, mode)
                if f and len(failures) < 8:
                    failures.append({"ident": f"bounded/offset-{mode}", "script": "b_C20.py", "payload": {"what": "offset", "o": o, "mode": mode, "after_set_mapping": selected}, "observed": f})
    return {"evaluations": n, "distinct_nontrivial": n, "exhaustive": tier == "thorough",
            "rule": "pointer pairs and range edges again after Programs of the process selected each mapping; offsets x 3 modes (thorough: all 4 MiB; quick: stride 0x1FF + range edges + seeded random) and (base, pointer) pairs at window edges; each distinct",
            "samples": [{"offset": hex(0x37FFFF), "mode": "low_rom"}, {"base": hex(0x10), "pointer": hex(0x7FFF)}], "failures": failures}


def replay(payload):
    if payload.get("after_set_mapping"):
        from a816.program import Program
        Program().set_mapping(payload["after_set_mapping"])
    f = check_offset(payload["o"], payload["mode"]) if payload["what"] == "offset" else check_pointer(payload["base"], payload["p"])
    return {"failed": f is not None, "observed": f}


if __name__ == "__main__":
    main_protocol(run, replay)
