"""Native (CPython, /venv/bin/python) side: build real objects from a materialised recipe and run a harness.
No z3 here.  Used for: replay of solver counterexamples on the real code, bounded stand-ins, conformance runs."""
from __future__ import annotations

import importlib
import io
import json
import os
import sys

VERIF_ROOT = os.path.dirname(os.path.dirname(os.path.dirname(os.path.abspath(__file__))))
REPO_ROOT = os.environ.get("VERIF_REPO", "/repo")
for p in (VERIF_ROOT, REPO_ROOT):
    if p not in sys.path:
        sys.path.insert(0, p)


def resolve(qualname):
    parts = qualname.split(".")
    for i in range(len(parts), 0, -1):
        try:
            obj = importlib.import_module(".".join(parts[:i]))
        except ImportError:
            continue
        for a in parts[i:]:
            obj = getattr(obj, a)
        return obj
    raise ImportError(qualname)


class Stub:
    """Instance of a model class (<file>, ...) on the native side."""


def build(tree, memo=None):
    if memo is None:
        memo = {}
    k = tree["k"]
    if k == "none":
        return None
    if k in ("bool", "int", "str", "float"):
        return tree["v"]
    if k == "bytes":
        return bytes(x % 256 for x in tree["v"])
    if k == "tuple":
        return tuple(build(x, memo) for x in tree["v"])
    if k == "set":
        return set(build(x, memo) for x in tree["v"])
    if k == "enum":
        return resolve(tree["cls"])[tree["name"]]
    if k in ("class", "func"):
        return resolve(tree["v"])
    if k == "global":
        return getattr(importlib.import_module(tree["mod"]), tree["attr"])
    if k == "opaque":
        if tree.get("v") == "logger":
            import logging
            return logging.getLogger("x816")
        return None
    if k == "ref":
        return memo[tree["id"]]
    if k == "list":
        r = []
        memo[tree["id"]] = r
        r.extend(build(x, memo) for x in tree["v"])
        return r
    if k == "dict":
        r = {}
        memo[tree["id"]] = r
        for a, b in tree["v"]:
            r[build(a, memo)] = build(b, memo)
        return r
    if k == "inst":
        cls = tree["cls"]
        if cls == "<file>":
            from vf.contracts.rt import LogFile
            f = tree["f"]
            data = build(f.get("data", {"k": "bytes", "v": []}), memo)
            obj = LogFile(data if isinstance(data, (bytes, bytearray)) else b"")
            memo[tree["id"]] = obj
            if "written" in f:
                memo[f["written"].get("id")] = obj.written
            return obj
        if cls.startswith("<"):
            obj = Stub()
            memo[tree["id"]] = obj
            for a, b in tree["f"].items():
                setattr(obj, a, build(b, memo))
            return obj
        if cls.endswith("ExpressionAstNode") and "ghost_value" in tree["f"]:
            # symbolic expression stub -> a real expression that evaluates to the value (or mentions an undefined name)
            from a816.parse.ast.nodes import ExpressionAstNode, Term
            from a816.parse.tokens import Token, TokenType
            if build(tree["f"]["ghost_defined"], memo):
                obj = ExpressionAstNode([Term(Token(TokenType.NUMBER, str(build(tree["f"]["ghost_value"], memo))))])
            else:
                obj = ExpressionAstNode([Term(Token(TokenType.IDENTIFIER, "verif_undefined_symbol"))])
            memo[tree["id"]] = obj
            return obj
        c = resolve(cls)
        obj = c.__new__(c)
        memo[tree["id"]] = obj
        for a, b in tree["f"].items():
            if a.startswith("__ghost"):
                continue
            try:
                object.__setattr__(obj, a, build(b, memo))
            except AttributeError:
                pass
        return obj
    raise ValueError(f"cannot build {tree!r}")


def patch_target(qualname, new):
    """Monkey-patch `qualname` (module.attr or module.Class.attr) with `new`; returns an undo thunk."""
    parts = qualname.split(".")
    for i in range(len(parts) - 1, 0, -1):
        try:
            owner = importlib.import_module(".".join(parts[:i]))
        except ImportError:
            continue
        for a in parts[i:-1]:
            owner = getattr(owner, a)
        name = parts[-1]
        missing = object()
        old = owner.__dict__.get(name, missing) if hasattr(owner, "__dict__") else missing
        setattr(owner, name, new)

        def undo(owner=owner, name=name, old=old):
            if old is missing:
                delattr(owner, name)
            else:
                setattr(owner, name, old)
        return undo
    raise ImportError(qualname)


def run_harness(qualname, params_tree, overrides=None):
    """-> dict(outcome = pass | violation | assumption-failed | exception, detail).  `overrides` are the assumed contracts
    on dependencies (real function name -> spec function name) the proof used; they are monkey-patched in, so the replay
    runs the REAL function under contract against the same stubbed dependencies."""
    from vf.contracts import rt

    import inspect
    fn = resolve(qualname)
    memo = {}
    wanted = set(inspect.signature(fn).parameters)
    kwargs = {name: build(t, memo) for name, t in params_tree.items() if name in wanted}
    rt.CHECKS_RUN.clear()
    rt.EVENTS.clear()
    rt.GHOST.clear()
    undo = [patch_target(k, resolve(v)) for k, v in (overrides or {}).items()]
    import signal

    class _Watchdog(BaseException):
        pass

    def _alarm(signum, frame):
        raise _Watchdog()
    old_handler = signal.signal(signal.SIGALRM, _alarm)
    signal.alarm(int(os.environ.get("VF_REPLAY_WATCHDOG_S", "10")))
    try:
        try:
            fn(**kwargs)
        finally:
            signal.alarm(0)
            signal.signal(signal.SIGALRM, old_handler)
            for u in reversed(undo):
                u()
    except _Watchdog:
        return {"outcome": "timeout", "detail": "the real code did not return within the replay watchdog (non-termination)", "checks_run": list(rt.CHECKS_RUN)}
    except rt.ContractViolation as e:
        return {"outcome": "violation", "detail": e.name, "checks_run": list(rt.CHECKS_RUN)}
    except rt.AssumptionFailed:
        return {"outcome": "assumption-failed", "detail": "", "checks_run": list(rt.CHECKS_RUN)}
    except BaseException as e:  # noqa: BLE001 - an uncaught exception of the real code is itself the observation
        return {"outcome": "exception", "detail": f"{type(e).__name__}: {e}", "checks_run": list(rt.CHECKS_RUN)}
    return {"outcome": "pass", "detail": "", "checks_run": list(rt.CHECKS_RUN)}


def main():
    req = json.load(sys.stdin)
    out = []
    real_stdout = sys.stdout
    sys.stdout = sys.stderr  # whatever the code under test prints must not end up in the result channel
    try:
        for item in req["items"]:
            out.append(run_harness(item["harness"], item["params"], item.get("overrides")))
    finally:
        sys.stdout = real_stdout
    sys.stdout.write("\n@@VF-RESULT@@")
    json.dump(out, sys.stdout)


if __name__ == "__main__":
    main()
