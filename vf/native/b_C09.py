"""Bounded twins for C09: programs with macro definitions and applications (parameter counts 0-3, bodies with data using the
parameters, local labels, nested and conditionally-terminated recursive applications, code-block arguments; arguments that are
literals, constants, backward/forward labels, names coinciding with parameter names; many applications at various placements)
through the real pipeline vs the reference model, which inlines every application in a fresh scope with call-site argument values."""
import random

import refasm
from common import assemble, main_protocol


def gen(rng):
    prog = [("star", rng.choice([0x008000, 0x018000])), ("const", "a", 0x11), ("const", "b", 0x22), ("const", "K", 3)]
    macros = []
    # m0: no parameter, local label
    prog.append(("macro", "m0", [], [("label", "here"), ("abs", "jmp", "here", "w"), ("op", "nop")]))
    macros.append(("m0", 0))
    # m2: two parameters named like outer constants
    prog.append(("macro", "m2", ["a", "b"], [("db", ["a", "b"]), ("label", "l"), ("dw", ["l"])]))
    macros.append(("m2", 2))
    # m3 nests m2 and uses a parameter as a 16-bit operand
    prog.append(("macro", "m3", ["x", "y", "z"], [("apply", "m2", ["y", "x"]), ("abs", "lda", "z", "w"), ("apply", "m0", [])]))
    macros.append(("m3", 3))
    # rec: conditionally terminated recursion
    prog.append(("macro", "rec", ["n"], [("db", ["n"]), ("if", "n", [("apply", "rec", [("dec", "n")])], None)]))
    macros.append(("rec", 1))
    # w: code-block parameter spliced from a nested scope
    prog.append(("macro", "w", ["code"], [("op", "php"), ("block", [("splice", "code")]), ("op", "plp")]))
    labels = 0
    pending_forward = []
    for _ in range(rng.randint(2, 7)):
        r = rng.random()
        name, arity = rng.choice(macros)
        if r < 0.55:
            args = []
            for _k in range(arity):
                c = rng.random()
                if c < 0.3:
                    args.append(rng.randrange(256))
                elif c < 0.55:
                    args.append(rng.choice(["a", "b", "K"]))
                elif c < 0.75 and labels:
                    args.append(f"lab{rng.randrange(labels)}")
                elif c < 0.9:
                    fwd = f"fwd{len(pending_forward)}"
                    pending_forward.append(fwd)
                    args.append(fwd)
                else:
                    args.append(rng.randrange(0x10000))
            if name == "rec":
                args = [rng.choice([0, 1, 3, "K"])]
            prog.append(("apply", name, args))
        elif r < 0.7:
            prog.append(("label", f"lab{labels}"))
            labels += 1
            prog.append(("op", rng.choice(refasm.IMPLIED)))
        elif r < 0.8:
            prog.append(("apply", "w", [("blockarg", (("db", [rng.randrange(256)]), ("op", "inx")))]))
        elif r < 0.9:
            prog.append(("block", [("const", "a", 0x55), ("apply", "m2", ["a", rng.randrange(256)]), ("apply", "m2", [1, "a"])]))
        else:
            prog.append(("for", "i", 0, rng.randrange(4), [("apply", "m2", ["i", "b"])]))
    for f in pending_forward:
        prog.append(("label", f))
        prog.append(("op", "rts"))
    return prog


# the NUMBER of applications / scopes is not limited: many successive applications, a long loop applying a macro, an application after many blocks,
# and a deep (terminating) recursion expand completely
MANY = [
    ("250 successive applications", "*=0x008000\n.macro one(v) {\n.db v\n}\n" + "".join(f"one({i})\n" for i in range(250)), bytes(range(250))),
    ("a 150-iteration loop applying a macro", "*=0x008000\n.macro one(v) {\n.db v\n}\n.for i := 0, 150 {\none(i)\n}\n", bytes(range(150))),
    ("an application after 220 blocks", "*=0x008000\n.macro one(v) {\n.db v\n}\n" + "{\nnop\n}\n" * 220 + "one(7)\n", b"\xea" * 220 + b"\x07"),
    ("a named scope in the body, its label referenced qualified, two applications", "*=0x008000\n.macro rec(v) {\n.db v\n.scope s {\nl:\n}\n.dw s.l\n}\nrec(1)\nrec(2)\n{\nrec(3)\n}\n",
     bytes.fromhex("010180" "020480" "030780")),
    ("a block argument applying a macro whose block parameter has the same name", "*=0x008000\n.macro w(code) {\nphp\n{{ code }}\nplp\n}\n.macro v(code) {\npha\n{{ code }}\npla\n}\nw({\nv({\nnop\n})\n})\nw({\nw({\ninx\n})\n})\n",
     bytes.fromhex("0848ea6828" "0808e82828")),
    ("code-block arguments first, in the middle, and two of them", "*=0x008000\n.macro wrap(code, v) {\n.db v\n{{ code }}\n.db v\n}\n.macro mid(a, code, b) {\n.db a\n{{ code }}\n.db b\n}\n"
     ".macro two(x, y) {\n{{ x }}\n{{ y }}\n}\nwrap({\nnop\n}, 7)\nmid(1, {\nclc\n}, 2)\ntwo({\nsei\n}, {\nnop\n})\n", bytes.fromhex("07ea07" "011802" "78ea")),
    ("macros whose names are spelled like mnemonics (rep, inc, asl) -- an identifier directly followed by `(` is an application", "*=0x008000\n.macro rep(n, code) {\n.for k := 0, n {\n{{ code }}\n}\n}\n"
     ".macro inc(v) {\n.db v + 1\n}\n.macro asl() {\nasl\n}\nrep(3, {\nnop\n})\ninc(5)\nasl()\nrep(1, {\nclc\n})\n", bytes.fromhex("eaeaea" "06" "0a" "18")),
    ("applications that expand to nothing (the last step of a recursion, an empty block) followed by applications that use their parameters",
     "*=0x008000\n.macro countdown(n) {\n.if n {\n.db n\ncountdown(n - 1)\n}\n}\n.macro put(v) {\n.db v\n}\n.macro pair(lo, hi) {\n.db lo, hi\n}\ncountdown(2)\nput(9)\n{\n}\ncountdown(0)\npair(0x11, 0x22)\nput(0x33)\n",
     bytes.fromhex("0201" "09" "1122" "33")),
    ("recursion of depth 120 ended by .if", "*=0x008000\n.macro down(n) {\n.db n\n.if n {\ndown(n - 1)\n}\n}\ndown(120)\n", bytes(range(120, -1, -1))),
]


def check(case):
    rng = random.Random(case["seed"])
    prog = gen(rng)
    src = refasm.render(prog, rng) + "\n"
    try:
        want, labels = refasm.Ref(refasm.LOROM).run(prog)
    except KeyError as e:
        return None, src
    res = assemble(src)
    if res["status"] != "ok":
        return f"the inlined twin assembles but the macro form is rejected: {res['error'] or res['exc']}", src
    got = [(a, b) for a, b in res["blocks"]]
    if got != want:
        for i, (g, w) in enumerate(zip(got, want)):
            if g != w:
                n = next((k for k, (x, y) in enumerate(zip(g[1], w[1])) if x != y), min(len(g[1]), len(w[1])))
                return f"block {i} differs from the inlined twin at byte {n}: got {g[1][max(0, n - 2):n + 6].hex()} expected {w[1][max(0, n - 2):n + 6].hex()} (lengths {len(g[1])}/{len(w[1])})", src
        return f"{len(got)} blocks, inlined twin has {len(want)}", src
    return None, src


ERRORS = [("undefined macro", "*=0x008000\nnope(1)\n"), ("too few arguments", "*=0x008000\n.macro m(a, b) {\n.db a, b\n}\nm(1)\n"),
          ("too few arguments, missing name defined outside", "*=0x008000\nb := 5\n.macro m(a, b) {\n.db a, b\n}\nm(1)\n"),
          ("too few arguments, parameter unused", "*=0x008000\n.macro m(a, b) {\n.db a\n}\nm(1)\n")]


def run(tier, seed):
    n = 800 if tier == "thorough" else 150
    failures = []
    samples = []
    distinct = set()
    for i in range(n):
        case = {"seed": seed * 15485863 + i}
        f, src = check(case)
        distinct.add(src)
        if i < 1:
            samples.append(src)
        if f and len(failures) < 8:
            failures.append({"ident": "bounded/twin-macros", "script": "b_C09.py", "payload": case, "observed": f + " :: " + src[-500:].replace("\n", " / ")})
    for k, (what, src, want) in enumerate(MANY):
        res = assemble(src)
        got = b"".join(b for _a, b in res["blocks"]) if res["status"] == "ok" else None
        if got != want:
            failures.append({"ident": "bounded/many-applications", "script": "b_C09.py", "payload": {"many": k},
                             "observed": f"{what}: {res['status']} {(res['error'] or res['exc'] or '')[:120]} / {None if got is None else got.hex()[:40]} expected {want.hex()[:40]}"})
    for k, (what, src) in enumerate(ERRORS):
        res = assemble(src)
        if res["status"] == "ok":
            failures.append({"ident": "bounded/macro-errors", "script": "b_C09.py", "payload": {"error": k}, "observed": f"{what}: assembled instead of failing"})
    return {"evaluations": n + len(ERRORS) + len(MANY), "distinct_nontrivial": len(distinct) + len(ERRORS) + len(MANY),
            "rule": "4 programs with very many applications / scopes / recursion levels; seeded programs with 5 macros (0-3 parameters, parameters named like outer constants, nested application, recursion ended by .if, "
                    "code-block parameter spliced from a nested scope) applied 2-7 times with literal / constant / backward-label / forward-label / "
                    "coinciding-name arguments, inside blocks that redefine the names and inside loops; vs the reference inlining; 4 error programs",
            "samples": samples, "failures": failures}


def replay(payload):
    if "many" in payload:
        what, src, want = MANY[payload["many"]]
        res = assemble(src)
        got = b"".join(b for _a, b in res["blocks"]) if res["status"] == "ok" else None
        return {"failed": got != want, "observed": f"{what}: {res['status']}"}
    if "error" in payload:
        res = assemble(ERRORS[payload["error"]][1])
        return {"failed": res["status"] == "ok", "observed": res["status"]}
    f, src = check(payload)
    return {"failed": f is not None, "observed": f, "program": src}


if __name__ == "__main__":
    main_protocol(run, replay)
