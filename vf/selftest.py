#!/usr/bin/env python3
"""Differential self-test of the verification engine against CPython (DESIGN 3.7(5)).

For each contract harness case, concrete inputs are drawn (a solver model of the shape's assumptions, biased by seeded random
and boundary values), the harness is executed (a) by the symbolic interpreter with the inputs pinned to those values -- one
path, every check() evaluates to true/false -- and (b) natively by CPython on the real code with the materialised inputs.
The two must agree on the outcome: pass / which check fails first / which exception escapes / assumption not met.
A disagreement means the interpreter or one of its builtin models does not implement Python's semantics on that input:
a checker error, never a verdict about the code.

usage: python3-vt vf/selftest.py [PROP ...] [--n 3] [--seed 0]
"""
from __future__ import annotations

import argparse
import importlib
import json
import os
import random
import sys

HERE = os.path.dirname(os.path.abspath(__file__))
sys.path.insert(0, os.path.dirname(HERE))

import z3  # noqa: E402

from vf import framework as fw  # noqa: E402
from vf.pyvc import solve  # noqa: E402
from vf.pyvc.harness import Builder, Engine, materialize  # noqa: E402
from vf.pyvc.interp import State  # noqa: E402
from vf.pyvc.values import Unsupported  # noqa: E402

BOUNDARY = [0, 1, 2, 3, 5, 0x7F, 0x80, 0xFF, 0x100, 0x7FFF, 0x8000, 0xFFFF, 0x10000, 0x18000, 0x7E0000, 0x808000, 0xC00000, 0xFFFFFF, 0x1000000, -1, -2, -128, -129, 127, 128]


def pick_model(st, symbols, rng):
    s = z3.Solver()
    s.set("timeout", 3000)
    for c in st.pc:
        s.add(c)
    if s.check() != z3.sat:
        return None
    for name, sym in symbols.items():
        if z3.is_int(sym) and not z3.is_array(sym):
            v = rng.choice(BOUNDARY + [rng.randrange(0, 1 << 24), rng.randrange(-300, 300)])
            s.push()
            s.add(sym == v)
            if s.check() == z3.sat:
                continue
            s.pop()
        elif z3.is_bool(sym):
            s.push()
            s.add(sym == rng.choice([True, False]))
            if s.check() == z3.sat:
                continue
            s.pop()
    if s.check() != z3.sat:
        return None
    return s.model()


def run_case(E, mod, case, rng):
    """-> (verdict, detail): verdict in agree | DISAGREE | skipped"""
    I = E.I
    fn, fmod, fcls = E.index.functions[case.harness]
    st = State()
    B = Builder(E, st)
    saved_ovr = dict(I.overrides)
    saved_specs = I.loop_specs
    saved_no = set(I.no_contract_for)
    try:
        params = case.shape(B)
        for arr, codes in getattr(B, "symmaps", []):
            for key in range(256):  # the native materialisation enumerates keys 0..255: pin them to the finite codomain
                st.pc.append(z3.Or(z3.Select(arr, key) == -1, *[z3.Select(arr, key) == c for c in codes]))
        m = pick_model(st, B.symbols, rng)
        if m is None:
            return "skipped", "no model for the shape"
        # symbolic lengths larger than a few elements make the native side slow and add nothing
        pins = []
        for name, sym in B.symbols.items():
            if z3.is_array(sym):
                continue
            pins.append(sym == m.eval(sym, model_completion=True))
        for name, sym in B.symbols.items():
            if z3.is_array(sym):
                pins.append(sym == m.eval(sym, model_completion=True))
        seen = {}
        tree = {k: materialize(E, B, st, v, m, seen) for k, v in params.items()}
        st.pc.extend(pins)
        if case.no_loop_specs:
            I.loop_specs = {}
        else:
            I.loop_specs = {}  # concrete inputs: loops are executed, not cut (the cut is a proof device, not semantics)
        for k, v in case.overrides.items():
            if not k.endswith(".open"):
                I.overrides[k] = v
        for k in getattr(case, "drop_overrides", ()):
            I.overrides.pop(k, None)
        I.no_contract_for |= set(case.target)
        # modular contracts are a proof device too: run the real callee bodies
        saved_contracts = dict(I.contracts)
        I.contracts = {}
        I.paths = 0
        I.deadline = None
        args = [params[p.arg] for p in fn.args.args]
        try:
            outs = I.call_function(fn, fmod, fcls, args, {}, st, case.harness)
        finally:
            I.contracts = saved_contracts
        sym = symbolic_outcome(I, outs)
    except Unsupported as e:
        return "skipped", f"unsupported on concrete inputs: {e}"
    finally:
        I.overrides = saved_ovr
        I.loop_specs = saved_specs
        I.no_contract_for = saved_no
    nat = fw.native_run_harness([{"harness": case.harness, "params": tree, "overrides": case.overrides}])[0]
    nat_o = (nat["outcome"], nat["detail"].split(":")[0] if nat["outcome"] == "exception" else nat["detail"])
    if nat_o[0] == "assumption-failed" and sym[0] != "assumption-failed":
        # the native side materialises at most a few dozen elements of a list of symbolic length: a pinned length / position beyond that cap fails the
        # harness's own range assumption natively although the pinned symbolic input satisfies it -- the two runs are not on the same input: skipped
        return "skipped", f"native input was capped (symbolic: {sym[0]})"
    ok = sym[0] == nat_o[0] and (sym[0] != "violation" or sym[1] == nat_o[1]) and (sym[0] != "exception" or sym[1] == nat_o[1].split(".")[-1])
    return ("agree" if ok else "DISAGREE"), {"symbolic": sym, "native": nat_o, "inputs": {k: solve.model_value(m, v) for k, v in B.symbols.items() if not z3.is_array(v)}}


def symbolic_outcome(I, outs):
    if len(outs) == 0:
        return ("assumption-failed", "")
    if len(outs) > 1:
        return ("nondeterministic", f"{len(outs)} paths on pinned inputs")
    k, v, s = outs[0]
    for name, pc, goal in s.side:
        if str(name).startswith(("callsite_pre", "loop_", "float-exact")):
            continue
        if isinstance(goal, bool):
            holds = goal
        else:
            sol = z3.Solver()
            for c in pc:
                sol.add(c)
            sol.add(z3.Not(goal))
            holds = sol.check() == z3.unsat
        if not holds:
            return ("violation", name)
    if k == "exc":
        cls = I.class_of(v, s)
        if cls == "<loopend>":
            return ("skipped-loop", "")
        return ("exception", cls.split(".")[-1])
    return ("pass", "")


def main():
    ap = argparse.ArgumentParser()
    ap.add_argument("props", nargs="*")
    ap.add_argument("--n", type=int, default=2, help="input draws per harness case")
    ap.add_argument("--seed", type=int, default=int(os.environ.get("VERIF_SEED", "0") or 0))
    ap.add_argument("--max-cases", type=int, default=40)
    args = ap.parse_args()
    props = args.props or sorted(p[:-3] for p in os.listdir(os.path.join(HERE, "props")) if p.startswith("C") and p.endswith(".py"))
    total = agree = skipped = 0
    bad = []
    for prop in props:
        mod = importlib.import_module(f"vf.props.{prop}")
        E = Engine(fw.REPO_ROOT)
        if hasattr(mod, "setup_engine"):
            mod.setup_engine(E)
        cases = [c for c in mod.cases(E) if c.replay]
        rng = random.Random(args.seed * 7919 + hash(prop) % 1000)
        if len(cases) > args.max_cases:
            cases = rng.sample(cases, args.max_cases)
        pa = ps = pt = 0
        for c in cases:
            for _ in range(args.n):
                try:
                    verdict, detail = run_case(E, mod, c, rng)
                except Exception as e:  # noqa: BLE001
                    verdict, detail = "skipped", f"{type(e).__name__}: {e}"
                pt += 1
                if verdict == "agree":
                    pa += 1
                elif verdict == "skipped" or (isinstance(detail, dict) and detail["symbolic"][0] in ("skipped-loop", "nondeterministic")):
                    ps += 1
                else:
                    bad.append({"property": prop, "harness": c.harness, "case": c.label, "detail": detail})
        total += pt
        agree += pa
        skipped += ps
        print(f"{prop}: {pa} agree, {ps} skipped, {pt - pa - ps} DISAGREE of {pt} runs", flush=True)
    for b in bad[:20]:
        print("DISAGREE", json.dumps(b, default=str)[:600])
    json.dump({"runs": total, "agree": agree, "skipped": skipped, "disagreements": bad[:50]}, open(os.path.join(os.path.dirname(HERE), "evidence", "_engine_selftest.json"), "w"), indent=1, default=str)
    print(f"engine self-test: {agree}/{total} agree, {skipped} skipped, {len(bad)} disagreements")
    sys.exit(3 if bad else 0)


if __name__ == "__main__":
    main()
