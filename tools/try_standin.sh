#!/bin/bash
# usage: try_standin.sh <seeded dir name> <b_script module, e.g. b_C17> [tier]  -- runs ONLY the bounded stand-in against a scratch copy of /repo with the patch applied
name=$1; mod=$2; tier=${3:-quick}
scratch=$(mktemp -d /tmp/scratch-XXXXXX)
cp -r /repo/a816 /repo/script $scratch/
( cd $scratch && git init -q . 2>/dev/null && git apply --whitespace=nowarn /verif/seeded/$name/patch.diff ) || { echo "PATCH-FAILED $name"; rm -rf $scratch; exit 9; }
( cd /verif/vf/native && VERIF_REPO=$scratch PYTHONPATH=/verif:$scratch timeout 1500 /venv/bin/python -c "
import $mod, json
r=$mod.run('$tier',0); print('$name', 'failures:', len(r['failures'])); print(json.dumps(r['failures'][:2])[:700])
" )
rm -rf $scratch
