#!/usr/bin/env python3
"""Round 9 (changes m17, m18): prints the prompt given to an independent sub-agent that seeds a property-breaking change.
Only the property's text is given (nothing else from /verif)."""
import json, sys
import os
pid = sys.argv[1]
wt = sys.argv[2]
out = sys.argv[3]
known = []
for k in ("m1", "m2", "m3", "m4", "m5", "m6", "m7", "m8", "m9", "m10", "m11", "m12", "m13", "m14", "m15", "m16"):
    f = f"/verif/seeded/{pid}-{k}/meta.json"
    if os.path.exists(f):
        known.append(json.load(open(f)).get("summary", "")[:180])
for l in open('/verif/properties.jsonl'):
    p = json.loads(l)
    if p['id'] == pid:
        break
print(f"""You are helping to evaluate a verification effort. You get a scratch git worktree of a small pure-Python project
(manz/a816, a 65c816 / SNES patching assembler) at {wt}. Work ONLY inside {wt} and {out}. Do not read or touch
/repo or /verif or any other directory. Do not use the network.

The project's test suite is run with:   cd {wt} && /venv/bin/python -m pytest -q -p no:cacheprovider
(103 tests pass on the unchanged tree; running from inside the worktree imports the worktree's code.)
Programs can be assembled in memory like this (run from inside {wt}):

    from a816.program import Program
    class W:                      # recording writer
        def __init__(s): s.blocks=[]
        def begin(s): pass
        def write_block_header(s,b,a): pass
        def write_block(s,b,a): s.blocks.append((a,bytes(b)))
        def end(s): pass
    p=Program(); w=W(); err=p.assemble_string_with_emitter(src, "t.s", w)

Here is a semantic property that the project is supposed to satisfy:

  id: {p['id']}
  title: {p['title']}
  statement: {p['statement']}
  quantified over: {p['quantifier']['text']}
  files the property is anchored in: {', '.join(p['anchors']['files'])}
  mechanisms: {'; '.join(m['name'] + ' @ ' + m.get('where','') for m in p['anchors']['mechanism'])}

YOUR TASK: produce TWO different, independent, realistic changes (bugs a maintainer could plausibly introduce in a
refactoring or a 'small improvement') to the project's source under {wt}/a816 or {wt}/script (NOT the tests) such that each:
  1. still imports/compiles and the whole existing test suite still passes unchanged (all 103 tests);
  2. BREAKS the property above (the behaviour now contradicts the statement for at least one input inside the quantifier);
  3. needs something SPECIFIC to manifest -- a particular unusual input, boundary value, multi-step sequence of operations,
     a particular combination of options, or two cooperating sites that each look fine alone -- i.e. NOT something ordinary
     use or a casual smoke test would expose at once. Subtle is better than blatant. Prefer small diffs (1-10 lines).
  4. If the unchanged code already violates the property for some input, do not just re-use that existing defect: your change must
     introduce a NEW violation (an input that behaves correctly on the unchanged tree and incorrectly with your change).
Make the two changes different in kind / location (e.g. different functions).
  5. Sixteen changes for this property are ALREADY KNOWN -- do not repeat them or close variants of them; look for other mechanisms, other
     functions, other inputs:
{chr(10).join("       - " + k for k in known)}

For each change k in (17, 18) write into {out}/m<k>/ :
  - patch.diff : output of `git -C {wt} diff` with ONLY that change applied (each patch must apply on its own to the unchanged tree);
  - demo.py    : a small standalone program, run as `cd <tree> && /venv/bin/python {out}/m<k>/demo.py`, that exits 0 (prints PASS) on the unchanged
                 tree and exits 1 (prints FAIL and what was observed vs expected) with the change applied. It must test the PROPERTY
                 (expected values derived from the statement, e.g. the ISA / the format definition), not incidental behaviour;
  - meta.json  : {{"property": "{p['id']}", "summary": "...what was changed...", "needs": "...what specific input/sequence it needs to manifest...",
                  "files": [...], "ran": ["commands you ran to confirm"]}}
Procedure you must follow for each: apply the change in {wt}, run the full test suite (must be 103 passed), run demo.py (must FAIL),
save the diff, then `git -C {wt} checkout -- .` and run demo.py again (must PASS). Leave the worktree clean (no uncommitted changes) at the end.
Finish with a short report: for each change, the one-line summary, and confirmation of the three runs (suite passes with change, demo fails
with change, demo passes without).""")
