#!/bin/bash
# imports round-2 seeded changes produced under /tmp/wt9/out/<ID>/m9|m10 into /verif/seeded/<ID>-m3|m4 (patch.diff, demo.py, meta.json)
for id in "$@"; do
  for k in m17 m18; do
    src=/tmp/wt9/out/$id/$k
    if [ -f $src/patch.diff ] && [ -f $src/demo.py ] && [ -f $src/meta.json ]; then
      mkdir -p /verif/seeded/$id-$k
      cp $src/patch.diff $src/demo.py $src/meta.json /verif/seeded/$id-$k/
      echo "imported $id-$k"
    else
      echo "MISSING $id-$k"
    fi
  done
done
