import sys, faulthandler
faulthandler.dump_traceback_later(100, exit=True)
sys.path.insert(0,'/verif')
from vf import framework as fw
import importlib
prop=sys.argv[1]; idx=int(sys.argv[2])
r=fw._run_case(('vf.props.'+prop,idx,None,10000,True))
print(r['seconds'], r['harness'].split('.')[-1], r['case'], 'paths',r['paths'], r['unsupported'] or '', r.get('crash','')[-2000:])
for ob in r['obligations']:
    if ob['verdict']!='proved': print('    ',ob['name'],ob['verdict'],ob['ms'],ob['note'][:200], ob.get('model'))
