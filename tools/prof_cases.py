import sys, time
sys.path.insert(0,'/verif')
from vf import framework as fw
import importlib
prop=sys.argv[1]
mod=importlib.import_module('vf.props.'+prop)
from vf.pyvc.harness import Engine
E=Engine()
if hasattr(mod, "setup_engine"): mod.setup_engine(E)
cases=mod.cases(E)
res=fw.run_cases('vf.props.'+prop,len(cases))
for r in sorted(res,key=lambda r:-r['seconds'])[:int(sys.argv[2]) if len(sys.argv)>2 else 12]:
    print(r['seconds'], r['harness'].split('.')[-1], r['case'], 'paths',r['paths'], r['unsupported'] or '', r.get('crash','')[:2000])
    for ob in r['obligations']:
        if ob['verdict']!='proved' or ob['ms']>500: print('    ',ob['name'],ob['verdict'],ob['ms'],ob['note'], ob.get('model'))
