"""debug helper: python3-vt tools/obs_case.py PROP IDX  -> obligation names (counted) of one case"""
import sys, collections
sys.path.insert(0, '/verif')
from vf import framework as fw
prop = sys.argv[1]
for idx in sys.argv[2:]:
    r = fw._run_case(('vf.props.' + prop, int(idx), None, 10000, True))
    print(r['seconds'], r['harness'].split('.')[-1], r['case'], 'paths', r['paths'], r['unsupported'] or '', r.get('crash', '')[-1500:])
    c = collections.Counter((ob['name'], ob['verdict']) for ob in r['obligations'])
    for (n, v), k in sorted(c.items()):
        print('   ', k, n, v)
