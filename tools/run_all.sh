#!/bin/bash
# Runs every registered check (quick tier unless $1 = thorough) on /repo and prints one line per property.
cd /verif
tier=${1:-quick}
for p in $(python3 -c "import json; print(' '.join(c['property_id'] for c in json.load(open('MANIFEST.json'))['checks']))"); do
  s=$(date +%s); out=$(python3-vt vf/check.py $p --tier $tier 2>&1); rc=$?; e=$(date +%s)
  echo "$p exit=$rc $((e-s))s :: $(echo "$out" | tail -1)"
  echo "$out" | grep -E "VIOLATION|CHECKER-ERROR|UNDECIDED|WARNING: in-memory|KNOWN-FINDING" | head -5
done
