#!/usr/bin/env python3
"""Validate every seeded change against the CURRENT /repo HEAD: patch applies, the unedited suite passes with it, the demo fails
with it and passes without, and which of our checks (quick tier) report a violation.  Writes seeded/<id>/validation.json and prints a table.
usage: validate_seeded.py [ids...] [--props C01,C02]"""
import json
import os
import shutil
import subprocess
import sys
import tempfile

ROOT = os.path.dirname(os.path.dirname(os.path.abspath(__file__)))
ids = [a for a in sys.argv[1:] if not a.startswith("--")]
all_ids = sorted(os.listdir(os.path.join(ROOT, "seeded")))
ids = ids or all_ids
have = [p[:-3] for p in sorted(os.listdir(os.path.join(ROOT, "vf", "props"))) if p.startswith("C") and p.endswith(".py")]


def sh(cmd, cwd=None, env=None, timeout=1800):
    p = subprocess.run(cmd, shell=True, cwd=cwd, env=env, capture_output=True, text=True, timeout=timeout)
    return p.returncode, p.stdout + p.stderr


for mid in ids:
    d = os.path.join(ROOT, "seeded", mid)
    meta = json.load(open(os.path.join(d, "meta.json")))
    prop = meta.get("property", mid.split("-")[0])
    scratch = tempfile.mkdtemp(prefix="seedval-")
    res = {"id": mid, "property": prop}
    try:
        sh(f"git -C /repo worktree add -q --detach {scratch}/wt HEAD")
        wt = f"{scratch}/wt"
        rc, out = sh(f"git apply --whitespace=nowarn {d}/patch.diff", cwd=wt)
        res["applies"] = rc == 0
        if rc == 0:
            rc, out = sh("/venv/bin/python -m pytest -q -p no:cacheprovider -x 2>&1 | tail -1", cwd=wt)
            res["suite"] = out.strip().split("\n")[-1]
            res["suite_passes"] = "103 passed" in out
            rc, out = sh(f"/venv/bin/python {d}/demo.py", cwd=wt, timeout=600)
            res["demo_fails_with_change"] = rc != 0
            sh("git checkout -q -- .", cwd=wt)
            rc, out = sh(f"/venv/bin/python {d}/demo.py", cwd=wt, timeout=600)
            res["demo_passes_without"] = rc == 0
            sh(f"git apply --whitespace=nowarn {d}/patch.diff", cwd=wt)
            caught = {}
            todo = [prop] + [p for p in have if p != prop] if "--all-props" in sys.argv else [prop]
            for p in todo:
                if p not in have:
                    continue
                env = dict(os.environ, VERIF_REPO=wt)
                rc, out = sh(f"python3-vt vf/check.py {p} --no-mutants", cwd=ROOT, env=env, timeout=3000)
                lines = [l for l in out.split("\n") if l.startswith("VIOLATION")]
                caught[p] = {"exit": rc, "violations": len(lines), "first": lines[0][:200] if lines else "",
                             "undecided": len([l for l in out.split("\n") if l.startswith("UNDECIDED")])}
            res["checks"] = caught
            res["caught_by"] = [p for p, c in caught.items() if c["exit"] == 1]
    finally:
        sh(f"git -C /repo worktree remove --force {scratch}/wt")
        shutil.rmtree(scratch, ignore_errors=True)
        shutil.rmtree("/tmp/verif-scratch-replays" if "--all-props" in sys.argv else f"/tmp/verif-scratch-replays/{prop}", ignore_errors=True)
    json.dump(res, open(os.path.join(d, "validation.json"), "w"), indent=1)
    print(mid, "applies" if res.get("applies") else "PATCH-FAILS", res.get("suite_passes"), "demo:", res.get("demo_fails_with_change"), res.get("demo_passes_without"),
          "caught_by:", res.get("caught_by"), flush=True)
