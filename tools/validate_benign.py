#!/usr/bin/env python3
"""Run every check (quick tier) against a scratch copy of /repo with a property-PRESERVING refactoring applied (benign/<id>/patch.diff):
no check may report a VIOLATION or a checker error.  Writes benign/<id>/validation.json.
usage: validate_benign.py [ids...] [--props C01,C02]"""
import json
import os
import shutil
import subprocess
import sys
import tempfile

ROOT = os.path.dirname(os.path.dirname(os.path.abspath(__file__)))
ids = [a for a in sys.argv[1:] if not a.startswith("--")] or sorted(os.listdir(os.path.join(ROOT, "benign")))
props = [p[:-3] for p in sorted(os.listdir(os.path.join(ROOT, "vf", "props"))) if p.startswith("C") and p.endswith(".py")]
for a in sys.argv[1:]:
    if a.startswith("--props="):
        props = a.split("=", 1)[1].split(",")


def sh(cmd, cwd=None, env=None, timeout=3000):
    p = subprocess.run(cmd, shell=True, cwd=cwd, env=env, capture_output=True, text=True, timeout=timeout)
    return p.returncode, p.stdout + p.stderr


bad = 0
for bid in ids:
    d = os.path.join(ROOT, "benign", bid)
    scratch = tempfile.mkdtemp(prefix="benignval-")
    res = {"id": bid}
    try:
        sh(f"git -C /repo worktree add -q --detach {scratch}/wt HEAD")
        wt = f"{scratch}/wt"
        rc, out = sh(f"git apply --whitespace=nowarn {d}/patch.diff", cwd=wt)
        res["applies"] = rc == 0
        if rc == 0:
            rc, out = sh("/venv/bin/python -m pytest -q -p no:cacheprovider 2>&1 | tail -1", cwd=wt)
            res["suite_passes"] = "103 passed" in out
            checks = {}
            for p in props:
                rc, out = sh(f"python3-vt vf/check.py {p} --no-mutants", cwd=ROOT, env=dict(os.environ, VERIF_REPO=wt))
                lines = out.split("\n")
                checks[p] = {"exit": rc, "violations": [l[:200] for l in lines if l.startswith("VIOLATION")][:3], "errors": [l[:200] for l in lines if l.startswith("CHECKER-ERROR")][:3],
                             "undecided": len([l for l in lines if l.startswith("UNDECIDED")])}
            res["checks"] = checks
            res["alarms"] = [p for p, c in checks.items() if c["exit"] != 0]
            bad += len(res["alarms"])
    finally:
        sh(f"git -C /repo worktree remove --force {scratch}/wt")
        shutil.rmtree(scratch, ignore_errors=True)
        shutil.rmtree("/tmp/verif-scratch-replays", ignore_errors=True)
    json.dump(res, open(os.path.join(d, "validation.json"), "w"), indent=1)
    print(bid, "applies" if res.get("applies") else "PATCH-FAILS", "suite:", res.get("suite_passes"), "ALARMS:" if res.get("alarms") else "no alarm", res.get("alarms") or "",
          "undecided:", {p: c["undecided"] for p, c in res.get("checks", {}).items() if c["undecided"]}, flush=True)
sys.exit(1 if bad else 0)
