#!/usr/bin/env python3
"""Regenerates /verif/MANIFEST.json from the property modules in vf/props (one source of truth)."""
import importlib
import json
import os
import sys

ROOT = os.path.dirname(os.path.dirname(os.path.abspath(__file__)))
sys.path.insert(0, ROOT)
props = [json.loads(l) for l in open(os.path.join(ROOT, "properties.jsonl"))]
checks = []
na = []
NA_REASONS = {}
na_file = os.path.join(ROOT, "not_applicable.json")
if os.path.exists(na_file):
    NA_REASONS = json.load(open(na_file))
for p in props:
    pid = p["id"]
    path = os.path.join(ROOT, "vf", "props", pid + ".py")
    if not os.path.exists(path) or pid in NA_REASONS:
        na.append({"property_id": pid, "reason": NA_REASONS.get(pid, "check under construction (framework being built; see DESIGN.md section 5) - temporary entry")})
        continue
    mod = importlib.import_module(f"vf.props.{pid}")
    if getattr(mod, "READY", True) is False:
        na.append({"property_id": pid, "reason": NA_REASONS.get(pid, "check under construction (framework being built; see DESIGN.md section 5) - temporary entry")})
        continue
    level = getattr(mod, "LEVEL", "proof")
    technique = getattr(mod, "TECHNIQUE", "contract harnesses on the real functions, VCs generated from the ast by symbolic execution, discharged by z3/cvc5"
                        + ("" if level == "proof" else "; labelled bounded stand-in for the part outside the generator's reach"))
    checks.append({
        "property_id": pid,
        "quick_cmd": f"python3-vt vf/check.py {pid} --tier quick",
        "thorough_cmd": f"python3-vt vf/check.py {pid} --tier thorough",
        "evidence_file": f"evidence/{pid}.json",
        "replay_cmd_template": "python3-vt vf/check.py --replay {path}",
        "engine": "pyvc",
        "level_claimed": {"category": level, "text": getattr(mod, "EXPLANATION", ""), "design_ref": f"DESIGN.md section 5, {pid}"},
        "level_note": "Trusted: " + "; ".join(getattr(mod, "TRUSTED", [])) + ". Assumed: " + "; ".join(getattr(mod, "ASSUMPTIONS", [])),
        "technique": technique,
    })
m = {
    "version": 1,
    "setup_cmd": "python3-vt -c \"import z3, sys; sys.path.insert(0, '.'); import vf.pyvc.harness\"",
    "hooks": {"guard": "MANZ_A816_VERIF", "enable": "none needed: sidecar contracts are attached to functions re-extracted from /repo's working tree on each run; "
              "the guard name is reserved and unused", "baseline_off_cmd": "cd /repo && /venv/bin/python -m pytest -ra -q -p no:cacheprovider --timeout=900",
              "source_commits": [], "add_only": True},
    "engines": [{"name": "pyvc", "path": "vf/pyvc", "serves_properties": [c["property_id"] for c in checks],
                 "kind_free_text": "verification-condition generator written for this task: forward symbolic execution of the real functions' ast "
                                   "(re-extracted from /repo each run), contracts as sidecar harness functions (assume/check), loop invariants, modular "
                                   "substitution of proved functional contracts, z3 5.1 (python API) with cvc5 on unknowns; counter-models are "
                                   "materialised and replayed on the real code under /venv/bin/python"}],
    "checks": checks,
    "not_applicable": na,
    "notes": "See DESIGN.md. Known findings / fixed defects: known_findings.txt. Seeded test-passing mutants and which checks catch them: seeded/.",
}
json.dump(m, open(os.path.join(ROOT, "MANIFEST.json"), "w"), indent=1)
print(len(checks), "checks,", len(na), "not applicable")
