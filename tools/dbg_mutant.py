import sys
sys.path.insert(0,'/verif')
from vf import framework as fw
import importlib
prop, mname, filt = sys.argv[1], sys.argv[2], sys.argv[3]
mod=importlib.import_module('vf.props.'+prop)
from vf.pyvc.harness import Engine
E=Engine(); 
if hasattr(mod,'setup_engine'): mod.setup_engine(E)
cases=mod.cases(E)
for i,c in enumerate(cases):
    if filt in c.label and (len(sys.argv)<5 or sys.argv[4] in c.harness):
        r=fw._run_case(('vf.props.'+prop,i,mname,10000,False))
        print(r['seconds'], r['harness'].split('.')[-1], r['case'], 'paths', r['paths'], r['unsupported'] or '', len(r['obligations']))
        for ob in r['obligations']:
            if ob['verdict']!='proved': print('    ',ob['name'],ob['verdict'],ob['ms'],ob['note'][:100])
