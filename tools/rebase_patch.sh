#!/bin/bash
# usage: rebase_patch.sh <seeded dir name> <python edit script on stdin>   -- re-creates patch.diff against the current /repo HEAD
set -e
name=$1
scratch=$(mktemp -d /tmp/rebase-XXXXXX)
git -C /repo worktree add -q --detach $scratch HEAD
( cd $scratch && python3 - ) 
git -C $scratch diff > /verif/seeded/$name/patch.diff
( cd $scratch && timeout 600 /venv/bin/python -m pytest -q -p no:cacheprovider 2>&1 | tail -1 )
git -C /repo worktree remove --force $scratch
echo "rebased $name: $(wc -l < /verif/seeded/$name/patch.diff) lines"
