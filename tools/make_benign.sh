#!/bin/bash
# usage: make_benign.sh <id> "<what>" <python edit script on stdin>  -- creates benign/<id>/patch.diff (a property-PRESERVING refactoring of /repo)
set -e
name=$1; what=$2
scratch=$(mktemp -d /tmp/benign-XXXXXX)
git -C /repo worktree add -q --detach $scratch HEAD
( cd $scratch && python3 - )
mkdir -p /verif/benign/$name
git -C $scratch diff > /verif/benign/$name/patch.diff
suite=$( cd $scratch && timeout 600 /venv/bin/python -m pytest -q -p no:cacheprovider 2>&1 | tail -1 )
git -C /repo worktree remove --force $scratch
python3 - "$name" "$what" "$suite" <<'PY'
import json, sys
json.dump({"id": sys.argv[1], "what": sys.argv[2], "suite": sys.argv[3].strip(), "expectation": "every check exits 0 (UNDECIDED-BY-PROOF lines are allowed: the bounded stand-in then decides)"},
          open(f"/verif/benign/{sys.argv[1]}/meta.json", "w"), indent=1)
PY
echo "$name: $(wc -l < /verif/benign/$name/patch.diff) lines; $suite"
