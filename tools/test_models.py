#!/usr/bin/env python3
"""Differential test of the engine's models of find / rfind / startswith / endswith / strip on sequences of symbolic length (vf/pyvc/models.py
symseq_search) against CPython: for random pinned inputs the harnesses of vf/contracts/c_models.py are executed symbolically, the RETURNED values
(indices, lengths, booleans) are read off the path condition -- they must be uniquely determined -- and compared with what the same harness returns
natively.  Also proves the lemmas for all inputs (general cases).  usage: python3-vt tools/test_models.py [--n 40]"""
import argparse
import importlib
import os
import random
import sys

ROOT = os.path.dirname(os.path.dirname(os.path.abspath(__file__)))
sys.path.insert(0, ROOT)
import z3  # noqa: E402

from vf import framework as fw, selftest  # noqa: E402
from vf.pyvc import solve  # noqa: E402
from vf.pyvc.harness import Builder, Engine, materialize  # noqa: E402
from vf.pyvc.interp import State  # noqa: E402


def main():
    ap = argparse.ArgumentParser()
    ap.add_argument("--n", type=int, default=40)
    ap.add_argument("--seed", type=int, default=0)
    args = ap.parse_args()
    random.seed(args.seed)
    rng = random.Random(args.seed)
    mod = importlib.import_module("vf.props.ZZ_models")
    native = importlib.import_module("vf.contracts.c_models")
    E = Engine(fw.REPO_ROOT)
    I = E.I
    bad = 0
    total = 0
    for case in [c for c in mod.cases(E) if c.label.startswith("random")]:
        fn, fmod, fcls = E.index.functions[case.harness]
        for _ in range(args.n):
            st = State()
            B = Builder(E, st)
            params = case.shape(B)
            m = selftest.pick_model(st, B.symbols, rng)
            if m is None:
                continue
            pins = [sym == m.eval(sym, model_completion=True) for sym in B.symbols.values()]
            tree = {k: materialize(E, B, st, v, m, {}) for k, v in params.items()}
            st.pc.extend(pins)
            I.paths = 0
            I.deadline = None
            outs = I.call_function(fn, fmod, fcls, [params[p.arg] for p in fn.args.args], {}, st, case.harness)
            live = []
            for k, v, s in outs:
                sol = z3.Solver()
                sol.add(*s.pc)
                if sol.check() == z3.sat:
                    live.append((k, v, s, sol))
            total += 1
            def dec(t):
                return bytes(x % 256 for x in t["v"]) if t["k"] == "bytes" else t["v"]
            tree = {k: dec(v) for k, v in tree.items()}
            want = getattr(native, case.harness.split(".")[-1])(**tree)
            if len(live) != 1 or live[0][0] != "val":
                print("DISAGREE (paths)", case.harness, tree, [(k, str(v)[:80]) for k, v, _s, _ in live])
                bad += 1
                continue
            k, v, s, sol = live[0]
            vs = list(v) if isinstance(v, tuple) else [v]
            got = [solve.model_value(sol.model(), z3.IntVal(x) if isinstance(x, int) and not isinstance(x, bool) else (z3.BoolVal(x) if isinstance(x, bool) else x)) for x in vs]
            wl = list(want) if isinstance(want, tuple) else [want]
            # uniqueness: the path condition determines the results
            sol.add(z3.Or(*[(x != g) if not isinstance(x, (int, bool)) else z3.BoolVal(False) for x, g in zip(vs, got)]))
            unique = sol.check() == z3.unsat
            if [int(a) if not isinstance(a, bool) else a for a in got] != [int(a) if not isinstance(a, bool) else a for a in wl] or not unique:
                print("DISAGREE", case.harness, tree, "engine", got, "unique" if unique else "NOT-UNIQUE", "python", wl)
                bad += 1
    print(f"model differential test: {total - bad}/{total} agree")
    sys.exit(3 if bad else 0)


if __name__ == "__main__":
    main()
