#!/bin/bash
# usage: try_mutant.sh <seeded dir name> <PROP> [extra check args]   -- runs a check against a scratch copy of /repo with the patch applied
set -u
name=$1; prop=$2; shift 2
scratch=$(mktemp -d /tmp/scratch-XXXXXX)
cp -r /repo/a816 /repo/script /repo/tests /repo/pyproject.toml $scratch/ 2>/dev/null
( cd $scratch && git init -q . 2>/dev/null && git apply --whitespace=nowarn /verif/seeded/$name/patch.diff ) || { echo "PATCH-FAILED $name"; rm -rf $scratch; exit 9; }
( cd /verif && VERIF_REPO=$scratch python3-vt vf/check.py $prop "$@" 2>&1 | grep -E "VIOLATION|UNDECIDED|CHECKER-ERROR|KNOWN|^C[0-9]+ \[|WARNING|Traceback|Error" | head -20 )
rc=${PIPESTATUS[0]}
rm -rf $scratch
